"""
C12 — Servers isolate concurrent clients and always shut down cleanly.

Model   : lean/JRV/Model/ServerLife.lean (life-cycle LTS: serving thread, closing thread, shutdown caller, handlers,
          clients; plain and pooled server; per-connection phases queued / awaiting (idle) / running (in flight) / closed;
          request kinds call / notification / failing method / BaseException / malformed body; shared dispatcher cell)
Theorems: lean/JRV/Properties/C12.lean, companions of the extracted facts in lean/JRV/Properties/C12Gen.lean
Tie     : extracted bodies of PooledJSONRPCServer.server_close / serve_forever / process_request, the catch-all handlers
          of _dispatch / do_POST (tools/extractors/serverlife.py), the write footprint of the serve path (footprint.py)
          + correspondence: life-cycle histories on the REAL server classes over real TCP / Unix sockets vs the model
          run on the same history (op results, final socket / pool / stop state, reply and execution count per connection).
Monitor : the property statement, on RAW client connections with harness-chosen ids: every reply carries the id AND the
          token sent on that connection (no cross-talk); every request's callable ran exactly once (execution log per
          token; notifications included; never for a malformed body); a malformed request or a failing method — ordinary
          exception, SystemExit, KeyboardInterrupt, a direct BaseException subclass — is answered with an error object and
          the same server (plain and pooled, pools of size 1 too) answers the healthy calls that follow; every stop
          operation returns once in-flight requests complete, afterwards the listening socket is closed and the workers
          of the stopped pool are dead.
Reading : an accepted connection whose handler has begun counts as IN FLIGHT until its request has been answered or the
          client has disconnected; stop operations wait for it (stdlib socketserver semantics).  Histories `idle` (a client
          connects and stays silent) / `idleka` (HTTP/1.1 handler class: the client keeps the connection after its reply):
          the stop operation is still blocked after 1 s — compared with the model — and must return once the client
          disconnects (`stop-hang-after-release` otherwise); a stop operation that returns early must satisfy its
          post-conditions at that point (`worker-alive-after-stop`, `post: socket-open`).
Address : histories in which the server's ADDRESS is contended for or goes away (model JRV.Model.ServerContend, component
          `worldseq`, theorems C12_contender_* / C12_world_projects / C12_serves_after_contention): a SECOND server of the same
          kind is constructed on the address the first one listens on (`contend`: TCP port and Unix path; its `bind` fails and
          the failure path of its constructor runs `server_close()`), before / while / after the first one serves, with requests
          in flight, once or twice; a server constructed with bind_and_activate=False and closed (`unbound`); the socket file
          removed by the environment (`rmfile`, Unix).  Monitor = the property statement for the FIRST server: every request
          after the contention is answered with its own reply, executed once; shutdown() / server_close() return and do not
          raise; afterwards the listening socket is closed and the workers of its pool are dead — and for the contender: its
          own socket is closed and the workers of its own pool are dead when its constructor has raised.
Reuse   : a USER-SUPPLIED pool outlives a server: histories in which the pool object (min_threads = 0 and > 0, max 1..4) is handed
          to a server, that server is closed (request in flight / queued / idle), the user calls pool.start() and hands the pool
          to a NEW server (`reuse` chains, two or three life cycles), or stops and restarts the pool under the SAME serving
          server (`poolcycle`).  Same monitors per life cycle; each life cycle is compared with the model started afresh — what
          C11_restart (a stopped pool is in the configuration of a new one) and C12_pool_reuse (the pool abstraction of the
          model holds in every state of a restarted pool) justify.
Stage 2 : the hand-over to the request pool under the deterministic scheduler (harness/poolpaths.py, no sockets): a real
          PooledJSONRPCServer (bind_and_activate=False, default or user pool) whose `process_request_thread` is a recording
          stub; a managed accept-loop thread calls `process_request` for a sequence of fake requests, interleaved with the
          pool workers in every way (random, PCT; thorough: bounded-preemption DFS); then `server_close()`.  Monitor: every
          accepted request is handled exactly once while the pool is not stopped (none lost, none duplicated);
          `server_close()` returns once in-flight handlers complete, socket closed, pool stopped, every worker terminates.
"""
import collections
import itertools
import json
import os
import random
import shutil
import socket
import sys
import tempfile
import threading
import time

import impl
import poolpaths as pp

REQUIRED_THEOREMS = [
    "C12_isolation", "C12_once", "C12_accepted_is_started", "C12_serves_next", "C12_failure_is_local", "C12_survives",
    "C12_close_no_stuck", "C12_shutdown_no_stuck", "C12_close_steps_enabled", "C12_close_post", "C12_close_without_serving",
    "C12_full_statement", "C12_idle_connection_holds_stop", "C12_idle_released_by_client", "C12_idle_persist",
    "C12_view_steps", "C12_pool_instantiation", "C12_pool_reuse", "C09_at_most_once", "C09_none_after_stop",
    "C12_gen_serverClose", "C12_gen_serveFlag", "C12_gen_processRequest",
    "C12_gen_poolRetireRule", "C12_gen_poolGrowthRule", "C12_gen_poolPendingStores", "C12_gen_poolUnlockedAccesses",
    "C12_gen_sharedWrites", "C12_gen_catchAll", "C12_gen_cfg", "C12_gen_isolation", "C12_gen_survives",
    "C12_contender_frame", "C12_world_projects", "C12_contention_transparent", "C12_stop_independent_of_address",
    "C12_contender_terminates", "C12_serves_after_contention", "C12_gen_plainServerClose", "C12_gen_failedConstructorCloses",
]

DEADLINE = 12.0       # generous bound for something that must happen (robust under CPU load)
MIN_BLOCK = 0.2       # an operation held back by a request in flight is looked at after this long
IDLE_WATCHDOG = 1.0   # a stop operation held back by nothing but idle connections is given this long
HANG_SEEN = [False]   # once an operation has hung for DEADLINE, later hangs are given a shorter wait

FAIL_METHOD = {"exc": "boom", "typeerr": "boomtype", "recur": "recur", "sysexit": "quit", "kbint": "kbint", "basex": "basex"}
FAIL_EXC = ("exc", "typeerr", "recur")         # ordinary exceptions
FAIL_FATAL = ("sysexit", "kbint", "basex")     # BaseException outside Exception
BAD_BODY = ("badjson", "badutf8", "trunc", "nolen")
SURVIVAL_KINDS = ["fail:" + k for k in FAIL_EXC + FAIL_FATAL] + ["bad:" + k for k in BAD_BODY] + ["notiffail", "notif", "big", "overlong"]
SIMPLE_OPS = set(["req"] + SURVIVAL_KINDS)


class Cancelled(BaseException):
    """A direct BaseException subclass (like asyncio.CancelledError / GeneratorExit)."""


def deadline():
    return 3.0 if HANG_SEEN[0] else DEADLINE


def make_id(tok):
    """Harness-chosen request id: strings, integers and the falsy id 0; never equal to a token or a result."""
    if tok % 5 == 4:
        return 0  # a falsy but valid id: the request is a call and must be answered (token still identifies the reply)
    return "q%d" % tok if tok % 3 else 7000000 + tok


# ---- raw client ------------------------------------------------------------------------------------------------------


class Disconnect(Exception):
    """The connection ended without a complete HTTP reply: args[0] in eof / reset / timeout."""


class Wire(object):
    """One raw client connection (no HTTP library: ids, lengths and half-closes are ours)."""

    def __init__(self, L, timeout=None):
        timeout = timeout or deadline() + 3
        if L.family == "unix":
            # a connect with a time-out fails at once with EAGAIN while the 5-entry backlog of a Unix listener is full
            # (and a blocking one waits for ever if nobody accepts any more): retry until the deadline
            end = time.time() + timeout
            while True:
                s = socket.socket(socket.AF_UNIX, socket.SOCK_STREAM)
                s.settimeout(1.0)
                try:
                    s.connect(L.addr)
                    break
                except (BlockingIOError, socket.timeout):
                    s.close()
                    if time.time() > end:
                        raise Disconnect("timeout")
                    time.sleep(0.005)
        else:
            try:
                s = socket.create_connection(("127.0.0.1", L.server.server_address[1]), timeout)
            except socket.timeout:
                raise Disconnect("timeout")
        s.settimeout(timeout)
        self.s = s
        self.buf = b""

    def send(self, body, length=None, no_length=False, http11=False, extra=b""):
        head = ["POST / HTTP/1.1" if http11 else "POST / HTTP/1.0", "Content-Type: application/json"]
        if http11:
            head.append("Host: localhost")
        if not no_length:
            head.append("Content-Length: %d" % (len(body) if length is None else length))
        self.s.sendall(("\r\n".join(head) + "\r\n\r\n").encode("ascii") + body + extra)

    def half_close(self):
        try:
            self.s.shutdown(socket.SHUT_WR)
        except OSError:
            pass

    def _more(self):
        try:
            d = self.s.recv(65536)
        except socket.timeout:
            raise Disconnect("timeout")
        except (ConnectionResetError, BrokenPipeError):
            raise Disconnect("reset")
        if not d:
            raise Disconnect("eof")
        self.buf += d

    def read_reply(self):
        """-> (status, body bytes)"""
        while b"\r\n\r\n" not in self.buf:
            self._more()
        head, rest = self.buf.split(b"\r\n\r\n", 1)
        lines = head.decode("latin-1").split("\r\n")
        status = int(lines[0].split()[1])
        clen = None
        for ln in lines[1:]:
            k, _, v = ln.partition(":")
            if k.strip().lower() == "content-length":
                clen = int(v.strip())
        self.buf = rest
        if clen is None:
            try:
                while True:
                    self._more()
            except Disconnect as ex:
                if ex.args[0] == "timeout":
                    raise
            body, self.buf = self.buf, b""
            return status, body
        while len(self.buf) < clen:
            self._more()
        body, self.buf = self.buf[:clen], self.buf[clen:]
        return status, body

    def close(self):
        try:
            self.s.close()
        except OSError:
            pass


def call_body(method, tok, rid, extra_params=()):
    return json.dumps({"jsonrpc": "2.0", "id": rid, "method": method, "params": [tok] + list(extra_params)}).encode("utf-8")


def notif_body(method, tok):
    return json.dumps({"jsonrpc": "2.0", "method": method, "params": [tok]}).encode("utf-8")


def build(op, tok):
    """The bytes of the request of a simple op and what the property says the reply must be."""
    rid = make_id(tok)
    spec = {"op": op, "tok": tok, "id": rid, "length": None, "no_length": False, "half_close": False, "extra": b"", "execs": 1}
    if op in ("req", "slow", "idleka", "queued"):
        spec.update(body=call_body("slow" if op == "slow" else "echo", tok, rid), expect="result")
    elif op == "big":
        spec.update(body=call_body("echo", tok, rid, ["x" * 300000]), expect="result")
    elif op == "overlong":
        spec.update(body=call_body("echo", tok, rid), expect="result", extra=b'  {"trailing": "bytes beyond Content-Length"}', tolerate_reset=True)
    elif op == "notif":
        spec.update(body=notif_body("echo", tok), expect="empty")
    elif op == "notiffail":
        spec.update(body=notif_body("quit" if tok % 2 else "boom", tok), expect="empty")
    elif op.startswith("fail:"):
        spec.update(body=call_body(FAIL_METHOD[op[5:]], tok, rid), expect="error")
    elif op == "bad:badjson":
        spec.update(body=call_body("echo", tok, rid)[:-9], expect="parse", execs=0)
    elif op == "bad:badutf8":
        spec.update(body=call_body("echo", tok, rid, ["PAD"]).replace(b"PAD", b"\xff\xfe\xc3"), expect="parse", execs=0)
    elif op == "bad:trunc":
        full = call_body("echo", tok, rid, ["tail"])
        spec.update(body=full[: len(full) // 2], length=len(full), half_close=True, expect="parse", execs=0)
    elif op == "bad:nolen":
        # the server cannot read a body of unknown length: those bytes are still unread when it closes -> the kernel may reset
        spec.update(body=call_body("echo", tok, rid), no_length=True, half_close=True, expect="parse", execs=0, tolerate_reset=True)
    else:
        raise ValueError(op)
    return spec


def judge(spec, status, body):
    """Property statement on one reply: -> (rendering for the projection, problem or None)."""
    tok, rid, expect = spec["tok"], spec["id"], spec["expect"]
    if expect == "empty":
        if status == 200 and body == b"":
            return "n", None
        return "X", "notification %d answered HTTP %s %r (a notification has no reply)" % (tok, status, body[:200])
    try:
        d = json.loads(body.decode("utf-8"))
    except ValueError:
        return "X", "request %d (%s) answered HTTP %s with a body that is not JSON: %r" % (tok, spec["op"], status, body[:200])
    if not isinstance(d, dict):
        return "X", "request %d (%s) answered %r" % (tok, spec["op"], d)
    if expect == "parse":
        err = d.get("error")
        if d.get("id") is None and isinstance(err, dict) and err.get("code") in (-32700, -32600, -32603) and "result" not in d:
            return "P", None
        return "X", "malformed request %d (%s) answered %r (an error object with id null was due)" % (tok, spec["op"], d)
    if d.get("id") != rid:
        return "X", ("request %d (%s) sent with id %r was answered with id %r: %r (cross-talk: the reply of another request)"
                     % (tok, spec["op"], rid, d.get("id"), d))
    if expect == "result":
        if d.get("result") == tok + 1000 and d.get("error") is None:
            return str(tok + 1000), None
        return "X", "request %d (%s) with token %d answered %r (result %d was due)" % (tok, spec["op"], tok, d, tok + 1000)
    err = d.get("error")
    if isinstance(err, dict) and err.get("code") == -32603 and "result" not in d:
        return "E%d" % (tok + 1000), None
    return "X", "failing request %d (%s) answered %r (error -32603 with its own id was due)" % (tok, spec["op"], d)


def exchange(L, spec, http11=False, keep=False):
    """Sends the request of `spec` on a fresh raw connection -> (rendering, problem, wire or None)."""
    w = None
    try:
        w = Wire(L)
        w.send(spec["body"], length=spec["length"], no_length=spec["no_length"], http11=http11, extra=spec["extra"])
        if spec["half_close"]:
            w.half_close()
        status, body = w.read_reply()
    except Disconnect as ex:
        if w is not None:
            w.close()
        if spec.get("tolerate_reset") and ex.args[0] == "reset":
            return None, None, None
        if ex.args[0] == "timeout":
            HANG_SEEN[0] = True
        return "-", "request %d (%s): no reply, connection ended with %s" % (spec["tok"], spec["op"], ex.args[0]), None
    except OSError as ex:
        if w is not None:
            w.close()
        return "-", "request %d (%s): %s: %s" % (spec["tok"], spec["op"], type(ex).__name__, ex), None
    r, problem = judge(spec, status, body)
    if keep:
        return r, problem, w
    w.close()
    return r, problem, None


def run_with_watchdog(fn, timeout=None):
    """Runs fn in a thread; returns ('ok', value) | ('err', exc) | ('hang', thread)."""
    box = []

    def target():
        try:
            box.append(("ok", fn()))
        except BaseException as ex:  # noqa: BLE001
            box.append(("err", ex))
    t = threading.Thread(target=target)
    t.daemon = True
    t.start()
    t.join(timeout or deadline())
    if t.is_alive():
        return ("hang", t)
    return box[0]


def wait_for(cond, timeout=None):
    """Polls `cond` until it holds or the (generous) deadline passes."""
    end = time.time() + (timeout or deadline())
    while True:
        if cond():
            return True
        if time.time() > end:
            return False
        time.sleep(0.003)


# ---- one real server -------------------------------------------------------------------------------------------------


class Life(object):
    """One real server under a life-cycle history."""
    counter = 0

    def __init__(self, kind, family, tmpdir, pool_spec, http11=False, bind=True, pool_obj=None):
        import jsonrpclib.SimpleJSONRPCServer as SRV
        import jsonrpclib.threadpool as TP
        self.kind, self.family = kind, family
        self.bound = bind
        self.pool_spec = pool_spec
        self.contenders = []
        self.gates = {}
        self.entered = {}
        self.pool = None
        self.lock = threading.Lock()
        self.execlog = collections.Counter()      # token -> number of executions of its callable
        self.handlers_started = 0                 # request handlers set up so far (one per accepted connection begun)
        self.cfg = impl.jsonrpclib.config.Config()
        if family == "unix":
            Life.counter += 1
            self.addr = os.path.join(tmpdir, "s%d.sock" % Life.counter)
            fam = socket.AF_UNIX
        else:
            self.addr = ("127.0.0.1", 0)
            fam = socket.AF_INET
        outer = self

        class Handler(SRV.SimpleJSONRPCRequestHandler):
            """The library's handler; tells the harness when a connection's handler has begun; HTTP/1.1 on demand."""
            if http11:
                protocol_version = "HTTP/1.1"

            def setup(self):
                SRV.SimpleJSONRPCRequestHandler.setup(self)
                with outer.lock:
                    outer.handlers_started += 1

        if kind == "pooled":
            if pool_obj is not None:
                # a pool the user owns and has used before (already started): handed to this server as it is
                self.pool = pool_obj
            elif pool_spec is not None:
                self.pool = TP.ThreadPool(pool_spec[0], pool_spec[1])
                self.pool.start()
            self.server = SRV.PooledJSONRPCServer(self.addr, requestHandler=Handler, logRequests=False, address_family=fam,
                                                  config=self.cfg, thread_pool=self.pool, bind_and_activate=bind)
            self.pool = self.server._PooledJSONRPCServer__request_pool
        else:
            self.server = SRV.SimpleJSONRPCServer(self.addr, requestHandler=Handler, logRequests=False, address_family=fam,
                                                  config=self.cfg, bind_and_activate=bind)
        self.handler_class = Handler
        self.fam = fam
        reg = self.server.register_function
        reg(self._echo, "echo")
        reg(self._slow, "slow")
        reg(self._boom, "boom")
        reg(self._boomtype, "boomtype")
        reg(self._recur, "recur")
        reg(self._quit, "quit")
        reg(self._kbint, "kbint")
        reg(self._basex, "basex")
        self.serve_thread = None
        self.client_threads = []
        self.replies = {}       # token -> rendering
        self.problems = []
        self.wires = {}         # token -> open raw connection (idle ones)
        self.pool_threads = []

    # registered methods: each logs the execution of its token first
    def _log(self, tok):
        with self.lock:
            self.execlog[tok] += 1

    def _echo(self, tok, *pad):
        self._log(tok)
        return tok + 1000

    def _slow(self, tok):
        self._log(tok)
        self.entered[tok].set()
        self.gates[tok].wait(60)
        return tok + 1000

    def _boom(self, tok):
        self._log(tok)
        raise ValueError("boom %s" % tok)

    def _boomtype(self, tok):
        self._log(tok)
        raise TypeError("raised inside the method %s" % tok)

    def _recur(self, tok, depth=0):
        if depth == 0:
            self._log(tok)
        return self._recur(tok, depth + 1)

    def _quit(self, tok):
        self._log(tok)
        sys.exit(3)

    def _kbint(self, tok):
        self._log(tok)
        raise KeyboardInterrupt()

    def _basex(self, tok):
        self._log(tok)
        raise Cancelled("cancelled %s" % tok)

    def serve(self):
        self.serve_thread = threading.Thread(target=self.server.serve_forever, args=(0.01,))
        self.serve_thread.daemon = True
        self.serve_thread.start()
        return True

    def background(self, spec):
        """A client thread that sends `spec` and waits for its reply (slow / queued requests)."""
        def client():
            r, problem, _ = exchange(self, spec)
            with self.lock:
                self.replies[spec["tok"]] = r
                if problem:
                    self.problems.append((spec["tok"], problem))
        t = threading.Thread(target=client)
        t.daemon = True
        t.start()
        self.client_threads.append(t)

    def slow(self, tok):
        self.gates[tok] = threading.Event()
        self.entered[tok] = threading.Event()
        self.background(build("slow", tok))
        return self.entered[tok].wait(deadline())

    def listen_address(self):
        """The address a client (or a second server) would use: the Unix path, or the TCP port the server got."""
        if self.family == "unix":
            return self.addr
        return ("127.0.0.1", self.server.server_address[1])

    def contend(self):
        """Constructs a SECOND server of the same kind (own pool of the same shape) on the address this one listens on.
        -> (op result for the correspondence, [(violation, key)]).  The instance is captured before the library constructor
        runs, so that its socket and its pool can be looked at after the constructor has raised."""
        import jsonrpclib.SimpleJSONRPCServer as SRV
        import jsonrpclib.threadpool as TP
        base = SRV.PooledJSONRPCServer if self.kind == "pooled" else SRV.SimpleJSONRPCServer
        captured = []

        class Contender(base):
            def __init__(self, *args, **kwargs):
                captured.append(self)
                base.__init__(self, *args, **kwargs)

        viol = []
        kwargs = dict(requestHandler=self.handler_class, logRequests=False, address_family=self.fam, config=self.cfg)
        bpool = None
        if self.kind == "pooled" and self.pool_spec is not None:
            bpool = TP.ThreadPool(self.pool_spec[0], self.pool_spec[1])
            bpool.start()
            kwargs["thread_pool"] = bpool
        k, v = run_with_watchdog(lambda: Contender(self.listen_address(), **kwargs))
        if k == "hang":
            HANG_SEEN[0] = True
            return "hang", [("the constructor of a second server on the busy address %r did not return within %.0f s"
                             % (self.listen_address(), DEADLINE), "contender: hang")]
        b = captured[0] if captured else None
        self.contenders.append(b)
        if k == "ok":
            # the address was not busy after all (never on a bound first server): a second, independent server
            run_with_watchdog(v.server_close, 3)
            return "bound", []
        if not isinstance(v, OSError):
            viol.append(("the constructor of a second server on the busy address raised %r instead of the bind error (its "
                         "server_close() on the failure path failed)" % (v,), "contender: stop-raised"))
        sock = "closed"
        try:
            if b.socket.fileno() != -1:
                sock = "open"
        except AttributeError:
            sock = "none"
        if sock != "closed":
            viol.append(("the second server's constructor failed (%r) and left its own socket %s" % (v, sock), "contender: socket-open"))
        pool_state = "none"
        if self.kind == "pooled":
            p = getattr(b, "_PooledJSONRPCServer__request_pool", None)
            pool_state = "stopped" if (p is not None and p._done_event.is_set()) else "running"
            threads = list(p._threads) if p is not None else []
            if pool_state != "stopped":
                viol.append(("the second server's constructor failed (%r) and left its own request pool running" % (v,),
                             "contender: pool-running"))
                if p is not None:
                    run_with_watchdog(p.stop, 3)
            elif not wait_for(lambda: not any(t.is_alive() for t in threads)):
                viol.append(("workers of the failed second server's own pool are still alive: %r"
                             % [t.name for t in threads if t.is_alive()], "contender: workers-alive"))
        return "refused:%s:%s" % (sock, pool_state), viol

    def reachable(self):
        """Does a client connecting to the address reach a listening socket?"""
        if not self.bound:
            return False
        try:
            if self.family == "unix":
                s = socket.socket(socket.AF_UNIX, socket.SOCK_STREAM)
                s.settimeout(2.0)
                s.connect(self.addr)
            else:
                s = socket.create_connection(self.listen_address(), 2.0)
        except OSError:
            return False
        s.close()
        return True

    def snapshot_pool_threads(self):
        if self.pool is not None:
            for t in list(self.pool._threads):
                if t not in self.pool_threads:
                    self.pool_threads.append(t)

    def cleanup(self):
        for g in self.gates.values():
            g.set()
        for w in self.wires.values():
            w.close()
        try:
            if self.serve_thread is not None and self.serve_thread.is_alive():
                run_with_watchdog(self.server.shutdown, 2)
            run_with_watchdog(self.server.server_close, 2)
        except Exception:
            pass


# ---- life-cycle histories --------------------------------------------------------------------------------------------


def legal_histories(kind, maxlen):
    """Histories over {serve, req, slow, shutdown, close}; see the property's life-cycle alphabet."""
    out = []
    # never served
    out.append(["close"])
    body_ops = ["req", "slow"] if kind == "pooled" else ["req"]
    for n in range(0, maxlen - 1):
        for mids in itertools.product(body_ops, repeat=n):
            if list(mids).count("slow") > 2:
                continue
            base = ["serve"] + list(mids)
            if len(base) + 2 <= maxlen + 1:
                out.append(base + ["shutdown", "close"])
            if kind == "pooled" and len(base) + 1 <= maxlen:
                out.append(base + ["close"])
    return out


def idle_histories(kind, thorough):
    """Histories with an idle connection (a client that connected and is silent: `idle`; a client of a HTTP/1.1 handler
    class that got its reply and keeps the connection: `idleka`) when the server is stopped, and — pooled, when every
    worker is busy — a request still queued at that time."""
    out = []
    if kind == "pooled":
        out += [["serve", "idle", "close"], ["serve", "idleka", "shutdown", "close"], ["serve", "slow", "idle", "close"]]
        if thorough:
            out += [["serve", "idle", "shutdown", "close"], ["serve", "idleka", "close"], ["serve", "req", "idle", "req", "close"],
                    ["serve", "idle", "idleka", "close"], ["serve", "idle", "slow", "shutdown", "close"]]
    else:
        out += [["serve", "idle", "shutdown", "close"], ["serve", "req", "idleka", "shutdown", "close"]]
        if thorough:
            out += [["serve", "idleka", "shutdown", "close"], ["serve", "fail:sysexit", "idle", "shutdown", "close"]]
    return out


def queued_histories(pool_spec):
    """A request accepted while every worker is busy stays queued; closing the server drops it (stop() semantics)."""
    if pool_spec is None:
        return []
    cap = pool_spec[0]
    return [["serve"] + ["slow"] * cap + ["queued", "close"], ["serve"] + ["slow"] * cap + ["queued", "shutdown", "close"]]


def survival_histories(rng, thorough):
    """serve, a failing / malformed request, healthy calls on the same server, …, shutdown, close."""
    out = []
    for k in SURVIVAL_KINDS:
        out.append(["serve", k, "req", "shutdown", "close"])
    n = 6 if thorough else 2
    for _ in range(n):
        mids = []
        for k in rng.sample(SURVIVAL_KINDS, 5 if not thorough else 9):
            mids += [k] + ["req"] * rng.choice((1, 1, 2))
        out.append(["serve"] + mids + ["shutdown", "close"])
    return out


def contention_histories(kind, thorough):
    """A second server is constructed on the first one's address (`contend`): before it serves, while it serves (nothing in
    flight / a request in flight / after failing requests), twice; the first one then answers requests and is stopped."""
    out = [
        ["serve", "contend", "req", "shutdown", "close"],
        ["serve", "req", "contend", "req", "notif", "shutdown", "close"],
        ["contend", "close"],
        ["contend", "serve", "req", "shutdown", "close"],
        ["serve", "contend", "contend", "req", "shutdown", "close"],
        ["serve", "contend", "fail:sysexit", "req", "shutdown", "close"],
    ]
    if kind == "pooled":
        out += [["serve", "contend", "req", "close"], ["serve", "slow", "contend", "req", "close"]]
    if thorough:
        out += [["serve", "contend", "shutdown", "close"], ["serve", "req", "shutdown", "contend", "close"],
                ["serve", "contend", "bad:badjson", "req", "contend", "req", "shutdown", "close"],
                ["serve", "contend", "notiffail", "req", "shutdown", "close"]]
        if kind == "pooled":
            out += [["serve", "slow", "contend", "slow", "contend", "req", "close"], ["serve", "idle", "contend", "close"],
                    ["serve", "contend", "slow", "shutdown", "close"]]
    return out


def unbound_histories(kind):
    """bind_and_activate=False: the server owns a socket that names no address; closing it must be as clean as ever."""
    return [["unbound", "close"]]


def rmfile_histories(kind, thorough):
    """(Unix) the environment removes the socket file while the server lives; stopping it must be as clean as ever."""
    out = [["serve", "req", "rmfile", "shutdown", "close"], ["rmfile", "close"]]
    if kind == "pooled":
        out.append(["serve", "slow", "rmfile", "close"])
    if thorough:
        out += [["serve", "rmfile", "shutdown", "close"], ["serve", "contend", "req", "rmfile", "shutdown", "close"]]
    return out


ADDRESS_OPS = ("contend", "rmfile", "unbound")

# user-supplied pools whose life is longer than one server life cycle: (max, min) — min = 0 (no resident worker: only the
# pool's own accounting starts one), max = 1, a resident worker, the shape of the default pool
REUSE_POOLS = [(1, 0), (2, 0), (4, 0), (2, 1), (3, 2), (1, 1)]


def reuse_chains(pool_spec, thorough):
    """Life-cycle histories of a USER-SUPPLIED request pool that is REUSED: each element is one server life cycle on a new
    PooledJSONRPCServer given the same pool object; between two of them the user calls pool.start() again.  The first life
    cycles end with server_close() while a request is in flight / while every worker is busy and a request is queued /
    with idle workers only; the following ones must serve as a server with a fresh pool does — a lone request, and
    (max >= 2) a request that arrives while another one is in flight — and are stopped in the same ways."""
    cap = pool_spec[0]
    busy = ["serve"] + ["slow"] * cap
    ends = [["serve", "slow", "close"], busy + ["queued", "close"], ["serve", "req", "shutdown", "close"], busy + ["shutdown", "close"]]
    lone = ["serve", "req", "req", "shutdown", "close"]
    overlap = ["serve", "slow", "req", "close"] if cap >= 2 else ["serve", "slow", "close"]
    chains = [[ends[0], overlap, lone], [ends[1], lone], [ends[3], overlap, ["serve", "req", "close"]]]
    if thorough:
        chains += [[ends[2], overlap, lone], [ends[1], busy + ["queued", "shutdown", "close"], lone, overlap],
                   [ends[0], ends[0], ends[0], lone], [["close"], lone], [ends[0], ["close"], lone]]
    return chains


def recycle_histories(pool_spec):
    """The SAME server goes on serving while the user stops and restarts its pool (`poolcycle`) with requests in flight."""
    cap = pool_spec[0]
    out = [["serve", "slow", "poolcycle", "req", "shutdown", "close"], ["serve", "req", "poolcycle", "req", "close"]]
    if cap >= 2:
        out += [["serve", "slow", "slow", "poolcycle", "slow", "req", "close"]]
    else:
        out += [["serve", "slow", "poolcycle", "slow", "poolcycle", "req", "close"]]
    return out


def run_reuse(ctx, family, tmpdir, pool_spec, chain):
    """One user-supplied pool, started by the user, handed to one new PooledJSONRPCServer per element of `chain`; restarted by
    the user (pool.start()) between two life cycles.  -> [(history, results, projection, [(violation, key)], model ops)]"""
    import jsonrpclib.threadpool as TP
    pool = TP.ThreadPool(pool_spec[0], pool_spec[1])
    pool.start()
    out = []
    try:
        for k, h in enumerate(chain):
            if k:
                if not pool._done_event.is_set():
                    break           # the previous server_close() did not stop the pool: reported there
                pool.start()        # the user starts its pool again
            results, proj, viol, model_ops = run_history(ctx, "pooled", family, tmpdir, pool_spec, h, pool_obj=pool)
            viol = [("life cycle %d of a reused user pool ThreadPool%r: %s" % (k + 1, tuple(pool_spec), m), key) for m, key in viol]
            out.append((h, results, proj, viol, model_ops))
            if any(key.startswith(("stop-hang", "reply", "lost")) for _, key in viol):
                break               # this life cycle did not end as it must: what follows would not be a reuse of a stopped pool
    finally:
        if not pool._done_event.is_set():
            run_with_watchdog(pool.stop, 2)
    return out


def workers_needed(h):
    """Peak number of pool workers the history occupies at once (slow and idle connections hold one each)."""
    need, held = 0, 0
    for op in h:
        if op in ("slow", "idle", "idleka"):
            held += 1
            need = max(need, held)
        elif op in SIMPLE_OPS:
            need = max(need, held + 1)
        elif op == "poolcycle":
            held = 0        # the user's pool.stop() returns once the requests in flight have completed
    return need


def model_op(op, tok):
    if op in ("req", "big", "overlong"):
        return "req%d" % tok
    if op in ("notif", "notiffail"):
        return "notif%d" % tok
    if op.startswith("fail:"):
        return ("fatal%d" if op[5:] in FAIL_FATAL else "fail%d") % tok
    if op.startswith("bad:"):
        return "bad%d" % tok
    return "%s%d" % (op, tok)       # slow idle idleka queued


def run_history(ctx, kind, family, tmpdir, pool_spec, hist, pool_obj=None):
    """Executes one history on the real server.
    -> (op results, final projection, [(violation, key)], model ops)
    `pool_obj`: a started ThreadPool of shape `pool_spec` that the user has used before (see run_reuse).
    Op `poolcycle` (user-supplied pools): the USER stops its own pool while the server serves — pool.stop() waits for the
    requests in flight like server_close() does, its workers must be dead afterwards — and starts it again; the server goes
    on serving with it.  In the model the pool is the abstraction that C09-C11 justify for every reachable pool state,
    restarted ones included (C11_restart, C12_pool_reuse): the op itself is transparent there, the `finish` ops are not."""
    L = Life(kind, family, tmpdir, pool_spec, http11=("idleka" in hist), bind=("unbound" not in hist), pool_obj=pool_obj)
    results, viol, model_ops = [], [], []
    toks = []                   # tokens in acceptance order = connection indices of the model
    specs = {}
    inflight, idle, queued = [], [], []
    stop_state = {"shutdown": "idle", "close": "idle"}

    def new_conn(op):
        tok = len(toks) + 1
        toks.append(tok)
        specs[tok] = build(op if op not in ("idle",) else "req", tok)
        specs[tok]["op"] = op
        if op == "idle":
            specs[tok]["execs"] = 0
        return tok

    def stop(name):
        fn = {"shutdown": L.server.shutdown, "close": L.server.server_close}.get(name) or L.pool.stop
        cycle = name == "poolcycle"
        L.snapshot_pool_threads()
        if kind == "pooled":
            held_f, held_i = (list(inflight), list(idle)) if name in ("close", "poolcycle") else ([], [])
        else:
            held_f, held_i = ([], list(idle)) if name == "shutdown" else ([], [])
        box = []
        th = threading.Thread(target=lambda: box.append(impl.outcome(fn)))
        th.daemon = True
        th.start()
        if not cycle:
            model_ops.append(name)
        what = "the user's pool.stop()" if cycle else "%s()" % ("shutdown" if name == "shutdown" else "server_close")
        own = [] if cycle else results      # the result of the op itself: compared with the model unless transparent there
        if not held_f and not held_i:
            # nothing in flight, no connection held by a handler: it must return (generous deadline, robust under load)
            th.join(deadline())
            if th.is_alive():
                HANG_SEEN[0] = True
                viol.append(("%s did not return within %.0f s (no request in flight, no open connection; history %r)"
                             % (what, DEADLINE, hist), "stop-hang: %s %s" % (kind, name)))
            own.append("blocked" if th.is_alive() else "ok")
        else:
            def returned_early(while_what):
                """The stop operation is back although connections are still in flight: allowed only if its post-conditions
                hold at that point — listening socket closed, every worker of the stopped pool terminated."""
                if name not in ("close", "poolcycle"):
                    return
                if name == "close" and L.server.socket.fileno() != -1:
                    viol.append(("%s returned while %s and the listening socket is still open" % (what, while_what), "post: socket-open"))
                if L.pool is not None:
                    L.snapshot_pool_threads()
                    if not wait_for(lambda: not any(t.is_alive() for t in L.pool_threads), 2.0):
                        viol.append(("%s returned while %s: pool workers %r are still alive (blocked in a handler) after the stop "
                                     "operation returned" % (what, while_what, [t.name for t in L.pool_threads if t.is_alive()]),
                                     "worker-alive-after-stop"))
            # held back by connections in flight: still blocked after MIN_BLOCK (a request being dispatched) / after
            # IDLE_WATCHDOG (only connections whose handler waits for the client) — the modelled behaviour
            th.join(MIN_BLOCK if held_f else IDLE_WATCHDOG)
            first_look = "blocked" if th.is_alive() else "ok"
            own.append(first_look)
            if not th.is_alive():
                returned_early("requests %r are being dispatched" % (held_f,) if held_f
                               else "the connections %r are open, their handlers waiting for the client" % ([toks.index(t) for t in held_i],))
            for t in held_f:
                # the requests being dispatched complete
                L.gates[t].set()
                inflight.remove(t)
                model_ops.append("finish%d" % toks.index(t))
                results.append("ok")
            if held_f and not wait_for(lambda: all(t in L.replies for t in held_f)):
                viol.append(("the in-flight requests %r were not answered after their methods returned" % (held_f,), "inflight-lost"))
            if held_i:
                if held_f:
                    was_blocked = th.is_alive()
                    th.join(IDLE_WATCHDOG)
                    if was_blocked and not th.is_alive():
                        returned_early("the connections %r are open, their handlers waiting for the client" % ([toks.index(t) for t in held_i],))
                # a stop operation that was blocked and came back BEFORE the idle clients went away: not the modelled behaviour
                slipped = first_look == "blocked" and not th.is_alive()
                for n, t in enumerate(held_i):
                    # the idle clients go away: the connections complete, now the stop operation MUST return
                    L.wires[t].close()
                    idle.remove(t)
                    model_ops.append("hangup%d" % toks.index(t))
                    results.append("stop-already-returned" if (slipped and n == 0) else "ok")
            th.join(deadline())
            if th.is_alive():
                HANG_SEEN[0] = True
                viol.append(("%s still has not returned %.0f s after %s (history %r)" % (
                    what, DEADLINE, " and ".join((["the requests being dispatched completed"] if held_f else [])
                                                 + (["every idle client disconnected"] if held_i else [])), hist),
                    "stop-hang-after-release: %s %s" % (kind, name)))
        if box and box[0][0] == "err":
            viol.append(("%s raised %r" % (what, box[0][1]), "stop-raised: %s" % name))
        stop_state[name] = "pending" if th.is_alive() else "returned"
        if cycle and not th.is_alive():
            # post-condition of the stop, then the user starts its pool again
            if not wait_for(lambda: not any(t.is_alive() for t in L.pool_threads)):
                viol.append(("pool workers %r are still alive after the user's pool.stop() returned"
                             % [t.name for t in L.pool_threads if t.is_alive()], "post: workers-alive (pool.stop)"))
            L.pool.start()

    try:
        for op in hist:
            if op == "serve":
                L.serve()
                results.append("ok")
                model_ops.append("serve")
            elif op in SIMPLE_OPS:
                tok = new_conn(op)
                r, problem, _ = exchange(L, specs[tok])
                if r is None:       # tolerated reset (bytes the server never read are pending when it closes the connection)
                    ctx_hist(ctx, "env/reset-with-unread-bytes")
                    if specs[tok]["expect"] == "parse":
                        r = "P"
                    else:
                        r = str(tok + 1000) if wait_for(lambda: L.execlog[tok] == 1) else "-"
                L.replies[tok] = r
                if problem:
                    viol.append((problem + " — history %r" % (hist,), "reply: " + op))
                results.append("ok" if not problem else "bad")
                model_ops.append(model_op(op, tok))
                if problem and "connection ended with timeout" in problem:
                    break       # the server no longer answers: the rest of the history would only wait
            elif op == "slow":
                tok = new_conn(op)
                if not L.slow(tok):
                    viol.append(("slow request %d never reached its method (history %r)" % (tok, hist), "lost: slow"))
                results.append("ok")
                inflight.append(tok)
                model_ops.append(model_op(op, tok))
            elif op == "idle":
                tok = new_conn(op)
                before = L.handlers_started
                L.wires[tok] = Wire(L)
                if not wait_for(lambda: L.handlers_started > before):
                    viol.append(("the handler of connection %d was not started within %.0f s" % (len(toks) - 1, DEADLINE), "lost: idle"))
                results.append("ok")
                idle.append(tok)
                model_ops.append(model_op(op, tok))
            elif op == "idleka":
                tok = new_conn(op)
                r, problem, w = exchange(L, specs[tok], http11=True, keep=True)
                L.replies[tok] = r
                if problem:
                    viol.append((problem, "reply: idleka"))
                if w is not None:
                    L.wires[tok] = w
                    idle.append(tok)
                results.append("ok" if not problem else "bad")
                model_ops.append(model_op(op, tok))
            elif op == "queued":
                tok = new_conn(op)
                L.background(specs[tok])
                if not wait_for(lambda: L.pool._queue.qsize() >= 1):
                    viol.append(("request %d was not handed to the request pool within %.0f s" % (tok, DEADLINE), "lost: queued"))
                results.append("ok")
                queued.append(tok)
                model_ops.append(model_op(op, tok))
            elif op in ("shutdown", "close"):
                stop(op)
            elif op == "poolcycle":
                stop(op)
                if stop_state[op] != "returned":
                    break
            elif op == "unbound":
                pass                # constructor configuration (bind_and_activate=False), see Life above
            elif op == "contend":
                r, vs = L.contend()
                for m, key in vs:
                    viol.append((m + " — history %r" % (hist,), key))
                results.append(r)
                model_ops.append("contend")
            elif op == "rmfile":
                os.unlink(L.addr)
                results.append("ok")
                model_ops.append("rmfile")
            else:
                raise ValueError(op)
        for g in L.gates.values():
            g.set()
        for t in L.client_threads:
            t.join(deadline())
        hung = any(k.startswith("stop-hang") for _, k in viol)
        # every request is answered with the reply to that very request; its callable ran exactly once
        for tok, problem in L.problems:
            if tok in queued:
                continue
            viol.append((problem + " — history %r" % (hist,), "reply: " + specs[tok]["op"]))
        for tok in toks:
            sp = specs[tok]
            n = L.execlog[tok]
            if tok in queued:
                # accepted but never started: dropped by stop() (documented), or served after all — never half of it
                r = L.replies.get(tok, "-")
                if (r, n) not in (("-", 0), (str(tok + 1000), 1)):
                    viol.append(("queued request %d: reply %r, %d executions" % (tok, r, n), "queued-half-served"))
                continue
            if sp["op"] == "idle":
                L.replies[tok] = "-"
            elif tok not in L.replies and not hung:
                viol.append(("request %d (%s) was never answered" % (tok, sp["op"]), "lost: " + sp["op"]))
            if n != sp["execs"] and not hung:
                viol.append(("request %d (%s): its callable was executed %d times, %d expected (lost or duplicated execution)"
                             % (tok, sp["op"], n, sp["execs"]), "executions: " + sp["op"]))
        closed = L.server.socket.fileno() == -1
        if L.pool is not None:
            L.snapshot_pool_threads()
            wait_for(lambda: not any(t.is_alive() for t in L.pool_threads), 0.5 if hung else None)
            alive = [t.name for t in L.pool_threads if t.is_alive()]
            stopped = L.pool._done_event.is_set()
            pool_state = "stopped" if stopped else "running"
            if stop_state["close"] == "returned":
                if not stopped:
                    viol.append(("request pool not stopped after server_close()", "post: pool-running"))
                if alive:
                    viol.append(("pool workers still alive after server_close(): %r" % alive, "post: workers-alive"))
        else:
            pool_state = "none"
        if stop_state["close"] == "returned" and not closed:
            viol.append(("listening socket still open after server_close()", "post: socket-open"))
        proj = "sock=%s pool=%s close=%s shut=%s replies=%s execs=%s" % (
            "closed" if closed else "open", pool_state, stop_state["close"], stop_state["shutdown"],
            ",".join(L.replies.get(t, "-") for t in toks), ",".join(str(L.execlog[t]) for t in toks))
        if any(op in ADDRESS_OPS for op in hist):
            proj += " addr=%s" % ("A" if L.reachable() else "nobody")
    finally:
        L.cleanup()
    return results, proj, viol, model_ops


def ctx_hist(ctx, key):
    h = getattr(ctx, "hist", None)
    if h is not None:
        h[key] += 1


# ---- concurrent clients ----------------------------------------------------------------------------------------------


def concurrent_clients(ctx, kind, family, tmpdir, pool_spec, nclients, ncalls, seeds=None):
    """N concurrent raw clients with unique tokens and ids against one serving server; with at least two workers, client 0
    keeps a slow request in flight while the others complete fast ones (ids must not cross).  -> [(violation, key)]"""
    L = Life(kind, family, tmpdir, pool_spec)
    viol = []
    L.serve()
    lock = threading.Lock()
    env_errors = []
    seeds = seeds or [ctx.rng.random() for _ in range(nclients)]
    sent = {}                # token -> expected executions
    progress = [0]           # fast exchanges completed
    finished = [0]
    cap = 1 if kind == "plain" else (30 if pool_spec is None else pool_spec[0])
    overlap = cap >= 2 and nclients >= 2
    actions = ["req"] * 6 + ["notif", "batch", "batch"] + SURVIVAL_KINDS

    def complain(msg, key):
        with lock:
            viol.append((msg, "concurrent: " + key))

    def one(spec):
        with lock:
            sent[spec["tok"]] = spec["execs"]
        r, problem, _ = exchange(L, spec)
        if r is None or (problem and "connection ended with reset" in problem):
            # the kernel, not the server: accept-queue overflow (listen backlog 5) or unread bytes at close; counted and bounded
            return "env"
        if problem:
            complain(problem, spec["op"])
        return r

    def batch(tok):
        ids = [make_id(tok), make_id(tok + 2)]
        body = json.dumps([{"jsonrpc": "2.0", "id": ids[0], "method": "echo", "params": [tok]},
                           {"jsonrpc": "2.0", "method": "echo", "params": [tok + 1]},
                           {"jsonrpc": "2.0", "id": ids[1], "method": "boom" if tok % 4 == 0 else "echo", "params": [tok + 2]}]).encode()
        with lock:
            sent[tok] = sent[tok + 1] = sent[tok + 2] = 1
        try:
            w = Wire(L)
            w.send(body)
            status, raw = w.read_reply()
            w.close()
        except Disconnect as ex:
            return "env" if ex.args[0] == "reset" else complain("batch %d: no reply (%s)" % (tok, ex.args[0]), "batch")
        try:
            d = json.loads(raw.decode("utf-8"))
            got = [(e.get("id"), e.get("result"), (e.get("error") or {}).get("code")) for e in d]
        except (ValueError, AttributeError, TypeError):
            return complain("batch %d answered %r" % (tok, raw[:200]), "batch")
        want = [(ids[0], tok + 1000, None),
                (ids[1], None, -32603) if tok % 4 == 0 else (ids[1], tok + 1002, None)]
        if got != want:
            complain("batch of client tokens %d.. answered %r, expected (id, result, error code) = %r (cross-talk, lost or "
                     "reordered entry)" % (tok, got, want), "batch")

    def client(ci):
        rng = random.Random(seeds[ci])
        try:
            for j in range(ncalls):
                tok = ci * 100000 + j * 10
                try:
                    if ci == 0 and overlap and j % 4 == 0:
                        # a slow request in flight on this connection while fast ones complete on the others
                        L.gates[tok] = threading.Event()
                        L.entered[tok] = threading.Event()
                        spec = build("slow", tok)
                        with lock:
                            sent[tok] = 1
                        w = Wire(L)
                        w.send(spec["body"])
                        if not L.entered[tok].wait(DEADLINE):
                            complain("slow request %d never reached its method" % tok, "slow")
                        start = progress[0]
                        wait_for(lambda: progress[0] >= start + 3 or finished[0] >= nclients - 1, 5.0)
                        with lock:
                            ctx_hist(ctx, "concurrent/overlap:%d-fast-during-slow" % min(3, progress[0] - start))
                        L.gates[tok].set()
                        status, body = w.read_reply()
                        w.close()
                        _, problem = judge(spec, status, body)
                        if problem:
                            complain(problem, "slow")
                        continue
                    act = rng.choice(actions)
                    r = batch(tok) if act == "batch" else one(build(act, tok))
                    if r == "env":
                        with lock:
                            env_errors.append("reset")
                        time.sleep(0.05)
                    with lock:
                        progress[0] += 1
                except (BlockingIOError, ConnectionResetError, ConnectionRefusedError, BrokenPipeError, Disconnect) as ex:
                    # the kernel's accept queue (listen backlog 5) overflows when many clients connect at once:
                    # EAGAIN on a Unix socket, a reset on TCP.  An environment limit, not a server reply: back off
                    # and go on, but a server that keeps refusing is reported
                    with lock:
                        env_errors.append(type(ex).__name__)
                        sent.pop(tok, None)
                    time.sleep(0.05)
                except Exception as ex:  # noqa: BLE001
                    complain("client %d call %d raised %s: %s" % (ci, j, type(ex).__name__, ex), "client")
        finally:
            with lock:
                finished[0] += 1

    ths = [threading.Thread(target=client, args=(i,)) for i in range(nclients)]
    for t in ths:
        t.daemon = True
        t.start()
        time.sleep(0.003)   # do not hit the 5-entry listen backlog with all clients in the same millisecond
    for t in ths:
        t.join(90)
        if t.is_alive():
            viol.append(("a client did not finish within 90 s (lost reply)", "concurrent: lost"))
    for g in L.gates.values():
        g.set()
    if len(env_errors) > max(3, nclients * ncalls // 20):
        viol.append(("%d connection-level failures out of %d calls: %r" % (len(env_errors), nclients * ncalls, env_errors[:5]), "concurrent: env"))
    if hasattr(ctx, "hist"):
        ctx.hist["env/connect-retry"] += len(env_errors)
    # no lost or duplicated executions (notifications and batch entries included); resets leave the count open
    if not env_errors:
        bad = [(t, L.execlog[t], n) for t, n in sorted(sent.items()) if L.execlog[t] != n]
        if bad:
            viol.append(("callables executed a wrong number of times (token, executions, expected): %r" % (bad[:6],), "concurrent: executions"))
    L.snapshot_pool_threads()
    k, _ = run_with_watchdog(L.server.shutdown)
    if k != "ok":
        viol.append(("shutdown() %s after the clients finished" % k, "concurrent: stop"))
    k, _ = run_with_watchdog(L.server.server_close)
    if k != "ok":
        viol.append(("server_close() %s after the clients finished" % k, "concurrent: stop"))
    L.cleanup()
    return viol, seeds


def pooled_stage(ctx):
    """Second stage: process_request -> request pool on the real ThreadPool under harness/sched.py (budget: ~9 s quick)."""
    pp.explore(ctx, "C12", "pooled-requests", pp.gen_accept_program, pp.small_accept_programs, 900, 9000, 300)
    ctx.rule += ("; stage 2: random sequences of fake requests (handlers that return, raise, block on a gate) handed by a managed "
                 "accept loop to the REAL PooledJSONRPCServer.process_request / ThreadPool (default (30,0) and user pools max 1..3, "
                 "min 0..max) under harness/sched.py with uniform / sticky / PCT schedules (thorough: bounded-preemption DFS), "
                 "then server_close() after the drain or with handlers in flight")
    ctx.assumptions.append("C12 stage 2: harness/sched.py shims stand for CPython's threading/queue; the handler body "
                           "(socketserver's process_request_thread) is a recording stub; time-outs expire only at quiescence")


def unknown_violations(ctx):
    return list(ctx.violations)


def run(ctx):
    run_sockets(ctx)
    if unknown_violations(ctx):
        # a failing input on real sockets is in hand.  In particular a server_close() that hangs (seeded revert-6968d4c) would
        # make every run of the scheduler stage wait for its 30 s real-time watchdog (BaseServer's event is not a shim)
        ctx.hist["pooled-requests/skipped: the socket stage already shows a failing input"] += 1
        return
    pooled_stage(ctx)


def search(ctx):
    """Tie broken and no monitor hit yet: one bounded search (scheduler stage first: cheap; then the socket stage once)."""
    pooled_stage(ctx)
    if not ctx.violations:
        run_sockets(ctx)


def history_class(h):
    if "poolcycle" in h:
        return "pool-recycled-same-server"
    if "contend" in h:
        return "address-contended"
    if "unbound" in h:
        return "address-unbound"
    if "rmfile" in h:
        return "address-file-removed"
    if "queued" in h:
        return "queued-at-close"
    if "idle" in h or "idleka" in h:
        return "idle-connection"
    if any(op in SIMPLE_OPS and op != "req" for op in h):
        return "survival"
    if "slow" in h:
        return "inflight"
    return "served" if "serve" in h else "never-served"


def run_sockets(ctx):
    ctx.rule = ("life-cycle histories over {serve, request, slow request in flight, shutdown, server_close} enumerated "
                "exhaustively up to length 4 (quick) / 5 (thorough) for plain and pooled servers (default pool, user pools of "
                "size 1 and (2,1)), over TCP and Unix sockets; survival histories (a method raising ValueError / TypeError / "
                "RecursionError / SystemExit / KeyboardInterrupt / a BaseException subclass, a body that is cut JSON / invalid "
                "UTF-8 / truncated below its Content-Length / without Content-Length / longer than its Content-Length / 300 kB, a "
                "failing notification, each followed by healthy calls on the same plain and pooled server, pool of 1 included); "
                "histories with an idle connection or a queued request at stop time; histories on the server's ADDRESS (history/*/address-*, "
                "address/<class>/<kind>/<family>): a second server of the same kind constructed on the busy TCP port / Unix path "
                "before, while and after the first one serves, with a request in flight, twice; a server never bound "
                "(bind_and_activate=False); the Unix socket file removed by the environment — the first server must answer what "
                "follows, stop without raising, close its socket and end its workers; every request on a raw connection with a "
                "harness-chosen id, reply id + token and the execution count per token checked; each stop op polled with a "
                "generous deadline; plus N concurrent raw clients (quick 8, thorough up to 48) mixing calls, notifications, "
                "batches, failing and malformed requests, with a slow request in flight while fast ones complete, against pools "
                "of size 1, 2, 30 and the plain server; distinct_nontrivial = distinct (server kind, pool, family, history) with "
                "a stop operation issued while serving or with requests in flight; USER-SUPPLIED pools with a life longer than one "
                "server life cycle (history/pooled/pool-reused/*, reuse/pool(max,min); shapes (1,0) (2,0) (4,0) (2,1), thorough also "
                "(3,2) (1,1)): the pool is handed to a server that is closed with a request in flight / with every worker busy and a "
                "request queued / after shutdown(), started again by the user and handed to a second and a third server, which must "
                "answer a lone request and a request arriving while another is in flight, and stop cleanly; and the SAME server goes "
                "on serving while the user stops and restarts the pool with requests in flight (history/pooled/pool-recycled-same-server)")
    tmpdir = tempfile.mkdtemp(prefix="jrv-c12-")
    old_to = socket.getdefaulttimeout()
    socket.setdefaulttimeout(20)
    old_hook = threading.excepthook
    died = []
    threading.excepthook = lambda a: died.append((a.thread.name if a.thread else "?", a.exc_type.__name__))
    HANG_SEEN[0] = False
    lines, impl_out = [], []
    try:
        maxlen = 5 if ctx.thorough else 4
        combos, extra = [], []
        srng = ctx.derive_rng("survival")
        for kind in ("pooled", "plain"):
            pools = [None, (1, 0), (2, 1)] if kind == "pooled" else [None]
            for pool_spec in pools:
                cap = 1 if kind == "plain" else (30 if pool_spec is None else pool_spec[0])
                for family in ("tcp", "unix"):
                    for h in legal_histories(kind, maxlen):
                        # a handler can only be in flight if a pool worker is free for it (the others stay queued: the
                        # `queued` histories)
                        if workers_needed(h) <= cap:
                            combos.append((kind, pool_spec, family, h))
                    for h in idle_histories(kind, ctx.thorough):
                        # quick: the default pool and the plain server over TCP, the pool of one worker over a Unix socket
                        if workers_needed(h) <= cap and (ctx.thorough or (family == "tcp" and pool_spec is None)
                                                         or (family == "unix" and pool_spec == (1, 0))):
                            extra.append((kind, pool_spec, family, h))
                    if kind == "pooled" and (ctx.thorough or family == "tcp"):
                        for h in queued_histories(pool_spec):
                            extra.append((kind, pool_spec, family, h))
                # survival: every kind on the plain server, the default pool and a pool of one worker
                if pool_spec in (None, (1, 0)):
                    fams = ("tcp", "unix")
                    for n, h in enumerate(survival_histories(srng, ctx.thorough)):
                        for family in (fams if ctx.thorough else (fams[(n + (pool_spec is None)) % 2],)):
                            extra.append((kind, pool_spec, family, h))
                # the address: a second server constructed on it, a server never bound, the socket file removed
                arng = ctx.derive_rng("address/%s/%s" % (kind, pool_spec))
                for family in ("unix", "tcp"):
                    hs = [h for h in contention_histories(kind, ctx.thorough) if workers_needed(h) <= cap]
                    if not ctx.thorough:
                        # quick: every contention history on the default pooled and the plain server over a Unix socket (the
                        # address is a file there); a seeded pair elsewhere
                        if not (family == "unix" and pool_spec is None):
                            hs = arng.sample(hs, 2)
                    for h in hs:
                        extra.append((kind, pool_spec, family, h))
                    if ctx.thorough or pool_spec is None:
                        for h in unbound_histories(kind):
                            extra.append((kind, pool_spec, family, h))
                    if family == "unix" and (ctx.thorough or pool_spec in (None, (2, 1))):
                        for h in rmfile_histories(kind, ctx.thorough):
                            if workers_needed(h) <= cap:
                                extra.append((kind, pool_spec, family, h))
        # user-supplied pools stopped and started again by the user under a serving server
        for n, pool_spec in enumerate(REUSE_POOLS if ctx.thorough else REUSE_POOLS[:4]):
            for family in (("tcp", "unix") if ctx.thorough else (("tcp", "unix")[n % 2],)):
                for h in recycle_histories(pool_spec)[: None if ctx.thorough else 2 + (pool_spec[0] >= 2)]:
                    extra.append(("pooled", pool_spec, family, h))
        if not ctx.thorough:
            # quick: every history on the default pooled server over TCP, a seeded third of the other combinations
            keep = [c for c in combos if (c[0] == "pooled" and c[1] is None and c[2] == "tcp")]
            rest = [c for c in combos if c not in keep]
            ctx.rng.shuffle(rest)
            combos = keep + rest[: len(rest) // 3]
        else:
            ctx.exhaustive = not ctx.searching
        combos += extra
        for kind, pool_spec, family, h in combos:
            case = {"server": kind, "pool": pool_spec, "family": family, "history": h}
            results, proj, viol, model_ops = run_history(ctx, kind, family, tmpdir, pool_spec, h)
            for m, key in viol:
                ctx.violate(case, m, key=key)
            if len(unknown_violations(ctx)) >= 6:
                break       # failing inputs are in hand: no point in spending the rest of the budget
            if any(op in ADDRESS_OPS for op in h):
                lines.append("worldseq %s %s %s" % (kind, "unbound" if "unbound" in h else "bound", " ".join(model_ops)))
                ctx.hist["address/%s/%s/%s" % (history_class(h)[8:], kind, family)] += 1
            else:
                lines.append("lifeseq %s %s" % (kind, " ".join(model_ops)))
            impl_out.append(" ".join(results) + " ; " + proj)
            nontrivial = ("serve" in h) and ("close" in h)
            ctx.count(case_repr=dict(case, results=results, final=proj),
                      nontrivial_key=(kind, pool_spec, family, tuple(h)) if nontrivial else None,
                      kind="history/%s/%s" % (kind, history_class(h)))
            for op in h:
                if op in SIMPLE_OPS and op != "req":
                    ctx.hist["request/" + op] += 1
        # user-supplied pools reused across server life cycles
        for n, pool_spec in enumerate(REUSE_POOLS if ctx.thorough else REUSE_POOLS[:4]):
            chains = reuse_chains(pool_spec, ctx.thorough)
            for m, chain in enumerate(chains):
                if len(unknown_violations(ctx)) >= 6:
                    break
                family = ("tcp", "unix")[(n + m) % 2]
                case = {"server": "pooled", "pool": pool_spec, "family": family, "reuse": chain}
                for k, (h, results, proj, viol, model_ops) in enumerate(run_reuse(ctx, family, tmpdir, pool_spec, chain)):
                    for msg, key in viol:
                        ctx.violate(case, msg, key=key)
                    lines.append("lifeseq pooled %s" % " ".join(model_ops))
                    impl_out.append(" ".join(results) + " ; " + proj)
                    ctx.count(case_repr=dict(case, life_cycle=k + 1, results=results, final=proj),
                              nontrivial_key=("reuse", pool_spec, family, k, tuple(map(tuple, chain[: k + 1]))),
                              kind="history/pooled/pool-reused/life-cycle-%d%s" % (k + 1, "" if k == 0 else "/after-" + history_class(chain[k - 1])))
                    ctx.hist["reuse/pool(max=%d,min=%d)" % tuple(pool_spec)] += 1
        # concurrent clients
        # a connection occupies a pool worker while it is handled and the listen backlog is 5: beyond workers + backlog the
        # kernel (not the server) turns connections away, so the number of simultaneous clients stays below that
        sizes = [(None, 8), ((1, 0), 5), ((2, 1), 6)] if not ctx.thorough else [(None, 32), ((1, 0), 5), ((2, 1), 6), ((30, 0), 24), ((8, 2), 12)]
        ncalls = 12 if not ctx.thorough else 25
        runs = [("pooled", pool_spec, family, n, ncalls) for pool_spec, n in sizes
                for family in (("tcp",) if not ctx.thorough else ("tcp", "unix"))] + [("plain", None, "tcp", 4, 10)]
        for kind, pool_spec, family, n, nc in runs:
            viol, seeds = concurrent_clients(ctx, kind, family, tmpdir, pool_spec, n, nc)
            case = {"concurrent": True, "server": kind, "pool": pool_spec, "family": family, "clients": n, "calls": nc, "seeds": seeds}
            for m, key in viol:
                ctx.violate(case, m, key=key)
            ctx.count(case_repr={"concurrent_clients": n, "server": kind, "pool": pool_spec, "family": family},
                      nontrivial_key=("conc", kind, pool_spec, family, n), kind="concurrent/" + kind, n=n * nc)
        for name, exc in died:
            ctx.hist["thread-died/%s" % exc] += 1
    finally:
        threading.excepthook = old_hook
        socket.setdefaulttimeout(old_to)
        shutil.rmtree(tmpdir, ignore_errors=True)
    outs = ctx.lean(lines)
    for ln, mo, io_ in zip(lines, outs, impl_out):
        if mo != io_:
            ctx.disagree(ln, io_, mo, component=ln.split(" ", 1)[0])
    ctx.traces_validated += len(lines)
    ctx.assumptions.append("socketserver.BaseServer (serve_forever/shutdown protocol), the kernel's listening sockets and the request "
                           "pool's stop() are an environment model in JRV.Model.ServerLife; the race between server_close() and a "
                           "serving thread that is just starting is explored in the model only (real runs serialise the operations)")
    ctx.assumptions.append("C12 'in-flight request' = a request whose handler has STARTED (it holds a pool worker / the serving "
                           "thread).  A connection accepted while every worker is busy waits in the pool queue; server_close() drops "
                           "it unserved (ThreadPool.stop() discards queued tasks — its documented semantics): its client sees the "
                           "connection end without a reply and its callable never runs.  Modelled explicitly (`stopPool` lets "
                           "queued connections be; histories `queued`); not counted as a lost request.")
    ctx.assumptions.append("C12 reading of 'in-flight request': an accepted connection whose handler has begun counts as in flight "
                           "until its request has been answered or the client has disconnected; stop operations wait for it (stdlib "
                           "socketserver semantics: the handler holds its pool worker / the plain server's serving thread until the "
                           "exchange is over).  A client that connects and stays silent, or keeps a persistent connection after its "
                           "reply, therefore holds server_close() (pooled) / shutdown() (plain) until it sends or disconnects: modelled "
                           "(phase `awaiting`), proved (C12_full_statement, C12_idle_*) and observed (histories `idle` / `idleka`: still "
                           "blocked after 1.0 s, returns after the client closes)")

def replay(payload):
    case = payload.get("case", {})
    if case.get("stage") in pp.RUNNERS:
        return pp.replay(payload, "C12")
    print(json.dumps(case, indent=1, default=repr))
    tmpdir = tempfile.mkdtemp(prefix="jrv-c12-")
    socket.setdefaulttimeout(20)
    old_hook = threading.excepthook
    threading.excepthook = lambda a: sys.stdout.write("thread %s died: %s\n" % (a.thread.name if a.thread else "?", a.exc_type.__name__))

    class C(object):
        hist = collections.Counter()
        rng = random.Random(0)
    try:
        pool = tuple(case["pool"]) if case.get("pool") else None
        if case.get("concurrent"):
            viol, _ = concurrent_clients(C(), case["server"], case["family"], tmpdir, pool, case["clients"], case["calls"], seeds=case["seeds"])
        elif "reuse" in case:
            viol = []
            for h, results, proj, vs, _ in run_reuse(C(), case["family"], tmpdir, pool, case["reuse"]):
                print(h, results, proj)
                viol += vs
        elif "history" in case:
            results, proj, viol, _ = run_history(C(), case["server"], case["family"], tmpdir, pool, case["history"])
            print(results, proj)
        else:
            return 2
    finally:
        threading.excepthook = old_hook
        shutil.rmtree(tmpdir, ignore_errors=True)
    for v, key in viol:
        print("VIOLATION reproduced [%s]:" % key, v)
    return 1 if viol else 0
