"""
C13 — Replies depend only on the request: stateless per-request version adaptation.

Model   : lean/JRV/Model/ConfigHeap.lean (configurations as aliasable heap objects)
          lean/JRV/Model/ConfigHeapConc.lean (dispatcher threads with the statements of the version adaptation as
          atomic steps, interleaved arbitrarily on one shared heap; C13_concurrent*)
Theorems: lean/JRV/Properties/C13.lean (+ C13Gen.lean: companions of the extracted facts)
Tie     : extracted write footprint of the serve path (roots _marshaled_dispatch, do_POST, handle_jsonrpc; parameters fed
          from shared state at some call site are shared), Config.copy structure and the configuration every
          Fault/dump call is handed (tools/extractors/footprint.py)
          + correspondence: (a) reply forms of random request histories on one real dispatcher vs the model,
          (b) sequences of Config.copy() / mutations on real Config objects vs the heap model.
Monitor : every reply of a history equals the reply of a *fresh* dispatcher to the same body (history freedom),
          has the form the property prescribes, both Config objects are unchanged field by field after every
          request; the same bodies served from several threads at once give the same replies; one preemption at every
          line the package executes while serving; the HTTP entry point (do_POST); copy independence.
          Dispatchers are built from the registries of harness/servercases.py: plain functions, an instance with its own
          `_dispatch`, a custom dispatch method (what do_POST passes for a handler with `_dispatch`), methods returning
          values that cannot be serialised — so that every Fault/dump site of `_marshaled_single_dispatch` is executed
          with 1.0 requests on a 2.0 server.
"""
import json
import os
import re
import sys
import threading

import impl
import pyval
import servercases as SC

REQUIRED_THEOREMS = [
    "C13_frame_entry", "C13_frame", "C13_history_free", "C13_form", "C13_form_reply", "C13_form_wire",
    "C13_form_wire_needs_request_config", "C13_copy_independent",
    "C13_concurrent", "C13_concurrent_schedule", "C13_concurrent_progress", "C13_concurrent_needs_copy",
    "C13_gen_sharedWrites", "C13_gen_versionStoreOnCopy", "C13_gen_copyDuplicates", "C13_gen_replyConfigSites",
    "C13_gen_configSinks",
]

FIELDS = ("version", "content_type", "user_agent", "use_jsonclass", "serialize_method", "ignore_attribute")

REGS = ["plain", "custom", "instdisp", "both", "customecho", "funcs"]


def snapshot(cfg):
    return (tuple(getattr(cfg, f) for f in FIELDS),
            tuple(sorted((k, getattr(v, "__name__", repr(v))) for k, v in cfg.classes.items())),
            tuple(sorted((getattr(k, "__name__", repr(k)), getattr(v, "__name__", repr(v))) for k, v in cfg.serialize_handlers.items())),
            None)


class Disp(object):
    """A real dispatcher (built from a servercases registry + a few functions of this module) and how to call it."""

    def __init__(self, version, reg="plain"):
        desc = SC.REGISTRIES[reg] if reg != "plain" else {"funcs": [], "inst": None, "custom": None}
        self.real = SC.Real(desc, version, True, "absent")       # use_jsonclass on, Bean in config.classes
        self.disp = d = self.real.disp
        self.cfg = self.real.cfg
        self.custom = self.real.custom
        self.version = version
        self.reg = reg
        d.register_function(lambda *a, **k: [list(a), k], "echo")
        d.register_function(lambda a, b=2: a + b, "add")

        def boom(*a):
            raise ValueError("boom")
        d.register_function(boom, "boom")

        def deny(*a):
            # a method that answers with a Fault object it built itself (carrying the default configuration)
            return impl.jsonrpclib.Fault(-32001, "denied")
        d.register_function(deny, "deny")
        # a result jsonrpclib.dump accepts but the JSON library rejects (tuple key): the _safe_jdumps site
        d.register_function(lambda *a: {(1, 2): 3}, "tuplekey")
        # a result jsonclass.dump rejects (its _serialize raises): the `except` arm after jsonrpclib.dump
        d.register_function(lambda *a: SC.RaisingSerialize(), "unser")

    def serve(self, text):
        return self.disp._marshaled_dispatch(text, self.custom)

    def post(self, text, content_type=None):
        """do_POST through a fake connection: (status, body text, reply headers)."""
        import io
        import email.message
        S = SC.S
        data = text.encode("utf-8")
        h = S.SimpleJSONRPCRequestHandler.__new__(S.SimpleJSONRPCRequestHandler)
        srv = self.disp
        srv.logRequests = False
        h.server = srv
        h.path = "/"
        msg = email.message.Message()
        msg["Content-Length"] = str(len(data))
        if content_type is not None:
            msg["Content-Type"] = content_type
        h.headers = msg
        h.rfile = io.BytesIO(data)
        h.wfile = io.BytesIO()
        h.request_version = "HTTP/1.1"
        h.requestline = "POST / HTTP/1.1"
        h.client_address = ("x", 0)
        h.close_connection = True
        status, headers = [], []
        h.send_response = lambda code, message=None: status.append(code)
        h.send_header = lambda k, v: headers.append((k, v))
        h.end_headers = lambda: None
        h.is_rpc_path_valid = lambda: True
        h.decode_request_content = lambda d: d
        if self.custom is not None:
            h._dispatch = self.custom
        h.do_POST()
        return status, h.wfile.getvalue().decode("utf-8"), sorted((k.lower(), v) for k, v in headers if k.lower() != "content-length")


def make_dispatcher(version, reg="plain"):
    d = Disp(version, reg)
    return d, d.cfg


OWN_METHODS = ["echo", "add", "boom", "nope", "deny", "tuplekey", "unser"]
GOOD_BEANS = [{"__jsonclass__": ["collections.OrderedDict", []]}, {"__jsonclass__": ["Bean", [3]]},
              {"__jsonclass__": ["Bean", {"x": 1}], "y": 2}, {"__jsonclass__": ["collections.Counter", []]},
              {"__jsonclass__": ["fractions.Fraction", [1, 3]]}]
BAD_BEANS = [{"__jsonclass__": ["Nope", []]}, {"__jsonclass__": ["collections.NoSuch", []]}, {"__jsonclass__": ["", []]},
             {"__jsonclass__": ["os.pa th", []]}, {"__jsonclass__": ["Bean", 5]}, {"__jsonclass__": ["nosuchmodule.K", []]}]
MALFORMED = ["{", "[1,", "", "nul", "[]", "{}", "   ", "\"str\"", "5", "null", "[[]]", "{\"id\":1,", "[{}]x", "﻿{}", "0", "false"]


def gen_entry(rng, reg="plain", bean=None):
    """One entry of a request body (a dictionary mostly, sometimes another JSON value)."""
    r = rng.random()
    methods = OWN_METHODS if reg == "plain" or rng.random() < 0.4 else SC.METHODS[reg]
    method = rng.choice(methods)
    params = rng.choice([[1], [1, 2], {"a": 1}, [], None])
    if bean is not None:
        params = rng.choice([[bean], {"a": bean}, [1, [bean]]])
    if r < 0.3:
        e = {"jsonrpc": "2.0", "id": rng.choice([1, "x", 0, 2.5]), "method": method}
    elif r < 0.55:
        e = {"id": rng.choice([1, "x", 0]), "method": method}
    elif r < 0.65:
        e = {"jsonrpc": "2.0", "method": method}          # 2.0 notification
    elif r < 0.72:
        e = {"id": None, "method": method}                # 1.0 notification
    elif r < 0.80:
        e = {"jsonrpc": "2.0", "id": 3, "method": ""}     # invalid: empty method
    elif r < 0.86:
        e = {"id": 4, "method": 5}                        # invalid, 1.0 style
    elif r < 0.92:
        e = {"method": "echo"}                            # no version marker
    else:
        return rng.choice([5, "str", [], None, True])
    if params is not None and "method" in e and (bean is not None or rng.random() < 0.8):
        e["params"] = params
    if rng.random() < 0.05:
        e["params"] = 7                                   # invalid params type
    return e


def gen_body(rng, reg):
    """(kind, text, body or None): kind 'entries' (every entry is looked at on its own), 'badbean' / 'malformed'
    (the body as a whole is rejected by the parser/translator: answered once, from the server's configuration)."""
    r = rng.random()
    if r < 0.07:
        return "malformed", rng.choice(MALFORMED), None
    if r < 0.14:
        bean = rng.choice(BAD_BEANS)
        body = gen_entry(rng, reg, bean) if rng.random() < 0.6 else [gen_entry(rng, reg), gen_entry(rng, reg, bean)]
        if "__jsonclass__" in json.dumps(body):
            return "badbean", json.dumps(body), body
    bean = rng.choice(GOOD_BEANS) if r < 0.32 else None
    if rng.random() < 0.3:
        body = [gen_entry(rng, reg, bean if i == 0 else None) for i in range(rng.randint(1, 4))]
    else:
        body = gen_entry(rng, reg, bean)
    return "entries", json.dumps(body), body


def classify(entry):
    """How the property classifies an entry: 'v1'/'v0' validated with/without jsonrpc, 'i' invalid, None = falsy/odd."""
    if not isinstance(entry, dict):
        return "i"
    if "jsonrpc" not in entry and "id" not in entry:
        return "i"
    m = entry.get("method")
    p = entry.get("params", [])
    if not m or not isinstance(m, str) or not isinstance(p, (list, dict, tuple)):
        return "i"
    return "v1" if "jsonrpc" in entry else "v0"


def is_notification(entry):
    return isinstance(entry, dict) and ("id" not in entry or entry["id"] in (None, ""))


def reply_form(obj):
    if not isinstance(obj, dict):
        return "?"
    return 20 if "jsonrpc" in obj else 10


_ADDR = re.compile(r" at 0x[0-9a-fA-F]+")


def loads_or_raw(text):
    """Parsed reply (object addresses inside messages masked: `<Bean object at 0x…>` differs between any two runs)."""
    if isinstance(text, str):
        text = _ADDR.sub(" at 0x?", text)
    try:
        return json.loads(text or "null")
    except ValueError:
        return ("<not JSON>", text)


class Stats(object):
    def __init__(self):
        self.invalid_no_jsonrpc_in_server_form = 0
        self.body_level = 0
        self.beans = 0
        self.fault_sites = {}
        self.sweep_skipped = 0
        self.sweep_points = 0
        self.sweep_functions = set()


def note_site(stats, reg, entry, rep):
    """Which reply-building site of the dispatcher answered (by code + message shape), for the evidence."""
    err = rep.get("error") if isinstance(rep, dict) else None
    if not isinstance(err, dict):
        key = "dump(result)"
    else:
        msg = str(err.get("message"))
        code = err.get("code")
        if code == -32603 and msg.startswith("Server error:"):
            key = "_method_exception_fault"
        elif code == -32603 and ("not JSON serializable" in msg or "keys must be" in msg):
            key = "_safe_jdumps"
        elif code == -32603 and (reg in ("custom", "customecho") or msg.split(":")[0] in ("MyError", "ValueError", "KeyError", "TypeError", "AttributeError", "MyAttrError")) and not msg.startswith("Server error"):
            key = "single_dispatch:except(dispatch raised or dump failed)"
        else:
            key = "Fault %s" % code
    k = "%s/%s" % (key, "1.0-entry" if isinstance(entry, dict) and "jsonrpc" not in entry else "2.0-entry")
    stats.fault_sites[k] = stats.fault_sites.get(k, 0) + 1


def judge_forms(ctx, stats, version, reg, body, out):
    """The form statement, entry by entry.  Returns (model tokens, forms) for the correspondence, or None."""
    entries = body if isinstance(body, list) and body else [body]
    parsed = loads_or_raw(out) if out else None
    replies = parsed if isinstance(parsed, list) else ([parsed] if parsed is not None else [])
    answered = [e for e in entries if not (classify(e) in ("v0", "v1") and is_notification(e))]
    single = not (isinstance(body, list) and body)
    if single and not (isinstance(body, dict) and body and replies):
        return None
    if not single and len(replies) != len(answered):
        if isinstance(parsed, dict):
            # the whole batch answered with one object: only legitimate for a body-level failure, which 'entries' bodies are not
            ctx.violate({"version": version, "registry": reg, "body": json.dumps(body), "reply": out},
                        "a batch of %d entries to answer got the single reply %s" % (len(answered), out), key="form")
        return None
    toks, fs = [], []
    for e, rep in zip(answered if not single else [body], replies):
        k = classify(e)
        toks.append(k)
        fs.append(reply_form(rep))
        want_form = 10 if k == "v0" else (20 if version >= 2 else 10)
        if k == "i" and isinstance(e, dict) and "jsonrpc" not in e and version >= 2 and reply_form(rep) == 20:
            stats.invalid_no_jsonrpc_in_server_form += 1
        note_site(stats, reg, e, rep)
        if reply_form(rep) != want_form:
            ctx.violate({"version": version, "registry": reg, "entry": e, "reply": rep, "body": json.dumps(body)},
                        "entry answered in %s-form, expected %s-form" % (reply_form(rep), want_form), key="form")
    return "[ " + " ".join(toks) + " ]", " ".join(str(f) for f in fs)


def run(ctx):
    ctx.rule = ("random histories (length <= 40; thorough: more and longer) of request bodies mixing 1.0/2.0 calls, "
                "notifications, batches, invalid and failing requests, __jsonclass__-bearing parameters (Config.classes non-empty), "
                "untranslatable beans and malformed texts on ONE dispatcher per (server version in {1.0, 2.0}) x (registry: plain "
                "functions / custom dispatch method / instance _dispatch / instance attributes / unserialisable results); "
                "after every request: reply == reply of a fresh dispatcher, reply form, field-by-field snapshot of the server "
                "Config and of config.DEFAULT; the same bodies again from 2-8 concurrent threads and through do_POST; one preemption "
                "at every package line executed while serving; random programs of Config.copy()/mutations; "
                "distinct_nontrivial = distinct histories containing both request forms")
    default_cfg = impl.jsonrpclib.config.DEFAULT
    default_before = snapshot(default_cfg)
    stats = Stats()
    lines, impl_out = [], []
    n_hist = ctx.budget(36, 400)
    for hi in range(n_hist):
        version = [2.0, 1.0][(hi // len(REGS)) % 2] if hi < 2 * len(REGS) else ctx.rng.choice([1.0, 2.0])
        reg = REGS[hi % len(REGS)]
        disp, cfg = make_dispatcher(version, reg)
        before = snapshot(cfg)
        texts, tokens, forms = [], [], []
        for _ in range(ctx.rng.randint(1, 40 if not ctx.thorough else 80)):
            kind, text, body = gen_body(ctx.rng, reg)
            out = disp.serve(text)
            fresh, _ = make_dispatcher(version, reg)
            want = fresh.serve(text)
            case = {"version": version, "registry": reg, "history": list(texts), "body": text}
            if loads_or_raw(out) != loads_or_raw(want):
                ctx.violate(case, "reply %s differs from the reply of a fresh server %s" % (out, want), key="history-dependence")
            for c, name, b4 in ((cfg, "server Config", before), (default_cfg, "config.DEFAULT", default_before)):
                if snapshot(c) != b4:
                    ctx.violate(case, "%s changed while serving: %r -> %r" % (name, b4, snapshot(c)), key="config-changed")
            if "__jsonclass__" in text:
                stats.beans += 1
            if kind == "entries":
                tf = judge_forms(ctx, stats, version, reg, body, out)
                if tf is not None:
                    tokens.append(tf[0])
                    forms.append(tf[1])
            else:
                # rejected as a whole by the parser / the bean translator: one reply, from the server's configuration
                stats.body_level += 1
                rep = loads_or_raw(out)
                if isinstance(rep, dict):
                    tokens.append("[ i ]")
                    forms.append(str(reply_form(rep)))
            texts.append(text)
        lines.append("c13hist %d %s" % (round(version * 10), " ".join(tokens)))
        impl_out.append(" | ".join(forms) + " ; srv=%d" % round(cfg.version * 10))
        both = any("v0" in t for t in tokens) and any("v1" in t for t in tokens)
        ctx.count(case_repr={"version": version, "registry": reg, "bodies": texts[:6], "forms": forms[:6]},
                  nontrivial_key=("h", hi) if both else None,
                  kind="history/v%s/%s/len%d" % (version, reg, len(texts) // 10 * 10), n=len(texts))
        # the same bodies concurrently on one dispatcher
        if hi % 3 == 0:
            disp2, cfg2 = make_dispatcher(version, reg)
            results = {}
            nthreads = ctx.rng.randint(2, 8)

            def worker(idx, disp2=disp2, texts=texts, results=results, nthreads=nthreads):
                for i in range(idx, len(texts), nthreads):
                    results[i] = disp2.serve(texts[i])
            ths = [threading.Thread(target=worker, args=(i,)) for i in range(nthreads)]
            for t in ths:
                t.start()
            for t in ths:
                t.join(30)
            for i, text in enumerate(texts):
                fresh, _ = make_dispatcher(version, reg)
                want = fresh.serve(text)
                if loads_or_raw(results.get(i)) != loads_or_raw(want):
                    ctx.violate({"version": version, "registry": reg, "body": text, "threads": nthreads},
                                "concurrent reply %s differs from the sequential reply %s" % (results.get(i), want),
                                key="concurrent")
            if snapshot(cfg2) != before:
                ctx.violate({"version": version, "registry": reg}, "server Config changed under concurrent serving", key="config-changed")
            ctx.count(kind="concurrent/%d" % nthreads)
        # the same bodies over the HTTP entry point, with the content types a client may send
        if hi % 2 == 0:
            disp3, cfg3 = make_dispatcher(version, reg)
            for i, text in enumerate(texts[:12]):
                ct = ["application/json", None, "text/plain", "application/json-rpc", "application/jsonrequest; charset=utf-8"][(hi + i) % 5]
                got = disp3.post(text, ct)
                fresh, _ = make_dispatcher(version, reg)
                want = fresh.post(text, ct)
                case = {"version": version, "registry": reg, "via": "do_POST", "history": texts[:i], "body": text,
                        "content_types": [["application/json", None, "text/plain", "application/json-rpc",
                                           "application/jsonrequest; charset=utf-8"][(hi + k) % 5] for k in range(i + 1)]}
                if (got[0], loads_or_raw(got[1]), got[2]) != (want[0], loads_or_raw(want[1]), want[2]):
                    ctx.violate(case, "do_POST answered %r after this history, a fresh server answers %r" % (got, want),
                                key="history-dependence")
                if snapshot(cfg3) != before or snapshot(default_cfg) != default_before:
                    ctx.violate(case, "a Config object changed while serving over do_POST: %r -> %r" % (before, snapshot(cfg3)),
                                key="config-changed")
                ctx.count(kind="do_POST/v%s" % version)

    # ---- every server class / entry point that takes a configuration, built with each version (harness/c13entries.py)
    import c13entries
    c13entries.stage(ctx, sys.modules[__name__], stats, lines, impl_out)

    # ---- one preemption at every package line executed while serving (line-granular interleavings)
    for version in (2.0, 1.0):
        preemption_sweep(ctx, stats, version, default_cfg, default_before)

    # ---- Config.copy programs
    class K1(object):
        pass

    class K2(object):
        pass

    def h1(*a):
        return 1

    def h2(*a):
        return 2
    classes = {"K1": K1, "K2": K2}
    hfuncs = {"h1": h1, "h2": h2}
    htypes = {"tuple": tuple, "str": str, "K1": K1}
    for pi in range(ctx.budget(150, 3000)):
        objs = [impl.jsonrpclib.config.Config(version=2.0, content_type="application/json-rpc", user_agent="ua")]
        ops = []
        for _ in range(ctx.rng.randint(1, 8)):
            a = ctx.rng.randrange(len(objs))
            if ctx.rng.random() < 0.35:
                before_all = [snapshot(o) for o in objs]
                c = objs[a].copy()
                if snapshot(c)[:3] != snapshot(objs[a])[:3]:
                    ctx.violate({"ops": ops}, "copy() observes %r, original %r" % (snapshot(c), snapshot(objs[a])), key="copy-differs")
                objs.append(c)
                ops.append("c%d" % a)
                continue
            kind = ctx.rng.choice(["version", "ct", "ua", "jc", "sm", "ia", "cls", "hnd"])
            others_before = [snapshot(o) for i, o in enumerate(objs) if i != a]
            if kind == "version":
                v = ctx.rng.choice([10, 20])
                objs[a].version = v / 10.0
                ops.append("m%d:version:%d" % (a, v))
            elif kind == "ct":
                objs[a].content_type = "ct%d" % pi
                ops.append("m%d:ct:ct%d" % (a, pi))
            elif kind == "ua":
                objs[a].user_agent = "agent%d" % pi
                ops.append("m%d:ua:agent%d" % (a, pi))
            elif kind == "jc":
                b = ctx.rng.choice([True, False])
                objs[a].use_jsonclass = b
                ops.append("m%d:jc:%s" % (a, "true" if b else "false"))
            elif kind == "sm":
                objs[a].serialize_method = "_ser%d" % pi
                ops.append("m%d:sm:_ser%d" % (a, pi))
            elif kind == "ia":
                objs[a].ignore_attribute = "_ign%d" % pi
                ops.append("m%d:ia:_ign%d" % (a, pi))
            elif kind == "cls":
                k = ctx.rng.choice(list(classes))
                name = ctx.rng.choice(["A", "B"])
                objs[a].classes[name] = classes[k]
                ops.append("m%d:cls:%s:%s" % (a, name, k))
            else:
                t = ctx.rng.choice(list(htypes))
                f = ctx.rng.choice(list(hfuncs))
                objs[a].serialize_handlers[htypes[t]] = hfuncs[f]
                ops.append("m%d:hnd:%s:%s" % (a, t, f))
            others_after = [snapshot(o) for i, o in enumerate(objs) if i != a]
            if others_before != others_after:
                ctx.violate({"ops": ops}, "mutating configuration #%d changed another configuration: %r -> %r"
                            % (a, others_before, others_after), key="copy-aliasing")
        lines.append("c13copy " + " ".join(ops))

        def show(i, o):
            s = snapshot(o)
            sc = s[0]
            return "%d=%s" % (i, ",".join([str(round(sc[0] * 10)), sc[1], sc[2], "true" if sc[3] else "false", sc[4], sc[5],
                                            "{" + ";".join("%s:%s" % kv for kv in ordered(o.classes, lambda v: v.__name__, str)) + "}",
                                            "{" + ";".join("%s:%s" % kv for kv in ordered(o.serialize_handlers, lambda v: v.__name__, lambda k: k.__name__)) + "}"]))

        impl_out.append(" ".join(show(i, o) for i, o in enumerate(objs)))
        ctx.count(case_repr={"config_ops": ops}, nontrivial_key=("p", tuple(ops)) if any(o.startswith("c") for o in ops) else None,
                  kind="copy-program")

    outs = ctx.lean(lines)
    for ln, mo, io_ in zip(lines, outs, impl_out):
        if " ".join(mo.split()) != " ".join(io_.split()):
            ctx.disagree(ln[:500], io_[:500], mo[:500], component=ln.split(" ")[0])
    ctx.traces_validated += len(lines)
    fp = (ctx.facts.get("servePathSharedWrites") or {}) if isinstance(ctx.facts.get("servePathSharedWrites"), dict) else {}
    scanned = set(f.split(".", 1)[1] for f in fp.get("scanned_functions", []) if not f.endswith("__init__"))
    ctx.extra["invalid_entries_without_jsonrpc_answered_in_server_form"] = stats.invalid_no_jsonrpc_in_server_form
    ctx.extra["bodies_rejected_as_a_whole"] = stats.body_level
    ctx.extra["bodies_with_jsonclass"] = stats.beans
    ctx.extra["reply_sites_exercised"] = dict(sorted(stats.fault_sites.items()))
    ctx.extra["sweep_pause_points"] = stats.sweep_points
    ctx.extra["sweep_cases_skipped"] = stats.sweep_skipped
    ctx.extra["sweep_functions_paused_in"] = sorted(stats.sweep_functions)
    ctx.extra["footprint_functions_never_paused_in"] = sorted(scanned - stats.sweep_functions)
    ctx.assumptions.append("the footprint classifies a name bound to a call result as request-local (callee stores are scanned on their own); "
                           "getattr results, names also bound to shared expressions, and parameters that some call site on the serve path "
                           "feeds from self.<attr>/module globals/non-literal defaults are shared")
    ctx.assumptions.append("reading of C13 (DESIGN.md section 5): an entry that fails validation — e.g. {\"id\":4,\"method\":5} without \"jsonrpc\" — and "
                           "a body rejected as a whole (parse error, untranslatable bean, empty body) are answered in the SERVER's form, also on a "
                           "2.0 server; 'answered in 1.0 form' is demanded of validated entries only.  This run met %d invalid entries without "
                           "\"jsonrpc\" answered in 2.0 form and %d bodies rejected as a whole (counted in coverage)"
                           % (stats.invalid_no_jsonrpc_in_server_form, stats.body_level))


SWEEP_BODIES = [
    {"id": 1, "method": "add", "params": [1, 2]},                      # 1.0 call
    {"jsonrpc": "2.0", "id": 2, "method": "add", "params": [1, 2]},    # 2.0 call
    {"id": 3, "method": "boom", "params": []},                         # failing 1.0 call
    {"jsonrpc": "2.0", "id": 4, "method": "deny", "params": []},       # 2.0 call answered with the method's own Fault
    {"id": 5, "method": "echo", "params": [{"__jsonclass__": ["collections.OrderedDict", []]}]},   # 1.0 call carrying a bean
    [{"id": 6, "method": "unser"}, {"jsonrpc": "2.0", "id": 7, "method": "tuplekey"}],             # unserialisable results
]


def _package_dir():
    return os.path.dirname(os.path.abspath(impl.jsonrpclib.__file__)) + os.sep


def coverage_points(version, text, reg="plain"):
    """The (code object, line) pairs of package code executed while a fresh dispatcher serves `text`, in first-hit order."""
    pkg = _package_dir()
    disp, _ = make_dispatcher(version, reg)
    seen, order = set(), []

    def tracer(frame, event, arg):
        if not frame.f_code.co_filename.startswith(pkg):
            return None

        def local(frame, event, arg):
            if event == "line":
                k = (frame.f_code, frame.f_lineno)
                if k not in seen:
                    seen.add(k)
                    order.append(k)
            return local
        return local

    def go():
        sys.settrace(tracer)
        try:
            disp.serve(text)
        finally:
            sys.settrace(None)
    th = threading.Thread(target=go)
    th.start()
    th.join(60)
    return order


def preemption_sweep(ctx, stats, version, default_cfg, default_before):
    """
    Thread A serves body a and is paused when it first reaches a source line L — every line of the jsonrpclib package
    that serving a executes, in every function (loads, validation, version adaptation and helpers it calls, dispatch,
    Fault/Payload construction, dump), found by a coverage run; thread B then serves body b to completion on the same
    dispatcher; A resumes.  Both replies must equal the replies of a fresh server, and both Config objects must be
    unchanged.  A case whose pause point is not reached (possible only under extreme load) is counted, not hidden.
    """
    pairs = [(a, b) for a in range(len(SWEEP_BODIES)) for b in range(len(SWEEP_BODIES))]
    if not ctx.thorough:
        pairs = [(0, 0), (0, 1), (1, 0), (2, 0), (0, 3), (4, 0), (5, 1)]
    regs = ["plain", "custom", "instdisp"] if ctx.thorough else ["plain"]
    pkg = _package_dir()
    cov = {}
    for (reg, (ia, ib)) in [(r, p) for r in regs for p in pairs]:
        ta, tb = json.dumps(SWEEP_BODIES[ia]), json.dumps(SWEEP_BODIES[ib])
        fresh, _ = make_dispatcher(version, reg)
        want_a = loads_or_raw(fresh.serve(ta))
        fresh, _ = make_dispatcher(version, reg)
        want_b = loads_or_raw(fresh.serve(tb))
        if (reg, ia) not in cov:
            cov[(reg, ia)] = coverage_points(version, ta, reg)
        points = cov[(reg, ia)]
        if not ctx.thorough and ia not in (0,):
            # quick tier: every line for the 1.0 call; for the other paused bodies the lines of the server, config and
            # jsonclass modules (where configurations are read, copied and could be cached)
            points = [p for p in points if os.path.basename(p[0].co_filename) in ("SimpleJSONRPCServer.py", "config.py", "jsonclass.py")]
        for (code, pause_line) in points:
            stats.sweep_points += 1
            disp, cfg = make_dispatcher(version, reg)
            before = snapshot(cfg)
            paused, resume, finished = threading.Event(), threading.Event(), threading.Event()
            out = {}

            def tracer(frame, event, arg, code=code, pause_line=pause_line, paused=paused, resume=resume):
                if not frame.f_code.co_filename.startswith(pkg):
                    return None
                if frame.f_code is not code:
                    return None

                def local(frame, event, arg):
                    if event == "line" and frame.f_lineno == pause_line and not paused.is_set():
                        paused.set()
                        resume.wait(30)
                    return local
                return local

            def run_a(disp=disp, out=out, tracer=tracer, paused=paused, finished=finished):
                sys.settrace(tracer)
                try:
                    out["a"] = disp.serve(ta)
                finally:
                    sys.settrace(None)
                    finished.set()
                    paused.set()

            th = threading.Thread(target=run_a)
            th.daemon = True
            th.start()
            paused.wait(30)
            hit = paused.is_set() and not finished.is_set()
            if hit:
                out["b"] = disp.serve(tb)
            resume.set()
            th.join(30)
            if not hit or "b" not in out or "a" not in out:
                stats.sweep_skipped += 1
                ctx.count(kind="preemption-skipped")
                continue
            fname = code.co_qualname if hasattr(code, "co_qualname") else code.co_name
            stats.sweep_functions.add(fname)
            got_a, got_b = loads_or_raw(out.get("a")), loads_or_raw(out["b"])
            case = {"version": version, "registry": reg, "paused_thread_body": ta, "paused_in": fname,
                    "paused_at_line": pause_line - code.co_firstlineno, "other_thread_body": tb}
            if got_a != want_a or got_b != want_b:
                ctx.violate(case, "interleaved replies %s / %s differ from the sequential replies %s / %s"
                            % (json.dumps(got_a), json.dumps(got_b), json.dumps(want_a), json.dumps(want_b)), key="interleaving")
            if snapshot(cfg) != before or snapshot(default_cfg) != default_before:
                ctx.violate(case, "a Config object changed under interleaved serving", key="config-changed")
            ctx.count(case_repr=case if (ia, ib) == (0, 0) and pause_line == points[len(points) // 2][1] else None,
                      nontrivial_key=("sweep", version, reg, ia, ib, fname, pause_line - code.co_firstlineno),
                      kind="preemption/v%s" % version)


def ordered(d, vname, kname):
    """insertion order, as the model keeps it"""
    return [(kname(k), vname(v)) for k, v in d.items()]


def replay(payload):
    case = payload.get("case", {})
    print(json.dumps(case, indent=1, default=repr)[:3000])
    version = case.get("version", 2.0)
    reg = case.get("registry", "plain")
    default_cfg = impl.jsonrpclib.config.DEFAULT
    if "entry_kind" in case:
        import c13entries
        return c13entries.replay(sys.modules[__name__], case)
    if "history" in case and case.get("via") == "do_POST":
        cts = case.get("content_types") or [None] * (len(case["history"]) + 1)
        disp, cfg = make_dispatcher(version, reg)
        before, dbefore = snapshot(cfg), snapshot(default_cfg)
        for t, ct in zip(case["history"], cts):
            disp.post(t, ct)
        got = disp.post(case["body"], cts[len(case["history"])])
        fresh, _ = make_dispatcher(version, reg)
        want = fresh.post(case["body"], cts[len(case["history"])])
        print("after history:", got)
        print("fresh server :", want)
        print("config before/after:", before, snapshot(cfg))
        if got != want or snapshot(cfg) != before or snapshot(default_cfg) != dbefore:
            print("VIOLATION reproduced")
            return 1
        return 0
    if "history" in case:
        disp, cfg = make_dispatcher(version, reg)
        before, dbefore = snapshot(cfg), snapshot(default_cfg)
        for t in case["history"]:
            disp.serve(t)
        out = disp.serve(case["body"])
        fresh, _ = make_dispatcher(version, reg)
        want = fresh.serve(case["body"])
        print("after history:", out)
        print("fresh server :", want)
        print("config before/after:", before, snapshot(cfg))
        print("config.DEFAULT before/after:", dbefore, snapshot(default_cfg))
        if loads_or_raw(out) != loads_or_raw(want) or snapshot(cfg) != before or snapshot(default_cfg) != dbefore:
            print("VIOLATION reproduced")
            return 1
        return 0
    if "entry" in case:
        disp, cfg = make_dispatcher(version, reg)
        text = case.get("body") or json.dumps(case["entry"])
        out = disp.serve(text)
        print("request:", text)
        print("reply  :", out)

        class _C(object):
            hits = []

            def violate(self, c, detail, key=None):
                self.hits.append(detail)
        c = _C()
        judge_forms(c, Stats(), version, reg, json.loads(text), out)
        for h in c.hits:
            print("VIOLATION reproduced:", h)
        return 1 if c.hits else 0
    if "paused_thread_body" in case:
        class _C(object):
            thorough = True
            hits = []

            def violate(self, c, detail, key=None):
                if c.get("paused_in") == case.get("paused_in") and c.get("paused_at_line") == case.get("paused_at_line"):
                    self.hits.append(detail)

            def count(self, *a, **k):
                pass
        c = _C()
        bodies = [json.dumps(b) for b in SWEEP_BODIES]
        global SWEEP_BODIES_REPLAY
        ia, ib = bodies.index(case["paused_thread_body"]), bodies.index(case["other_thread_body"])
        saved = list(SWEEP_BODIES)
        try:
            SWEEP_BODIES[:] = [saved[ia], saved[ib]]
            preemption_sweep(c, Stats(), version, default_cfg, snapshot(default_cfg))
        finally:
            SWEEP_BODIES[:] = saved
        for h in c.hits[:3]:
            print("VIOLATION reproduced:", h)
        return 1 if c.hits else 0
    return 2
