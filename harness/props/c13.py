"""
C13 — Replies depend only on the request: stateless per-request version adaptation.

Model   : lean/JRV/Model/ConfigHeap.lean (configurations as aliasable heap objects)
          lean/JRV/Model/ConfigHeapConc.lean (dispatcher threads with the statements of the version adaptation as
          atomic steps, interleaved arbitrarily on one shared heap; C13_concurrent*)
Theorems: lean/JRV/Properties/C13.lean
Tie     : extracted write footprint of the serve path and Config.copy structure (tools/extractors/footprint.py)
          + correspondence: (a) reply forms of random request histories on one real dispatcher vs the model,
          (b) sequences of Config.copy() / mutations on real Config objects vs the heap model.
Monitor : every reply of a history equals the reply of a *fresh* dispatcher to the same body (history freedom),
          has the form the property prescribes, both Config objects are unchanged field by field after every
          request; the same bodies served from several threads at once give the same replies; copy independence.
"""
import json
import threading

import impl
import pyval

REQUIRED_THEOREMS = [
    "C13_frame_entry", "C13_frame", "C13_history_free", "C13_form", "C13_copy_independent",
    "C13_concurrent", "C13_concurrent_schedule", "C13_concurrent_progress", "C13_concurrent_needs_copy",
    "C13_gen_sharedWrites", "C13_gen_versionStoreOnCopy", "C13_gen_copyDuplicates",
]

FIELDS = ("version", "content_type", "user_agent", "use_jsonclass", "serialize_method", "ignore_attribute")


def snapshot(cfg):
    return (tuple(getattr(cfg, f) for f in FIELDS),
            tuple(sorted((k, getattr(v, "__name__", repr(v))) for k, v in cfg.classes.items())),
            tuple(sorted((getattr(k, "__name__", repr(k)), getattr(v, "__name__", repr(v))) for k, v in cfg.serialize_handlers.items())),
            type(cfg.classes).__name__ if False else None)


def make_dispatcher(version, cfg=None):
    import jsonrpclib.SimpleJSONRPCServer as SRV
    cfg = cfg or impl.jsonrpclib.config.Config(version=version)
    d = SRV.SimpleJSONRPCDispatcher(config=cfg)
    d.register_function(lambda *a, **k: [list(a), k], "echo")
    d.register_function(lambda a, b=2: a + b, "add")

    def boom(*a):
        raise ValueError("boom")
    d.register_function(boom, "boom")

    def deny(*a):
        # a method that answers with a Fault object it built itself (carrying the default configuration)
        return impl.jsonrpclib.Fault(-32001, "denied")
    d.register_function(deny, "deny")
    return d, cfg


def gen_entry(rng):
    """(kind token for the model or None if the entry is not a dict, entry)"""
    r = rng.random()
    method = rng.choice(["echo", "add", "boom", "nope", "deny"])
    params = rng.choice([[1], [1, 2], {"a": 1}, [], None])
    if r < 0.3:
        e = {"jsonrpc": "2.0", "id": rng.choice([1, "x", 0, 2.5]), "method": method}
    elif r < 0.55:
        e = {"id": rng.choice([1, "x", 0]), "method": method}
    elif r < 0.65:
        e = {"jsonrpc": "2.0", "method": method}          # 2.0 notification
    elif r < 0.72:
        e = {"id": None, "method": method}                # 1.0 notification
    elif r < 0.80:
        e = {"jsonrpc": "2.0", "id": 3, "method": ""}     # invalid: empty method
    elif r < 0.86:
        e = {"id": 4, "method": 5}                        # invalid, 1.0 style
    elif r < 0.92:
        e = {"method": "echo"}                            # no version marker
    else:
        return rng.choice([5, "str", [], None, True])
    if params is not None and "method" in e and rng.random() < 0.8:
        e["params"] = params
    if rng.random() < 0.05:
        e["params"] = 7                                   # invalid params type
    return e


def classify(entry):
    """How the property classifies an entry: 'v1'/'v0' validated with/without jsonrpc, 'i' invalid, None = falsy/odd."""
    if not isinstance(entry, dict):
        return "i"
    if "jsonrpc" not in entry and "id" not in entry:
        return "i"
    m = entry.get("method")
    p = entry.get("params", [])
    if not m or not isinstance(m, str) or not isinstance(p, (list, dict, tuple)):
        return "i"
    return "v1" if "jsonrpc" in entry else "v0"


def is_notification(entry):
    return isinstance(entry, dict) and ("id" not in entry or entry["id"] in (None, ""))


def reply_form(obj):
    if not isinstance(obj, dict):
        return "?"
    return 20 if "jsonrpc" in obj else 10


def run(ctx):
    J = impl.jsonrpclib.jsonrpc
    ctx.rule = ("random histories (length <= 40; thorough: more and longer) of request bodies mixing 1.0/2.0 calls, "
                "notifications, batches, invalid and failing requests on ONE dispatcher per server version in {1.0, 2.0}; "
                "after every request: reply == reply of a fresh dispatcher, reply form, field-by-field snapshot of the server "
                "Config and of config.DEFAULT; the same bodies again from 2-8 concurrent threads; random programs of "
                "Config.copy()/mutations; distinct_nontrivial = distinct histories containing both request forms")
    default_cfg = impl.jsonrpclib.config.DEFAULT
    default_before = snapshot(default_cfg)
    lines, impl_out = [], []
    n_hist = ctx.budget(30, 400)
    for hi in range(n_hist):
        version = ctx.rng.choice([1.0, 2.0])
        disp, cfg = make_dispatcher(version)
        before = snapshot(cfg)
        bodies, tokens, forms = [], [], []
        for _ in range(ctx.rng.randint(1, 40 if not ctx.thorough else 80)):
            if ctx.rng.random() < 0.3:
                body = [gen_entry(ctx.rng) for _ in range(ctx.rng.randint(1, 4))]
            else:
                body = gen_entry(ctx.rng)
            text = json.dumps(body)
            out = disp._marshaled_dispatch(text)
            fresh, _ = make_dispatcher(version)
            want = fresh._marshaled_dispatch(text)
            if json.loads(out or "null") != json.loads(want or "null"):
                ctx.violate({"version": version, "history": [json.dumps(b) for b in bodies], "body": text},
                            "reply %s differs from the reply of a fresh server %s" % (out, want), key="history-dependence")
            for c, name, b4 in ((cfg, "server Config", before), (default_cfg, "config.DEFAULT", default_before)):
                if snapshot(c) != b4:
                    ctx.violate({"version": version, "history": [json.dumps(b) for b in bodies], "body": text},
                                "%s changed while serving: %r -> %r" % (name, b4, snapshot(c)), key="config-changed")
            # forms, entry by entry
            entries = body if isinstance(body, list) and body else [body]
            parsed = json.loads(out) if out else None
            replies = parsed if isinstance(parsed, list) else ([parsed] if parsed is not None else [])
            answered = [e for e in entries if not (classify(e) in ("v0", "v1") and is_notification(e))]
            if isinstance(body, list) and body and len(replies) == len(answered):
                toks, fs = [], []
                for e, rep in zip(answered, replies):
                    k = classify(e)
                    toks.append(k)
                    fs.append(reply_form(rep))
                    want_form = 10 if k == "v0" else (20 if version >= 2 else 10)
                    if reply_form(rep) != want_form:
                        ctx.violate({"version": version, "entry": e, "reply": rep},
                                    "entry answered in %s-form, expected %s-form" % (reply_form(rep), want_form), key="form")
                tokens.append("[ " + " ".join(toks) + " ]")
                forms.append(" ".join(str(f) for f in fs))
            elif not isinstance(body, list) and body and isinstance(body, dict) and replies:
                k = classify(body)
                want_form = 10 if k == "v0" else (20 if version >= 2 else 10)
                if reply_form(replies[0]) != want_form:
                    ctx.violate({"version": version, "entry": body, "reply": replies[0]},
                                "entry answered in %s-form, expected %s-form" % (reply_form(replies[0]), want_form), key="form")
                tokens.append("[ %s ]" % k)
                forms.append(str(reply_form(replies[0])))
            bodies.append(body)
        lines.append("c13hist %d %s" % (round(version * 10), " ".join(tokens)))
        impl_out.append(" | ".join(forms) + " ; srv=%d" % round(cfg.version * 10))
        both = any("v0" in t for t in tokens) and any("v1" in t for t in tokens)
        ctx.count(case_repr={"version": version, "bodies": [json.dumps(b) for b in bodies[:6]], "forms": forms[:6]},
                  nontrivial_key=("h", hi) if both else None, kind="history/v%s/len%d" % (version, len(bodies) // 10 * 10),
                  n=len(bodies))
        # the same bodies concurrently on one dispatcher
        if hi % 3 == 0:
            disp2, cfg2 = make_dispatcher(version)
            texts = [json.dumps(b) for b in bodies]
            results = {}

            def worker(idx):
                for i in range(idx, len(texts), nthreads):
                    results[i] = disp2._marshaled_dispatch(texts[i])
            nthreads = ctx.rng.randint(2, 8)
            ths = [threading.Thread(target=worker, args=(i,)) for i in range(nthreads)]
            for t in ths:
                t.start()
            for t in ths:
                t.join(30)
            for i, text in enumerate(texts):
                fresh, _ = make_dispatcher(version)
                want = fresh._marshaled_dispatch(text)
                if json.loads(results.get(i) or "null") != json.loads(want or "null"):
                    ctx.violate({"version": version, "body": text, "threads": nthreads},
                                "concurrent reply %s differs from the sequential reply %s" % (results.get(i), want),
                                key="concurrent")
            if snapshot(cfg2) != before:
                ctx.violate({"version": version}, "server Config changed under concurrent serving", key="config-changed")
            ctx.count(kind="concurrent/%d" % nthreads)

    # ---- one preemption at every source line of the per-request dispatch (line-granular interleavings)
    for version in (2.0, 1.0):
        preemption_sweep(ctx, version, default_cfg, default_before)

    # ---- Config.copy programs
    class K1(object):
        pass

    class K2(object):
        pass

    def h1(*a):
        return 1

    def h2(*a):
        return 2
    classes = {"K1": K1, "K2": K2}
    hfuncs = {"h1": h1, "h2": h2}
    htypes = {"tuple": tuple, "str": str, "K1": K1}
    for pi in range(ctx.budget(150, 3000)):
        objs = [impl.jsonrpclib.config.Config(version=2.0, content_type="application/json-rpc", user_agent="ua")]
        ops = []
        for _ in range(ctx.rng.randint(1, 8)):
            a = ctx.rng.randrange(len(objs))
            if ctx.rng.random() < 0.35:
                before_all = [snapshot(o) for o in objs]
                c = objs[a].copy()
                if snapshot(c)[:3] != snapshot(objs[a])[:3]:
                    ctx.violate({"ops": ops}, "copy() observes %r, original %r" % (snapshot(c), snapshot(objs[a])), key="copy-differs")
                objs.append(c)
                ops.append("c%d" % a)
                continue
            kind = ctx.rng.choice(["version", "ct", "ua", "jc", "sm", "ia", "cls", "hnd"])
            others_before = [snapshot(o) for i, o in enumerate(objs) if i != a]
            if kind == "version":
                v = ctx.rng.choice([10, 20])
                objs[a].version = v / 10.0
                ops.append("m%d:version:%d" % (a, v))
            elif kind == "ct":
                objs[a].content_type = "ct%d" % pi
                ops.append("m%d:ct:ct%d" % (a, pi))
            elif kind == "ua":
                objs[a].user_agent = "agent%d" % pi
                ops.append("m%d:ua:agent%d" % (a, pi))
            elif kind == "jc":
                b = ctx.rng.choice([True, False])
                objs[a].use_jsonclass = b
                ops.append("m%d:jc:%s" % (a, "true" if b else "false"))
            elif kind == "sm":
                objs[a].serialize_method = "_ser%d" % pi
                ops.append("m%d:sm:_ser%d" % (a, pi))
            elif kind == "ia":
                objs[a].ignore_attribute = "_ign%d" % pi
                ops.append("m%d:ia:_ign%d" % (a, pi))
            elif kind == "cls":
                k = ctx.rng.choice(list(classes))
                name = ctx.rng.choice(["A", "B"])
                objs[a].classes[name] = classes[k]
                ops.append("m%d:cls:%s:%s" % (a, name, k))
            else:
                t = ctx.rng.choice(list(htypes))
                f = ctx.rng.choice(list(hfuncs))
                objs[a].serialize_handlers[htypes[t]] = hfuncs[f]
                ops.append("m%d:hnd:%s:%s" % (a, t, f))
            others_after = [snapshot(o) for i, o in enumerate(objs) if i != a]
            if others_before != others_after:
                ctx.violate({"ops": ops}, "mutating configuration #%d changed another configuration: %r -> %r"
                            % (a, others_before, others_after), key="copy-aliasing")
        lines.append("c13copy " + " ".join(ops))

        def show(i, o):
            s = snapshot(o)
            sc = s[0]
            return "%d=%s" % (i, ",".join([str(round(sc[0] * 10)), sc[1], sc[2], "true" if sc[3] else "false", sc[4], sc[5],
                                            "{" + ";".join("%s:%s" % kv for kv in ordered(o.classes, lambda v: v.__name__, str)) + "}",
                                            "{" + ";".join("%s:%s" % kv for kv in ordered(o.serialize_handlers, lambda v: v.__name__, lambda k: k.__name__)) + "}"]))

        impl_out.append(" ".join(show(i, o) for i, o in enumerate(objs)))
        ctx.count(case_repr={"config_ops": ops}, nontrivial_key=("p", tuple(ops)) if any(o.startswith("c") for o in ops) else None,
                  kind="copy-program")

    outs = ctx.lean(lines)
    for ln, mo, io_ in zip(lines, outs, impl_out):
        if " ".join(mo.split()) != " ".join(io_.split()):
            ctx.disagree(ln[:500], io_[:500], mo[:500], component=ln.split(" ")[0])
    ctx.traces_validated += len(lines)
    ctx.assumptions.append("the footprint classifies a name bound to a call result as request-local (callee stores are scanned on their own); getattr results are treated as shared")


SWEEP_BODIES = [
    {"id": 1, "method": "add", "params": [1, 2]},                      # 1.0 call
    {"jsonrpc": "2.0", "id": 2, "method": "add", "params": [1, 2]},    # 2.0 call
    {"id": 3, "method": "boom", "params": []},                         # failing 1.0 call
    {"jsonrpc": "2.0", "id": 4, "method": "deny", "params": []},       # 2.0 call answered with the method's own Fault
]


def preemption_sweep(ctx, version, default_cfg, default_before):
    """
    Thread A serves body a and is paused when it reaches source line L of _marshaled_single_dispatch (every
    executable line in turn); thread B then serves body b to completion on the same dispatcher; A resumes.
    Both replies must equal the replies of a fresh server, and both Config objects must be unchanged.
    """
    import sys as _sys
    import jsonrpclib.SimpleJSONRPCServer as SRV
    code = SRV.SimpleJSONRPCDispatcher._marshaled_single_dispatch.__code__
    lines = sorted({ln for (_s, _e, ln) in code.co_lines() if ln})
    pairs = [(a, b) for a in range(len(SWEEP_BODIES)) for b in range(len(SWEEP_BODIES))]
    if not ctx.thorough:
        pairs = [(0, 0), (0, 1), (1, 0), (2, 0), (0, 3)]
    for (ia, ib) in pairs:
        ta, tb = json.dumps(SWEEP_BODIES[ia]), json.dumps(SWEEP_BODIES[ib])
        fresh, _ = make_dispatcher(version)
        want_a = json.loads(fresh._marshaled_dispatch(ta) or "null")
        fresh, _ = make_dispatcher(version)
        want_b = json.loads(fresh._marshaled_dispatch(tb) or "null")
        for pause_line in lines:
            disp, cfg = make_dispatcher(version)
            before = snapshot(cfg)
            paused, resume = threading.Event(), threading.Event()
            out = {}

            def tracer(frame, event, arg):
                if frame.f_code is code:
                    def local(frame, event, arg):
                        if event == "line" and frame.f_lineno == pause_line and not paused.is_set():
                            paused.set()
                            resume.wait(5)
                        return local
                    return local
                return None

            def run_a():
                _sys.settrace(tracer)
                try:
                    out["a"] = disp._marshaled_dispatch(ta)
                finally:
                    _sys.settrace(None)

            th = threading.Thread(target=run_a)
            th.daemon = True
            th.start()
            # wait until A is paused at the line, or has finished without reaching it
            for _ in range(4000):
                if paused.is_set() or not th.is_alive():
                    break
                th.join(0.0005)
            hit = paused.is_set()
            if hit and th.is_alive():
                out["b"] = disp._marshaled_dispatch(tb)
            resume.set()
            th.join(5)
            if not hit or "b" not in out:
                continue
            got_a, got_b = json.loads(out.get("a") or "null"), json.loads(out["b"] or "null")
            case = {"version": version, "paused_thread_body": ta, "paused_at_line": pause_line - code.co_firstlineno,
                    "other_thread_body": tb}
            if got_a != want_a or got_b != want_b:
                ctx.violate(case, "interleaved replies %s / %s differ from the sequential replies %s / %s"
                            % (json.dumps(got_a), json.dumps(got_b), json.dumps(want_a), json.dumps(want_b)), key="interleaving")
            if snapshot(cfg) != before or snapshot(default_cfg) != default_before:
                ctx.violate(case, "a Config object changed under interleaved serving", key="config-changed")
            ctx.count(case_repr=case if pause_line == lines[len(lines) // 2] else None,
                      nontrivial_key=("sweep", version, ia, ib, pause_line), kind="preemption/v%s" % version)


def ordered(d, vname, kname):
    """insertion order, as the model keeps it"""
    return [(kname(k), vname(v)) for k, v in d.items()]


def replay(payload):
    case = payload.get("case", {})
    print(json.dumps(case, indent=1, default=repr)[:3000])
    if "history" in case:
        version = case["version"]
        disp, cfg = make_dispatcher(version)
        before = snapshot(cfg)
        for t in case["history"]:
            disp._marshaled_dispatch(t)
        out = disp._marshaled_dispatch(case["body"])
        fresh, _ = make_dispatcher(version)
        want = fresh._marshaled_dispatch(case["body"])
        print("after history:", out)
        print("fresh server :", want)
        print("config before/after:", before, snapshot(cfg))
        if json.loads(out or "null") != json.loads(want or "null") or snapshot(cfg) != before:
            print("VIOLATION reproduced")
            return 1
        return 0
    return 2
