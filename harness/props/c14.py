"""
C14 — The message construction API emits exactly the members each version requires.

Model   : lean/JRV/Model/Payload.lean (+ Backend.lean for the JSON text layer)
Theorems: lean/JRV/Properties/C14.lean (+ C14Gen.lean: companions of the extracted facts)
Tie     : extracted thresholds / id test / forced-id test / result expression (tools/extractors/payload.py) + differential
          correspondence of jsonrpclib.dump / Fault.dump(rpcid=, version=) over the cross product of arguments.
Monitor : the property statement, checked directly on the real outputs of dump, of dumps (parsed), and of
          loads(dumps(x)) with class translation off and on: member sets AND values (method, params, result, id, error
          code/message/data) against the inputs.  Whether an id was generated is decided from the SUPPLIED rpcid
          (None or ""), never from the spelling of the id; generated ids are masked by position.
"""
import itertools
import json

import gen
import impl
import pyval

REQUIRED_THEOREMS = [
    "C14_id_verbatim", "C14_id_fresh_distinct", "C14_request_2", "C14_request_1", "C14_notify_2", "C14_notify_1",
    "C14_response", "C14_error", "C14_error_data", "C14_dump_fault", "C14_dump_request", "C14_dump_response",
    "C14_dump_emits_dict", "C14_reject", "C14_accepts", "C14_version_args", "C14_loads_empty", "C14_roundtrip",
    "C14_roundtrip_request_on", "C14_fault_dump_forced", "C14_fault_dump_forced_falsy",
    "C14_gen_thresholds", "C14_gen_idTest", "C14_gen_faultForcedId", "C14_gen_responseResult",
]

PARAMS = [("V", x) for x in (
    [], (), {}, None, [1], (1, "a"), {"a": 1}, [0], [None], [[]], [{}], {"": []}, [1, [2, (3,)], {"k": (4,)}],
    5, 0, "s", "", True, False, 1.5, ["é"], {"é": "日本"}, 0.0,
)] + [("F", f) for f in (
    [-32600, "Invalid", None], [0, "", None], [7, "app", {"d": 1}], [-32000, "m", 0], [1.5, "m", []], ["x", "m", False],
    [True, None, ""],
)]
METHODS = ["m", "", None, 5, "ns.sub.é", True]
RPCIDS = [None, "", 0, 0.0, 1, -1, 1.5, "abc", True, False, [], {}, [1], "0", 2 ** 53]
VERSIONS = [None, 1.0, 2.0, "1.0", "2.0", 2, 1, 0, "", 1.1, 2.5, "2"]
FLAGS = [None, True, False]
CFGS = [(2.0, True), (1.0, True), (2.0, False), (1.0, False)]

DOMAIN_VERSIONS = (None, 1.0, 2.0, "1.0", "2.0")
FRESH = "FRESH"


def params_kind(pv):
    pk, x = pv
    if pk == "F":
        return "fault-data" if x[2] is not None else "fault-nodata"
    if x is None:
        return "none"
    if isinstance(x, (list, tuple, dict)):
        return ("empty-" if not x else "nonempty-") + type(x).__name__
    return "scalar-falsy" if not x else "scalar-truthy"


PARAM_KINDS = sorted({params_kind(p) for p in PARAMS})


def ver_token(v):
    """Python version argument -> model VerArg token, or None when the model does not describe it."""
    if v is None or v == "" or (isinstance(v, (int, float)) and not isinstance(v, bool) and v == 0):
        return "N"
    if isinstance(v, bool):
        return None
    if isinstance(v, (int, float)):
        t = round(v * 10)
        return "I%d" % t if abs(t - v * 10) < 1e-9 and t > 0 else None
    if isinstance(v, str):
        try:
            f = float(v)
        except ValueError:
            return None
        t = round(f * 10)
        return "S" + pyval.hexs(str(t)) if abs(t - f * 10) < 1e-9 and t > 0 else None
    return None


def effective_version(cfgv, v):
    if v is None or v == "" or v == 0:
        return float(cfgv)
    return float(v)


def id_is_generated(case):
    """From the INPUTS: a request (not a response, not a Fault) whose supplied id is None or "" carries a generated id
    (a 2.0 notification drops it, a 1.0 notification replaces it by null: nothing to mask there)."""
    (_cfg, (pk, _params), method, rpcid, _version, is_resp, is_notify) = case
    return pk != "F" and not is_resp and not is_notify and (rpcid is None or (isinstance(rpcid, str) and rpcid == ""))


def mask_id(case, d):
    """Replace the generated id by the marker the model prints — by position, whatever it looks like."""
    if id_is_generated(case) and isinstance(d, dict) and "id" in d:
        d = dict(d)
        d["id"] = FRESH
    return d


def norm(v):
    """JSON normalisation of a JSON-able Python value (tuples become lists), as canonical text: distinguishes 0 / 0.0 /
    False / "" / None."""
    return json.dumps(v, sort_keys=True, ensure_ascii=True)


def same(a, b):
    try:
        return norm(a) == norm(b)
    except (TypeError, ValueError):
        return False


def monitor(case, kind, val, fresh_seen, via="dump"):
    """Property statement on one real outcome (the dictionary of jsonrpclib.dump, the parsed text of dumps, or
    loads(dumps(…))); returns message or None."""
    (cfgv, ujc), (pk, params), method, rpcid, version, is_resp, is_notify = case
    if version not in DOMAIN_VERSIONS or isinstance(version, bool):
        return None
    ver = effective_version(cfgv, version)
    if ver not in (1.0, 2.0):
        return None
    is_fault = pk == "F"
    container = isinstance(params, (list, tuple, dict))
    # rejections: "non-string method for a request, non-container params with a method, response without id"
    if not is_fault:
        reasons = []
        if isinstance(method, str) and not (container or params is None):
            reasons.append("non-container params %r with a method" % (params,))
        if not isinstance(method, str) and not is_resp:
            reasons.append("non-string method %r for a request" % (method,))
        if is_resp and rpcid is None:
            reasons.append("response without id")
        if reasons:
            if kind != "err" or not isinstance(val, (TypeError, ValueError)):
                return "%s: %s did not raise TypeError/ValueError: %s %r" % (via, ", ".join(reasons), kind, val)
            return None
    if kind != "ok":
        return "%s: valid combination raised %s: %s" % (via, type(val).__name__, val)
    d = val
    if not isinstance(d, dict):
        return "%s returned %r" % (via, d)
    keys = set(d)
    verbatim = (isinstance(rpcid, str) and rpcid != "") or (isinstance(rpcid, (int, float)))
    if is_fault:
        code, msg, data = params
        err = d.get("error")
        if not isinstance(err, dict) or "code" not in err or "message" not in err or \
                not same(err["code"], code) or not same(err["message"], msg):
            return "%s: error response does not carry the Fault's code/message %r/%r: %r" % (via, code, msg, d)
        if (data is not None) != ("data" in err) or (data is not None and not same(err["data"], data)):
            return "%s: error response data member wrong: %r (data=%r)" % (via, err, data)
        if set(err) - {"code", "message", "data"}:
            return "%s: error object has extra members %r" % (via, sorted(err))
        exp = {"jsonrpc", "id", "error"} if ver >= 2 else {"result", "id", "error"}
        if keys != exp or (ver < 2 and d["result"] is not None) or (ver >= 2 and d["jsonrpc"] != "2.0"):
            return "%s: error response members %r for version %s" % (via, sorted(keys), ver)
        if verbatim and not same(d["id"], rpcid):
            return "%s: error response id %r, supplied %r" % (via, d["id"], rpcid)
        return None
    if is_resp:
        exp = {"jsonrpc", "id", "result"} if ver >= 2 else {"result", "id", "error"}
        if keys != exp or (ver < 2 and d["error"] is not None) or (ver >= 2 and d["jsonrpc"] != "2.0"):
            return "%s: result response members %r for version %s" % (via, sorted(keys), ver)
        if not same(d["id"], rpcid):
            return "%s: response id %r, expected %r" % (via, d["id"], rpcid)
        if not same(d["result"], params):
            return "%s: response result %r, the result handed in is %r" % (via, d["result"], params)
        return None
    # request / notification
    p = [] if params is None else params
    nonempty = bool(p)
    exp = {"method"}
    if ver >= 2:
        exp.add("jsonrpc")
        if nonempty:
            exp.add("params")
        if not is_notify:
            exp.add("id")
    else:
        exp.update(("params", "id"))
    if keys != exp:
        return "%s: %s members %r, expected %r (version %s, params %r)" % (
            via, "notification" if is_notify else "request", sorted(keys), sorted(exp), ver, params)
    if ver >= 2 and d["jsonrpc"] != "2.0":
        return "%s: jsonrpc member %r" % (via, d["jsonrpc"],)
    if not same(d["method"], method):
        return "%s: method %r, expected %r" % (via, d["method"], method)
    if "params" in d:
        if nonempty and not same(d["params"], p):
            return "%s: params %r, the params handed in are %r" % (via, d["params"], p)
        if not nonempty and (not isinstance(d["params"], (list, tuple, dict)) or len(d["params"]) != 0):
            return "%s: params %r for empty params %r" % (via, d["params"], params)
    if is_notify:
        if ver < 2 and d["id"] is not None:
            return "%s: 1.0 notification id %r" % (via, d["id"],)
    else:
        if verbatim:
            if not same(d["id"], rpcid):
                return "%s: supplied id %r replaced by %r" % (via, rpcid, d["id"])
        elif rpcid is None or rpcid == "":
            gid = d["id"]
            if gid is None or isinstance(gid, bool) or not isinstance(gid, (str, int, float)) or gid == "" or repr(gid) in fresh_seen:
                return "%s: generated id %r is empty or not unique" % (via, gid)
            fresh_seen.add(repr(gid))
    return None


def all_cases():
    return itertools.product(CFGS, PARAMS, METHODS, RPCIDS, VERSIONS, FLAGS, FLAGS)


def stratified_sample(rng, n_random):
    """Quick tier: (a) every (configuration x version argument x is_response x is_notify x kind of params) combination, the
    remaining axes drawn at random with a bias towards the values that reach the message builders; (b) every value of
    every axis at least three times with the other axes random; (c) a uniform random sample of the whole product."""
    out = []
    by_kind = {}
    for pv in PARAMS:
        by_kind.setdefault(params_kind(pv), []).append(pv)
    good_ids = [r for r in RPCIDS if r is not None]
    for c in CFGS:
        for v in VERSIONS:
            for f1 in FLAGS:
                for f2 in FLAGS:
                    for kind in PARAM_KINDS:
                        pv = rng.choice(by_kind[kind])
                        m = "m" if rng.random() < 0.7 else rng.choice(METHODS)
                        r = rng.choice(good_ids) if rng.random() < 0.7 else rng.choice(RPCIDS)
                        out.append((c, pv, m, r, v, f1, f2))
    axes = [CFGS, PARAMS, METHODS, RPCIDS, VERSIONS, FLAGS, FLAGS]
    for ai, axis in enumerate(axes):
        for val in axis:
            for _ in range(3):
                case = [rng.choice(a) for a in axes]
                case[ai] = val
                out.append(tuple(case))
    cases = list(all_cases())
    for i in sorted(rng.sample(range(len(cases)), n_random)):
        out.append(cases[i])
    return out, len(cases)


def case_line(case):
    (cfgv, ujc), (pk, params), method, rpcid, version, is_resp, is_notify = case
    vt = ver_token(version)
    if vt is None:
        return None
    try:
        toks = ["L9", "I%d" % round(cfgv * 10), "T" if ujc else "F", "S" + pyval.hexs(pk), pyval.enc(params),
                pyval.enc(method), pyval.enc(rpcid), vt, "T" if is_resp else "F", "T" if is_notify else "F"]
    except pyval.Unencodable:
        return None
    return "pdump " + " ".join(toks)


def make_arg(J, cfg, pk, params):
    return J.Fault(params[0], params[1], data=params[2], config=cfg) if pk == "F" else params


def judge_case(J, cfg_objs, case, fresh_seen):
    """Every observable of one argument combination against the statement.  Returns (dump outcome, [(key, message)])."""
    (cfgv, ujc), (pk, params), method, rpcid, version, is_resp, is_notify = case
    cfg = cfg_objs[(cfgv, ujc)]
    hits = []
    k, v = impl.outcome(J.dump, make_arg(J, cfg, pk, params), method, rpcid, version, is_resp, is_notify, cfg)
    m = monitor(case, k, v, fresh_seen)
    if m:
        hits.append((m[:70], m))
    # the text API: dumps must emit (or reject) exactly like the statement says, judged on its own
    k2, text = impl.outcome(J.dumps, make_arg(J, cfg, pk, params), method, is_resp, None, rpcid, version, is_notify, cfg)
    parsed = None
    if k2 == "ok":
        try:
            parsed = json.loads(text)
        except (TypeError, ValueError) as ex:
            hits.append(("dumps-not-json", "dumps returned %r, which is not a JSON text (%s)" % (text, ex)))
            k2 = "bad"
    if k2 in ("ok", "err"):
        m = monitor(case, k2, parsed if k2 == "ok" else text, fresh_seen, via="dumps")
        if m:
            hits.append((m[:70], m))
    if k == "ok" and k2 == "err":
        hits.append(("dumps-raises", "dump emits %r but dumps raises %s: %s" % (v, type(text).__name__, text)))
    if k == "err" and k2 == "ok":
        hits.append(("dumps-accepts", "dump raises %s but dumps emits %s" % (type(v).__name__, text)))
    if k == "ok" and k2 == "ok":
        # loads(dumps(x)) returns the same structure up to JSON normalisation: class translation off and on
        want = mask_id(case, json.loads(json.dumps(v)))
        for tag, lcfg in (("jsonclass off", cfg_objs[(cfgv, False)]), ("jsonclass on", cfg_objs[(cfgv, True)])):
            k3, back = impl.outcome(J.loads, text, lcfg)
            if k3 != "ok":
                hits.append(("roundtrip", "loads(dumps(x)) [%s] raised %s: %s" % (tag, type(back).__name__, back)))
                continue
            m = monitor(case, "ok", back, fresh_seen, via="loads(dumps(x)) [%s]" % tag) if back != parsed else None
            if m:
                hits.append((m[:70], m))
            if not same(mask_id(case, back), want):
                hits.append(("roundtrip", "loads(dumps(x)) [%s] = %r differs from the structure dump builds %r" % (tag, back, v)))
    return (k, v), hits


def run(ctx, only_cases=None):
    J = impl.jsonrpclib.jsonrpc
    total = len(CFGS) * len(PARAMS) * len(METHODS) * len(RPCIDS) * len(VERSIONS) * 9
    ctx.rule = ("cross product config(version, use_jsonclass) x params(%d values + %d Faults) x method(%d) x rpcid(%d) x "
                "version(%d) x is_response(3) x is_notify(3) = %d combinations (thorough: all; quick: stratified — every "
                "configuration x version x flag x flag x kind-of-params combination, every value of every axis, plus a seeded "
                "uniform sample); Fault.dump/response with construction id x forced id x forced version; distinct_nontrivial = "
                "distinct (version, kind of message or exception class, params shape, id class) among cases that emit a message or raise"
                % (len([p for p in PARAMS if p[0] == "V"]), len([p for p in PARAMS if p[0] == "F"]), len(METHODS),
                   len(RPCIDS), len(VERSIONS), total))
    if only_cases is not None:
        chosen = only_cases
    elif ctx.thorough:
        chosen = list(all_cases())
        ctx.exhaustive = not ctx.searching
    else:
        chosen, _ = stratified_sample(ctx.rng, ctx.budget(10000, 40000))
    cfg_objs = {c: impl.jsonrpclib.config.Config(version=c[0], use_jsonclass=c[1]) for c in CFGS}
    lines, impl_out, line_case, fresh_seen = [], [], {}, set()
    skipped = 0
    seen_axis = [set() for _ in range(7)]
    seen_combo = set()
    for case in chosen:
        (cfgv, ujc), (pk, params), method, rpcid, version, is_resp, is_notify = case
        (k, v), hits = judge_case(J, cfg_objs, case, fresh_seen)
        for key, m in hits:
            ctx.violate({"case": repr(case)}, m, key=key)
        for ai, val in enumerate(case):
            seen_axis[ai].add(repr(val))
        seen_combo.add((case[0], repr(version), is_resp, is_notify, params_kind(case[1])))
        line = case_line(case)
        if line is None:
            skipped += 1
        else:
            lines.append(line)
            line_case[line] = case
            impl_out.append(impl.canon_outcome(k, mask_id(case, v) if k == "ok" else v, keep_arg=()))
        kindname = ("error" if pk == "F" else "response" if is_resp else "notify" if is_notify else "request") if k == "ok" else type(v).__name__
        ctx.count(case_repr=repr(case) + " -> " + (json.dumps(v, default=repr) if k == "ok" else repr(v)),
                  nontrivial_key=(str(version), cfgv, kindname, gen.shape(params), type(rpcid).__name__ + str(bool(rpcid))),
                  kind=kindname)
    try:
        empty = J.loads("")
    except Exception as ex:  # the empty text (a notification's reply) must be accepted and give None
        empty = ex
    if empty is not None:
        ctx.violate({"case": 'loads("")'}, 'loads("") is %r, not None' % (empty,), key="loads-empty")
    if only_cases is None:
        fault_cases(ctx, J, cfg_objs, lines, impl_out)
    outs = ctx.lean(lines)
    for ln, mo, io in zip(lines, outs, impl_out):
        cm = impl.canon_model_line(mo, keep_arg=()) if not ln.startswith("fdumpw ") else " | ".join(
            impl.canon_model_line(x, keep_arg=()) for x in mo.split(" | "))
        if cm != io:
            ctx.disagree(ln, io, cm, component=ln.split(" ")[0])
    ctx._c14_line_case = getattr(ctx, "_c14_line_case", {})
    ctx._c14_line_case.update(line_case)
    ctx.traces_validated += len(lines)
    ctx.extra["cases_outside_model"] = skipped
    ctx.extra["fraction_of_product_sampled"] = round(len(set(map(repr, chosen))) / float(total), 4)
    ctx.extra["axis_values_covered"] = ["%d/%d" % (len(seen_axis[i]), n) for i, n in enumerate(
        [len(CFGS), len(PARAMS), len(METHODS), len(RPCIDS), len(VERSIONS), 3, 3])]
    ctx.extra["config_x_version_x_flags_x_paramskind_covered"] = "%d/%d" % (
        len(seen_combo), len(CFGS) * len(VERSIONS) * 9 * len(PARAM_KINDS))
    ctx.assumptions.append("uuid.uuid4 yields distinct ids (monitored on every run, assumed in the theorems via the `fresh` parameter)")
    ctx.assumptions.append("JSON codec laws of JRV.Backend (render/parse round trip) are assumptions of C14_roundtrip, tested here against the standard-library backend")
    ctx.assumptions.append("whether an id is generated is decided from the supplied rpcid (None or \"\"), and a generated id is any non-empty "
                           "string or number not seen before in the run — its format (uuid4, hex, …) is not part of the property")
    ctx.assumptions.append("Fault.dump(rpcid=x)/Fault.response(rpcid=x): a forced id other than None (0 and \"\" included) replaces the Fault's own id (fix 06651ba); judged by the monitor")


FAULT_FORCED_IDS = [None, 0, "", 5, "forced", 0.0, False, True, [], [1], 1.5]
FAULT_VERSIONS = [None, 1.0, 2.0, "1.0", "2.0", 0, 2, 1]


def fault_cases(ctx, J, cfg_objs, lines, impl_out):
    """Fault.dump / Fault.response: id given at construction, forced id, forced version."""
    faults = [p[1] for p in PARAMS if p[0] == "F"]
    for cfgv in (1.0, 2.0):
        cfg = cfg_objs[(cfgv, True)]
        for (code, msg, data), rid in itertools.product(faults, RPCIDS):
            f = J.Fault(code, msg, rpcid=rid, config=cfg, data=data)
            d = f.dump()
            lines.append("fdump L5 I%d %s %s %s %s" % (round(cfgv * 10), pyval.enc(code), pyval.enc(msg), pyval.enc(rid), pyval.enc(data)))
            impl_out.append("ok " + pyval.enc(d, canon=True))
            case = ((cfgv, True), ("F", [code, msg, data]), None, rid, None, True, None)
            m = monitor(case, "ok", d, set(), via="Fault.dump()")
            if m:
                ctx.violate({"fault": [code, msg, data], "rpcid": rid, "config_version": cfgv}, m, key="fault-dump:" + m[:50])
            k, t = impl.outcome(f.response)
            if k != "ok" or json.loads(t) != json.loads(json.dumps(d)):
                ctx.violate({"fault": [code, msg, data], "rpcid": rid, "config_version": cfgv},
                            "Fault.response() %r differs from Fault.dump() %r" % (t, d), key="fault-response")
            ctx.count(kind="fault.dump")
        combos = list(itertools.product(faults, [None, 7, "built", 0], FAULT_FORCED_IDS, FAULT_VERSIONS))
        if not ctx.thorough:
            combos = [combos[i] for i in sorted(ctx.rng.sample(range(len(combos)), 400))] + \
                     [(faults[0], r0, fr, v) for r0 in (None, 7) for fr in FAULT_FORCED_IDS for v in FAULT_VERSIONS]
        for (code, msg, data), rid0, forced, version in combos:
            vt = ver_token(version)
            f = J.Fault(code, msg, rpcid=rid0, config=cfg, data=data)
            d1 = f.dump(rpcid=forced, version=version)
            d2 = f.dump()
            g = J.Fault(code, msg, rpcid=rid0, config=cfg, data=data)
            k, t = impl.outcome(g.response, forced, version)
            if k != "ok" or json.loads(t) != json.loads(json.dumps(d1)):
                ctx.violate({"fault": [code, msg, data], "rpcid": rid0, "forced": forced, "version": version, "config_version": cfgv},
                            "Fault.response(rpcid=%r, version=%r) %r differs from Fault.dump(...) %r" % (forced, version, t, d1),
                            key="fault-response")
            # the statement on the forced call: the id that is in force (forced unless None) and the selected version
            eff_id = forced if forced is not None else rid0
            case = ((cfgv, True), ("F", [code, msg, data]), None, eff_id, version, True, None)
            m = monitor(case, "ok", d1, set(), via="Fault.dump(rpcid=%r, version=%r)" % (forced, version))
            if m:
                ctx.violate({"fault": [code, msg, data], "rpcid": rid0, "forced": forced, "version": version, "config_version": cfgv},
                            m, key="fault-dump:" + m[:50])
            if vt is not None:
                lines.append("fdumpw L7 I%d %s %s %s %s %s %s" % (round(cfgv * 10), pyval.enc(code), pyval.enc(msg), pyval.enc(rid0),
                                                                   pyval.enc(data), pyval.enc(forced), vt))
                impl_out.append("ok " + pyval.enc(d1, canon=True) + " | ok " + pyval.enc(d2, canon=True))
            ctx.count(kind="fault.dump(forced)")


def search(ctx):
    """The correspondence disagreed (or an obligation broke) and no monitor fired in the first pass: first re-judge the
    very inputs on which model and implementation differ — a confirmed one is the failing input; only then enumerate
    the whole product once (it is finite: no need for other seeds)."""
    J = impl.jsonrpclib.jsonrpc
    cfg_objs = {c: impl.jsonrpclib.config.Config(version=c[0], use_jsonclass=c[1]) for c in CFGS}
    line_case = getattr(ctx, "_c14_line_case", {})
    fresh_seen = set()
    for dis in ctx.disagreements[:200]:
        case = line_case.get(dis.get("case"))
        if case is None:
            continue
        _o, hits = judge_case(J, cfg_objs, case, fresh_seen)
        for key, m in hits:
            ctx.violate({"case": repr(case), "found_by": "model/implementation disagreement"}, m, key=key)
        if ctx.violations:
            return
    run(ctx)


def replay(payload):
    print(json.dumps(payload.get("case"), indent=1))
    J = impl.jsonrpclib.jsonrpc
    c = payload["case"]
    if "fault" in c:
        cfg = impl.jsonrpclib.config.Config(version=c.get("config_version", 2.0))
        f = J.Fault(c["fault"][0], c["fault"][1], rpcid=c.get("rpcid"), config=cfg, data=c["fault"][2])
        d = f.dump(rpcid=c.get("forced"), version=c.get("version"))
        print("Fault.dump ->", d)
        eff_id = c.get("forced") if c.get("forced") is not None else c.get("rpcid")
        case = ((c.get("config_version", 2.0), True), ("F", c["fault"]), None, eff_id, c.get("version"), True, None)
        m = monitor(case, "ok", d, set(), via="Fault.dump")
        if m:
            print("VIOLATION reproduced:", m)
            return 1
        return 0
    if c.get("case") == 'loads("")':
        try:
            empty = J.loads("")
        except Exception as ex:
            empty = ex
        print('loads("") ->', repr(empty))
        return 1 if empty is not None else 0
    case = eval(c["case"])  # the tuple repr written by run()
    cfg_objs = {cc: impl.jsonrpclib.config.Config(version=cc[0], use_jsonclass=cc[1]) for cc in CFGS}
    (k, v), hits = judge_case(J, cfg_objs, case, set())
    print("dump ->", k, repr(v))
    for _key, m in hits:
        print("VIOLATION reproduced:", m)
    return 1 if hits else 0
