"""
C14 — The message construction API emits exactly the members each version requires.

Model   : lean/JRV/Model/Payload.lean (+ Backend.lean for the JSON text layer)
Theorems: lean/JRV/Properties/C14.lean
Tie     : extracted thresholds / id test (tools/extractors/payload.py) + differential correspondence of
          jsonrpclib.dump / dumps / loads / Fault.dump / Fault.response over the cross product of arguments.
Monitor : the property statement, checked directly on the real outputs.
"""
import itertools
import json
import re

import gen
import impl
import pyval

REQUIRED_THEOREMS = [
    "C14_id_verbatim", "C14_id_fresh_distinct", "C14_request_2", "C14_request_1", "C14_notify_2", "C14_notify_1",
    "C14_response", "C14_error", "C14_error_data", "C14_dump_fault", "C14_dump_request", "C14_dump_response",
    "C14_reject", "C14_accepts", "C14_version_args", "C14_loads_empty", "C14_roundtrip",
    "C14_gen_thresholds", "C14_gen_idTest",
]

UUID = re.compile(r"^[0-9a-f]{8}-[0-9a-f]{4}-4[0-9a-f]{3}-[89ab][0-9a-f]{3}-[0-9a-f]{12}$")

PARAMS = [("V", x) for x in (
    [], (), {}, None, [1], (1, "a"), {"a": 1}, [0], [None], [[]], [{}], {"": []}, [1, [2, (3,)], {"k": (4,)}],
    5, 0, "s", "", True, False, 1.5, ["é"], {"é": "日本"},
)] + [("F", f) for f in (
    [-32600, "Invalid", None], [0, "", None], [7, "app", {"d": 1}], [-32000, "m", 0], [1.5, "m", []], ["x", "m", False],
)]
METHODS = ["m", "", None, 5, "ns.sub.é", True]
RPCIDS = [None, "", 0, 0.0, 1, -1, 1.5, "abc", True, False, [], {}, [1], "0", 2 ** 53]
VERSIONS = [None, 1.0, 2.0, "1.0", "2.0", 2, 1, 0, "", 1.1, 2.5, "2"]
FLAGS = [None, True, False]
CFGS = [(2.0, True), (1.0, True), (2.0, False), (1.0, False)]

DOMAIN_VERSIONS = (None, 1.0, 2.0, "1.0", "2.0")


def ver_token(v):
    """Python version argument -> model VerArg token, or None when the model does not describe it."""
    if v is None or v == "" or (isinstance(v, (int, float)) and not isinstance(v, bool) and v == 0):
        return "N"
    if isinstance(v, bool):
        return None
    if isinstance(v, (int, float)):
        t = round(v * 10)
        return "I%d" % t if abs(t - v * 10) < 1e-9 and t > 0 else None
    if isinstance(v, str):
        try:
            f = float(v)
        except ValueError:
            return None
        t = round(f * 10)
        return "S" + pyval.hexs(str(t)) if abs(t - f * 10) < 1e-9 and t > 0 else None
    return None


def effective_version(cfgv, v):
    if v is None or v == "" or v == 0:
        return float(cfgv)
    return float(v)


def scrub_ids(d, supplied):
    """Replace a generated uuid id by the marker the model prints."""
    if isinstance(d, dict) and isinstance(d.get("id"), str) and UUID.match(d["id"]) and (supplied is None or supplied == ""):
        d = dict(d)
        d["id"] = "FRESH"
    return d


def monitor(case, kind, val, fresh_seen):
    """Property statement on one real outcome of jsonrpclib.dump; returns message or None."""
    (cfgv, ujc), (pk, params), method, rpcid, version, is_resp, is_notify = case
    if version not in DOMAIN_VERSIONS or isinstance(version, bool):
        return None
    ver = effective_version(cfgv, version)
    if ver not in (1.0, 2.0):
        return None
    J = impl.jsonrpclib.jsonrpc
    is_fault = pk == "F"
    container = isinstance(params, (list, tuple, dict))
    # rejections: "non-string method for a request, non-container params with a method, response without id"
    if not is_fault:
        reasons = []
        if isinstance(method, str) and not (container or params is None):
            reasons.append("non-container params %r with a method" % (params,))
        if not isinstance(method, str) and not is_resp:
            reasons.append("non-string method %r for a request" % (method,))
        if is_resp and rpcid is None:
            reasons.append("response without id")
        if reasons:
            if kind != "err" or not isinstance(val, (TypeError, ValueError)):
                return "%s did not raise TypeError/ValueError: %s %r" % (", ".join(reasons), kind, val)
            return None
    if kind != "ok":
        return "valid combination raised %s: %s" % (type(val).__name__, val)
    d = val
    if not isinstance(d, dict):
        return "dump returned %r" % (d,)
    keys = set(d)
    if is_fault:
        code, msg, data = params
        err = d.get("error")
        if not isinstance(err, dict) or err.get("code") != code or err.get("message") != msg:
            return "error response does not carry the Fault's code/message: %r" % (d,)
        if (data is not None) != ("data" in err) or (data is not None and err["data"] != data):
            return "error response data member wrong: %r (data=%r)" % (err, data)
        exp = {"jsonrpc", "id", "error"} if ver >= 2 else {"result", "id", "error"}
        if keys != exp or (ver < 2 and d["result"] is not None) or (ver >= 2 and d["jsonrpc"] != "2.0"):
            return "error response members %r for version %s" % (sorted(keys), ver)
        return None
    if is_resp:
        exp = {"jsonrpc", "id", "result"} if ver >= 2 else {"result", "id", "error"}
        if keys != exp or (ver < 2 and d["error"] is not None) or (ver >= 2 and d["jsonrpc"] != "2.0"):
            return "result response members %r for version %s" % (sorted(keys), ver)
        if d["id"] != rpcid or type(d["id"]) is not type(rpcid):
            return "response id %r, expected %r" % (d["id"], rpcid)
        return None
    # request / notification
    p = [] if params is None else params
    nonempty = bool(p)
    exp = {"method"}
    if ver >= 2:
        exp.add("jsonrpc")
        if nonempty:
            exp.add("params")
        if not is_notify:
            exp.add("id")
    else:
        exp.update(("params", "id"))
    if keys != exp:
        return "%s members %r, expected %r (version %s, params %r)" % (
            "notification" if is_notify else "request", sorted(keys), sorted(exp), ver, params)
    if ver >= 2 and d["jsonrpc"] != "2.0":
        return "jsonrpc member %r" % (d["jsonrpc"],)
    if d["method"] != method:
        return "method %r" % (d["method"],)
    if is_notify:
        if ver < 2 and d["id"] is not None:
            return "1.0 notification id %r" % (d["id"],)
    else:
        supplied = (isinstance(rpcid, str) and rpcid != "") or (isinstance(rpcid, (int, float)))
        if supplied:
            if d["id"] != rpcid or type(d["id"]) is not type(rpcid):
                return "supplied id %r replaced by %r" % (rpcid, d["id"])
        elif rpcid is None or rpcid == "":
            if not isinstance(d["id"], str) or d["id"] == "" or d["id"] in fresh_seen:
                return "generated id %r is empty or not unique" % (d["id"],)
            fresh_seen.add(d["id"])
    return None


def all_cases():
    return itertools.product(CFGS, PARAMS, METHODS, RPCIDS, VERSIONS, FLAGS, FLAGS)


def case_line(case):
    (cfgv, ujc), (pk, params), method, rpcid, version, is_resp, is_notify = case
    vt = ver_token(version)
    if vt is None:
        return None
    try:
        toks = ["L9", "I%d" % round(cfgv * 10), "T" if ujc else "F", "S" + pyval.hexs(pk), pyval.enc(params),
                pyval.enc(method), pyval.enc(rpcid), vt, "T" if is_resp else "F", "T" if is_notify else "F"]
    except pyval.Unencodable:
        return None
    return "pdump " + " ".join(toks)


def run(ctx):
    J = impl.jsonrpclib.jsonrpc
    ctx.rule = ("cross product config(version, use_jsonclass) x params(22 values + 6 Faults) x method(6) x rpcid(15) x "
                "version(12) x is_response(3) x is_notify(3) = %d combinations (thorough: all; quick: a seeded sample plus "
                "every rpcid x version x flag combination on a fixed request); distinct_nontrivial = distinct "
                "(version, kind of message or exception class, params shape, id class) among cases that emit a message or raise"
                % (len(CFGS) * len(PARAMS) * len(METHODS) * len(RPCIDS) * len(VERSIONS) * 9))
    cases = list(all_cases())
    if ctx.thorough:
        chosen = cases
        ctx.exhaustive = not ctx.searching
    else:
        idx = ctx.rng.sample(range(len(cases)), 6000)
        chosen = [cases[i] for i in sorted(idx)]
        chosen += [(c, ("V", [1]), "m", r, v, f1, f2) for c in CFGS for r in RPCIDS for v in VERSIONS
                   for f1 in (None, True) for f2 in (None, True)]
    cfg_objs = {c: impl.jsonrpclib.config.Config(version=c[0], use_jsonclass=c[1]) for c in CFGS}
    lines, impl_out, fresh_seen = [], [], set()
    skipped = 0
    for case in chosen:
        (cfgv, ujc), (pk, params), method, rpcid, version, is_resp, is_notify = case
        cfg = cfg_objs[(cfgv, ujc)]
        arg = J.Fault(params[0], params[1], data=params[2], config=cfg) if pk == "F" else params
        k, v = impl.outcome(J.dump, arg, method, rpcid, version, is_resp, is_notify, cfg)
        m = monitor(case, k, v, fresh_seen)
        if m:
            ctx.violate({"case": repr(case)}, m, key=m[:70])
        if k == "ok":
            # text round trip on the real backend: loads(dumps(x)) == x up to JSON normalisation
            k2, text = impl.outcome(J.dumps, arg, method, is_resp, None, rpcid, version, is_notify, cfg)
            if k2 == "ok":
                cfg_off = cfg_objs[(cfgv, False)]
                back = J.loads(text, cfg_off)
                want = json.loads(json.dumps(v)) if not (isinstance(v.get("id"), str) and UUID.match(v.get("id") or "")) else None
                if want is not None and back != want:
                    ctx.violate({"case": repr(case)}, "loads(dumps(x)) = %r differs from %r" % (back, want), key="roundtrip")
        line = case_line(case)
        if line is None:
            skipped += 1
        else:
            lines.append(line)
            if k == "ok":
                v = scrub_ids(v, rpcid)
            impl_out.append(impl.canon_outcome(k, v, keep_arg=()))
        kindname = ("error" if pk == "F" else "response" if is_resp else "notify" if is_notify else "request") if k == "ok" else type(v).__name__
        ctx.count(case_repr=repr(case) + " -> " + (json.dumps(v, default=repr) if k == "ok" else repr(v)),
                  nontrivial_key=(str(version), cfgv, kindname, gen.shape(params), type(rpcid).__name__ + str(bool(rpcid))),
                  kind=kindname)
    if J.loads("") is not None:
        ctx.violate({"case": 'loads("")'}, 'loads("") is not None', key="loads-empty")
    # Fault.dump / Fault.response with the id given at construction
    for cfgv in (1.0, 2.0):
        cfg = cfg_objs[(cfgv, True)]
        for (code, msg, data), rid in itertools.product([p[1] for p in PARAMS if p[0] == "F"], RPCIDS):
            f = J.Fault(code, msg, rpcid=rid, config=cfg, data=data)
            d = f.dump()
            lines.append("fdump L5 I%d %s %s %s %s" % (round(cfgv * 10), pyval.enc(code), pyval.enc(msg), pyval.enc(rid), pyval.enc(data)))
            impl_out.append("ok " + pyval.enc(d, canon=True))
            t = json.loads(f.response())
            if t != json.loads(json.dumps(d)):
                ctx.violate({"fault": [code, msg, data], "rpcid": rid}, "Fault.response() %r differs from Fault.dump() %r" % (t, d), key="fault-response")
            ctx.count(kind="fault.dump")
    outs = ctx.lean(lines)
    for ln, mo, io in zip(lines, outs, impl_out):
        cm = impl.canon_model_line(mo, keep_arg=())
        if cm != io:
            ctx.disagree(ln, io, cm, component=ln.split(" ")[0])
    ctx.traces_validated += len(lines)
    ctx.extra["cases_outside_model"] = skipped
    ctx.assumptions.append("uuid.uuid4 yields distinct ids (monitored on every run, assumed in the theorems via the `fresh` parameter)")
    ctx.assumptions.append("JSON codec laws of JRV.Backend (render/parse round trip) are assumptions of C14_roundtrip, tested here against the standard-library backend")


def replay(payload):
    print(json.dumps(payload.get("case"), indent=1))
    case = eval(payload["case"]["case"])  # the tuple repr written by run()
    (cfgv, ujc), (pk, params), method, rpcid, version, is_resp, is_notify = case
    J = impl.jsonrpclib.jsonrpc
    cfg = impl.jsonrpclib.config.Config(version=cfgv, use_jsonclass=ujc)
    arg = J.Fault(params[0], params[1], data=params[2], config=cfg) if pk == "F" else params
    k, v = impl.outcome(J.dump, arg, method, rpcid, version, is_resp, is_notify, cfg)
    print("dump ->", k, repr(v))
    m = monitor(case, k, v, set())
    if m:
        print("VIOLATION reproduced:", m)
        return 1
    return 0
