"""
C15 — jsonclass round-trips plain data and is side-effect free.

Model   : lean/JRV/Model/JsonClass.lean (dump, load with effect log and final state of the argument)
Theorems: lean/JRV/Properties/C15.lean
Tie     : extracted facts (tools/extractors/jsonclass.py) + differential correspondence of jsonclass.dump /
          jsonclass.load (result, import attempts, final state of the argument) on plain data and on
          well-formed / malformed / failing `__jsonclass__` descriptors.
Monitor : written from the property statement: node types of the dump (values and dict keys), JSON-serialisability
          with string keys, load(dump(v)) == v up to container normalisation with exact primitive types, and a deep
          snapshot plus an identity map of the argument before and after every call (on success and on failure): the
          same container objects with the same lengths, and — for every dict that has a "__jsonclass__" member — the
          very same member object (`is`) afterwards.  Container sizes are heavy-tailed (a few hundred items now and
          then); descriptors are lists, tuples, of 2, 3 or 4 items, with list or dict constructor arguments.
Domain  : NaN and +-Infinity are outside the float domain of the models (DESIGN 3.2): the monitor runs on them (they
          are "extreme floats" of the quantifier), the model correspondence is skipped and the cases are counted.
          A dict key that is itself a container (tuple, frozenset) cannot be turned into a JSON node by any dump:
          the "only dicts, lists and primitives" clause is checked for values whose dict keys are primitives.
"""
import builtins
import copy
import json
import math

import gen
import impl
import jcenv
import pyval

REQUIRED_THEOREMS = [
    "C15_shape", "C15_shape_keys", "C15_roundtrip", "C15_jsonable", "C15_primitive_exact", "C15_pure_load", "C15_pure_load_ok",
    "C15_pure_load_fail", "C15_gen_pure_dump", "C15_gen_typeTables", "C15_gen_loadRestores",
    "C15_gen_dumpNonFreshWrites",
]

JC = impl.jsonrpclib.jsonclass if hasattr(impl.jsonrpclib, "jsonclass") else None
if JC is None:
    import jsonrpclib.jsonclass as JC  # noqa: E402

POOL = [0, False, "", None, 10 ** 30, -0.0, 5e-324, 1.7976931348623157e308, "é", True, -7, 1.0]
NONFINITE = [float("inf"), float("-inf"), float("nan")]
KINDS = ["list", "tuple", "set", "frozenset", "dict", "dictk"]
NONSTR_KEYS = [None, 7, 2.5, False, (1, "a")]


# ---- shapes ---------------------------------------------------------------------------------

def shapes(depth):
    """All nestings of the kind alphabet with depth <= depth and width <= 2 ('P' = primitive leaf)."""
    if depth == 0:
        return [("P",)]
    sub = shapes(depth - 1)
    out = [("P",)]
    for k in KINDS:
        out.append((k, ()))
        for a in sub:
            out.append((k, (a,)))
        for a in sub:
            for b in sub:
                out.append((k, (a, b)))
    return out


def shape_depth(t):
    return 0 if t[0] == "P" else 1 + max([shape_depth(c) for c in t[1]] + [0])


class Unbuildable(Exception):
    pass


def build(t, leaves):
    """Value of a shape; `leaves` is an iterator of primitives.  Unbuildable when a set member is unhashable."""
    k = t[0]
    if k == "P":
        return next(leaves)
    kids = [build(c, leaves) for c in t[1]]
    if k == "list":
        return kids
    if k == "tuple":
        return tuple(kids)
    try:
        if k == "set":
            return set(kids)
        if k == "frozenset":
            return frozenset(kids)
    except TypeError:
        raise Unbuildable()
    if k == "dict":
        return dict(("k%d" % i, x) for i, x in enumerate(kids))
    return dict((NONSTR_KEYS[(i + len(kids)) % len(NONSTR_KEYS)], x) for i, x in enumerate(kids))


def leaf_stream(offset):
    i = offset
    while True:
        yield POOL[i % len(POOL)]
        i += 1


def heavy(rng, width):
    """A container size: mostly 0..width, now and then 9-40, rarely 100-300 (sizes are unbounded in the property)."""
    r = rng.random()
    if r < 0.90:
        return rng.randint(0, width)
    if r < 0.985:
        return rng.randint(9, 40)
    return rng.randint(100, 300)


def random_plain(rng, depth, width, nonfinite=0.0):
    r = rng.random()
    if depth <= 0 or r < 0.25:
        if nonfinite and rng.random() < nonfinite:
            return rng.choice(NONFINITE)
        return gen.json_scalar(rng) if rng.random() < 0.7 else rng.choice(POOL)
    k = rng.choice(KINDS)
    n = heavy(rng, width)
    if n > 8:
        depth = min(depth, 2)  # wide containers stay shallow: the total size stays in the thousands
    if k in ("set", "frozenset"):
        items = [random_hashable(rng, depth - 1) for _ in range(n)]
        return set(items) if k == "set" else frozenset(items)
    kids = [random_plain(rng, depth - 1, width, nonfinite) for _ in range(n)]
    if k == "list":
        return kids
    if k == "tuple":
        return tuple(kids)
    d = {}
    for i, x in enumerate(kids):
        if k == "dict":
            key = rng.choice(gen.KEYS) if rng.random() < 0.7 else gen.json_scalar(rng)
            if not isinstance(key, str):
                key = "k"
            if n > 8:
                key = "%s%d" % (key, i)
        else:
            key = random_hashable(rng, 1)
        if key == "__jsonclass__":
            continue
        d[key] = x
    return d


def random_hashable(rng, depth):
    r = rng.random()
    if depth <= 0 or r < 0.6:
        return gen.json_scalar(rng) if rng.random() < 0.7 else rng.choice(POOL)
    n = rng.randint(0, 2)
    if r < 0.85:
        return tuple(random_hashable(rng, depth - 1) for _ in range(n))
    return frozenset(random_hashable(rng, depth - 1) for _ in range(n))


# ---- the property statement, on real outputs ------------------------------------------------

PRIMS = (type(None), bool, int, float, str)


def only_json_nodes(d, path="dump", keys=True):
    """None, or the first node of the dump that is not a dict, a list or a primitive — dict keys included when `keys`
    (a key can only be a primitive then)."""
    if type(d) in PRIMS:
        return None
    if type(d) is list:
        for i, x in enumerate(d):
            r = only_json_nodes(x, "%s[%d]" % (path, i), keys)
            if r:
                return r
        return None
    if type(d) is dict:
        for k, x in d.items():
            if keys and type(k) not in PRIMS:
                return "the key %r of %s is a %s" % (k, path, type(k).__name__)
            r = only_json_nodes(x, "%s[%r]" % (path, k), keys)
            if r:
                return r
        return None
    return "%s is a %s" % (path, type(d).__name__)


def primitive_keys(v):
    """Every dict key of v, at every depth (also inside keys), is a primitive."""
    if isinstance(v, dict):
        return all(type(k) in PRIMS for k in v) and all(primitive_keys(x) for x in v.values())
    if isinstance(v, (list, tuple, set, frozenset)):
        return all(primitive_keys(x) for x in v)
    return True


def has_nonfinite(v):
    if type(v) is float:
        return math.isnan(v) or math.isinf(v)
    if isinstance(v, dict):
        return any(has_nonfinite(k) or has_nonfinite(x) for k, x in v.items())
    if isinstance(v, (list, tuple, set, frozenset)):
        return any(has_nonfinite(x) for x in v)
    return False


def string_keys(v):
    if isinstance(v, dict):
        return all(type(k) is str for k in v) and all(string_keys(x) for x in v.values())
    if isinstance(v, (list, tuple, set, frozenset)):
        return all(string_keys(x) for x in v)
    return True


def expect_equal(orig, got, path="load(dump(v))"):
    """got == orig up to container normalisation, exact type and value of every primitive."""
    if isinstance(orig, (list, tuple)):
        if type(got) is not list or len(got) != len(orig):
            return "%s: %r is not a list of %d items" % (path, got, len(orig))
        for i, (a, b) in enumerate(zip(orig, got)):
            r = expect_equal(a, b, "%s[%d]" % (path, i))
            if r:
                return r
        return None
    if isinstance(orig, (set, frozenset)):
        if type(got) is not list or len(got) != len(orig):
            return "%s: %r is not a list of %d items" % (path, got, len(orig))
        rest = list(got)
        for a in orig:
            for i, b in enumerate(rest):
                if expect_equal(a, b, path) is None:
                    del rest[i]
                    break
            else:
                return "%s: member %r of %r has no counterpart in %r" % (path, a, orig, got)
        return None
    if isinstance(orig, dict):
        if type(got) is not dict or len(got) != len(orig):
            return "%s: %r is not a dict of %d entries" % (path, got, len(orig))
        gk = dict((_kenc(k), k) for k in got)
        for k, a in orig.items():
            kk = _kenc(k)
            if kk not in gk:
                return "%s: key %r lost or changed" % (path, k)
            r = expect_equal(a, got[gk[kk]], "%s[%r]" % (path, k))
            if r:
                return r
        return None
    if type(got) is not type(orig):
        return "%s: %r (%s) came back as %r (%s)" % (path, orig, type(orig).__name__, got, type(got).__name__)
    if type(orig) is float and math.isnan(orig):
        return None if math.isnan(got) else "%s: nan came back as %r" % (path, got)
    if got != orig or (type(orig) is float and repr(got) != repr(orig)):
        return "%s: %r came back as %r" % (path, orig, got)
    return None


def _kenc(k):
    try:
        return pyval.enc(k, canon=True)
    except pyval.Unencodable:
        return "unencodable:" + repr(k)


def norm(v):
    if isinstance(v, (list, tuple)):
        return [norm(x) for x in v]
    if isinstance(v, (set, frozenset)):
        return sorted((norm(x) for x in v), key=_kenc)
    if isinstance(v, dict):
        return dict((k, norm(x)) for k, x in v.items())
    return v


def snapshot(v, hook=None):
    """Deep, order-insensitive for dicts, type-exact."""
    try:
        return pyval.enc(v, hook, canon=True)
    except pyval.Unencodable:
        return "unencodable:" + repr(v)


def ident_map(v, acc=None):
    """ids of the mutable containers reachable from v with their snapshots (detects in-place conversion)."""
    acc = {} if acc is None else acc
    if isinstance(v, (list, dict, set)) and id(v) not in acc:
        acc[id(v)] = (type(v), len(v))
        for x in (v.values() if isinstance(v, dict) else v):
            ident_map(x, acc)
    elif isinstance(v, (tuple, frozenset)):
        for x in v:
            ident_map(x, acc)
    return acc


def jc_members(v, acc=None):
    """[(dict object, its "__jsonclass__" member object)] for every dict reachable from v that has the member."""
    acc = [] if acc is None else acc
    if isinstance(v, dict):
        if "__jsonclass__" in v:
            acc.append((v, v["__jsonclass__"]))
        for x in v.values():
            jc_members(x, acc)
    elif isinstance(v, (list, tuple, set, frozenset)):
        for x in v:
            jc_members(x, acc)
    return acc


def jc_identity_broken(members):
    """The first dict whose "__jsonclass__" member is no longer the very object it was (None when all are)."""
    for d, m in members:
        if "__jsonclass__" not in d:
            return "the member was removed from %r" % (d,)
        if d["__jsonclass__"] is not m:
            return "the member %r (%s) was replaced by %r (%s)" % (m, type(m).__name__, d["__jsonclass__"],
                                                                  type(d["__jsonclass__"]).__name__)
    return None


def kshape(v, depth=0):
    """Nesting of container kinds (key kinds for dicts), leaves by primitive type."""
    if isinstance(v, dict):
        ks = "s" if all(type(k) is str for k in v) else "x"
        inner = ",".join(kshape(x, depth + 1) for x in list(v.values())[:3]) if depth < 3 else ".."
        return "{%s%s}" % (ks, inner)
    if isinstance(v, (list, tuple, set, frozenset)):
        inner = ",".join(sorted(kshape(x, depth + 1) for x in list(v)[:3])) if depth < 3 else ".."
        return "%s(%s)" % (type(v).__name__[0], inner)
    return type(v).__name__[0]


def has_multiset(v):
    if isinstance(v, (set, frozenset)):
        return len(v) > 1 or any(has_multiset(x) for x in v)
    if isinstance(v, (list, tuple)):
        return any(has_multiset(x) for x in v)
    if isinstance(v, dict):
        return any(has_multiset(x) for x in v.values())
    return False


def sort_lists(tr):
    """Canonical emission with every list sorted (comparison of dumps of values containing sets)."""
    tag = tr[0]
    if tag in "LUEZ" and tag != "I":
        return ("L", sorted((sort_lists(x) for x in tr[1]), key=lambda t: pyval.emit(t, True)))
    if tag == "M":
        return ("M", [(k, sort_lists(x)) for k, x in tr[1]])
    if tag == "O":
        return ("O", tr[1], [(n, sort_lists(x)) for n, x in tr[2]])
    return tr


def loose(line):
    if line.startswith("ok "):
        return "ok " + pyval.emit(sort_lists(pyval.parse(line[3:])), True)
    return line


# ---- running the real code with observation of imports ----------------------------------------

class ImportLog(object):
    """Records `__import__` calls made from jsonclass.py while active."""

    def __init__(self):
        self.names = []
        self._orig = None

    def __enter__(self):
        self._orig = builtins.__import__
        log = self.names
        orig = self._orig
        import sys

        def spy(name, globals=None, locals=None, fromlist=(), level=0):
            try:
                fn = sys._getframe(1).f_code.co_filename
            except ValueError:
                fn = ""
            if fn.endswith("jsonclass.py"):
                log.append(name)
            return orig(name, globals, locals, fromlist, level)

        builtins.__import__ = spy
        return self

    def __exit__(self, *a):
        builtins.__import__ = self._orig


def run_load(arg, classes, env):
    """-> (canonical outcome, import attempts, snapshot of the argument afterwards)"""
    with ImportLog() as il:
        k, v = impl.outcome(JC.load, arg, classes)
    try:
        out = impl.canon_outcome(k, v, env.hook if env else None, keep_arg=())
    except pyval.Unencodable:
        out = "ok ?"
    return out, list(il.names), snapshot(arg, env.hook if env else None), (k, v)


def split_load_line(line):
    parts = line.split(" | ")
    if len(parts) != 3:
        return None
    return parts


def model_imports(logtext):
    tr = pyval.parse(logtext)
    return [e[1][1][1] for e in tr[1] if e[1][0][1] == "import"]


# ---- descriptors for the failure case --------------------------------------------------------

def c15_env():
    specs = [
        {"id": "D", "module": "jrvm_c15", "name": "DictBean", "bases": [], "slots": None, "kind": "bean",
         "own": [("pub", 1), ("_prot", [1, 2]), ("__priv", True)], "class_attrs": {"_ignore": ["pub", "nothing"]}},
        {"id": "S", "module": "jrvm_c15", "name": "SlotBean", "bases": [], "slots": ["a", "_b"], "kind": "bean",
         "own": [("a", 1), ("_b", "x")], "class_attrs": {}},
        {"id": "S2", "module": "jrvp_c15.sub", "name": "SlotChild", "bases": ["S"], "slots": ["c", "__d"], "kind": "bean",
         "own": [("c", None), ("__d", 2.5)], "class_attrs": {}},
        {"id": "Loc", "module": "__main__", "name": "LocalSlot", "bases": [], "slots": ["v"], "kind": "bean",
         "own": [("v", 0)], "class_attrs": {}},
        {"id": "Ser", "module": "jrvm_c15", "name": "Ser", "bases": [], "slots": None, "kind": "serial",
         "method": "_serialize", "by_dict": False, "params": ["p", "q"], "attrs": ["r"], "class_attrs": {}},
        {"id": "E", "module": "jrvm_c15", "name": "Colour", "bases": [], "slots": None, "kind": "enum",
         "members": [("BLUE", 1), ("RED", "r")], "class_attrs": {}},
        dict(jcenv.DEC_SPEC),
    ]
    return jcenv.Env(specs, extra_mods=["jrvm_c15_empty"])


NAMES_OK = ["jrvm_c15.DictBean", "jrvm_c15.SlotBean", "jrvp_c15.sub.SlotChild", "LocalSlot", "__main__.LocalSlot",
            "jrvm_c15.Ser", "jrvm_c15.Colour", "decimal.Decimal"]
NAMES_BAD = ["", "jrvm_c15.Nosuch9", "jrvm_nosuch9.Cls", "jrvm_c15_empty.Cls", "Nosuch9", ".x", "x.", "jrvm_c15..SlotBean",
             "jrvm c15.SlotBean", "jrvm_c15.SlotBean\n", "jrvm_c15.SlötBean", "jrvm-c15.SlotBean", "os;path", "a/b",
             "jrvm_c15.SlotBean ", "ａ.b", "jrvm_c15", "DictBean"]
PARAMS = [[], {}, [1], [1, 2], {"p": 1, "q": 2}, {"a": 1}, "s", None, 5, (1, 2), ["1.10"], ["r"], [3], [1, 2, 3]]
MALFORMED = [None, 5, 1.5, True, "", "a", "ab", [], ["jrvm_c15.SlotBean"], {}, {"a": 1}, [None, []], [0, []], [5, []],
             [["a"], []], [False, []], ["jrvm_c15.SlotBean"], ["", []], [[], []], [{"a": 1}, []], "jrvm_c15.SlotBean"]
ATTRS = {
    "jrvm_c15.DictBean": ["pub", "_prot", "new_attr", "_DictBean__priv"],
    "jrvm_c15.SlotBean": ["a", "_b", "nosuch", "c"],
    "jrvp_c15.sub.SlotChild": ["a", "_b", "c", "_SlotChild__d", "__d", "zz"],
    "LocalSlot": ["v", "w"], "__main__.LocalSlot": ["v", "w"],
    "jrvm_c15.Ser": ["r", "extra"],
}


def descriptor(rng, depth):
    """A dict with a `__jsonclass__` member: mostly well-formed, often failing somewhere."""
    r = rng.random()
    if r < 0.15:
        d = {"__jsonclass__": copy.deepcopy(rng.choice(MALFORMED))}
        if rng.random() < 0.5:
            d["a"] = gen.json_value(rng, 2, 1)
        return d
    name = rng.choice(NAMES_OK) if r < 0.75 else rng.choice(NAMES_BAD)
    if name in ATTRS:
        params = [] if rng.random() < 0.7 else copy.deepcopy(rng.choice(PARAMS))
        if name == "jrvm_c15.Ser" and rng.random() < 0.8:
            params = rng.choice([[1, [2]], {"p": "x", "q": None}])
    elif name == "jrvm_c15.Colour":
        params = rng.choice([[1], ["r"], [True], [1.0], [3], [], [[1]], [1, 2]])
    elif name == "decimal.Decimal":
        params = rng.choice([["1.10"], ["0"], ["-12.5"], []])
    else:
        params = copy.deepcopy(rng.choice(PARAMS))
    d = {}
    first = rng.random() < 0.6
    jc = descriptor_member(rng, name, params)
    if first:
        d["__jsonclass__"] = jc
    pool = ATTRS.get(name, ["x", "y"])
    for a in rng.sample(pool, rng.randint(0, min(3, len(pool)))):
        if depth > 0 and rng.random() < 0.3:
            d[a] = wrap(rng, descriptor(rng, depth - 1), depth - 1)
        else:
            d[a] = gen.json_value(rng, 3, 2)
    if rng.random() < 0.05:
        d[rng.choice([5, None, (1, 2)])] = 1  # non-string key: setattr raises TypeError
    if not first:
        d["__jsonclass__"] = jc
    return d


def descriptor_member(rng, name, params):
    """The "__jsonclass__" member: `[name, params]` mostly; load only reads [0] and [1], so a tuple, or a list / tuple
    with further items, is accepted just as well (and must be left exactly as it is)."""
    r = rng.random()
    if r < 0.6:
        return [name, params]
    if r < 0.75:
        return (name, params)
    if r < 0.87:
        return [name, params, "v2-extra"]
    if r < 0.95:
        return (name, params, None, {"more": [1]})
    return [name, params, [name, params]]


def wrap(rng, v, depth):
    r = rng.random()
    if depth <= 0 or r < 0.4:
        return v
    if r < 0.7:
        xs = [gen.json_value(rng, 2, 1) for _ in range(rng.randint(0, 2))]
        xs.insert(rng.randint(0, len(xs)), v)
        if rng.random() < 0.3:
            xs.append(descriptor(rng, 0))
        return wrap(rng, xs, depth - 1)
    d = {"before": gen.json_value(rng, 2, 1), "it": v}
    if rng.random() < 0.5:
        d["after"] = descriptor(rng, 0)
    return wrap(rng, d, depth - 1)


def systematic_descriptors():
    for m in MALFORMED:
        yield {"__jsonclass__": copy.deepcopy(m)}
        yield {"x": 1, "__jsonclass__": copy.deepcopy(m), "y": [1]}
    for n in NAMES_OK + NAMES_BAD:
        for p in PARAMS:
            yield {"__jsonclass__": [n, copy.deepcopy(p)]}
    for n in NAMES_OK + NAMES_BAD[:4]:
        for p in ([], {}, ["1.10"], [1], [1, [2]]):
            yield {"__jsonclass__": (n, copy.deepcopy(p))}
            yield {"a": 1, "__jsonclass__": [n, copy.deepcopy(p), "extra"], "r": [2]}
            yield [{"__jsonclass__": (n, copy.deepcopy(p), "extra", None)}]
    for n, attrs in ATTRS.items():
        for a in attrs:
            yield {"__jsonclass__": [n, []], a: [1, {"k": 2}]}
            yield {"z0": 1, a: 2, "__jsonclass__": [n, []]}
            yield [{"__jsonclass__": [n, []], "a": 0, a: {"__jsonclass__": ["jrvm_c15.SlotBean", []], "nosuch": 1}}, 5]
            yield {"outer": {"__jsonclass__": [n, []], a: {"__jsonclass__": ["jrvm_c15.DictBean", []], "pub": (1, 2)}}}


# ---- the check -------------------------------------------------------------------------------

def run(ctx):
    env = c15_env().install()
    try:
        _run(ctx, env)
    finally:
        env.uninstall()


def _run(ctx, env):
    ctx.rule = ("plain data: every nesting shape of depth<=2 / width<=2 over {list,tuple,set,frozenset,dict,dict with "
                "non-string keys} (thorough: plus depth-3 extensions) with leaves from a 12-value primitive pool, plus random "
                "larger values; descriptors: systematic cross product of class names x constructor arguments x attribute "
                "names x malformed shapes, plus random nested ones.  distinct_nontrivial = distinct (shape) of plain values "
                "with depth >= 2, and distinct (exception class, changed?) of failing loads")
    cfg = impl.jsonrpclib.config.Config()
    lean_cfg = pyval.enc(jcenv.lean_cfg("_serialize", "_ignore", []))
    world = env.enc(env.world())
    lean_env = env.enc(env.lean_classes())
    args_none = pyval.enc([None, None, None])

    plain = []
    s2 = shapes(2)
    if ctx.thorough:
        chosen = list(s2)
        deep = [t for t in s2 if shape_depth(t) == 2]
        for k in KINDS:
            for t in deep:
                chosen.append((k, (t,)))
        extra = ctx.rng.sample(deep, min(len(deep), 1500))
        for t in extra:
            k = ctx.rng.choice(KINDS)
            chosen.append((k, (t, ("P",))))
            chosen.append((k, (("P",), t)))
        ctx.exhaustive = not ctx.searching
        rotations = [0, 5]
    else:
        chosen = [t for t in s2 if shape_depth(t) <= 1] + ctx.rng.sample(s2, 350)
        rotations = [ctx.rng.randint(0, 11)]
    for t in chosen:
        for off in rotations:
            try:
                plain.append(("shape", build(t, leaf_stream(off))))
            except Unbuildable:
                ctx.hist["shape/unbuildable (unhashable set member)"] += 1
    for p in POOL + gen.EDGE_INTS + gen.EDGE_FLOATS + gen.EDGE_STRS + NONFINITE:
        plain.append(("leaf", p))
    for x in NONFINITE:
        plain.append(("nonfinite", [x, {"k": (x, 1.5)}, (x,)]))
    for _ in range(ctx.budget(1200, 6000)):
        plain.append(("random", random_plain(ctx.rng, ctx.rng.randint(2, 6), ctx.rng.randint(1, 5),
                                             nonfinite=0.05 if ctx.rng.random() < 0.1 else 0.0)))
    # wide containers of every kind (in-place conversion of "large" containers must not go unnoticed)
    for n in (9, 17, 64, 257):
        for mk in (list, tuple, set, frozenset):
            plain.append(("wide", mk((i, "s%d" % i) for i in range(n))))
        plain.append(("wide", dict(("k%d" % i, (i, [i])) for i in range(n))))
        plain.append(("wide", [[(j,) for j in range(n)], {"k": [set([j]) for j in range(n)]}]))

    lines = []
    expect = []

    nonfinite_cases = 0
    container_key_cases = 0
    for origin, v in plain:
        try:
            vtext = pyval.enc(v)
        except pyval.Unencodable:
            # NaN / +-Infinity: outside the float domain of the model (DESIGN 3.2) — the monitor runs all the same
            if not has_nonfinite(v):
                continue
            vtext = None
            nonfinite_cases += 1
        before = snapshot(v)
        ids_before = ident_map(v)
        k, d = impl.outcome(JC.dump, v, config=cfg)
        case = {"value": repr(v)[:300], "via": "dump", "value_enc": vtext, "value_py": repr(v) if vtext is None else None}
        if snapshot(v) != before or ident_map(v) != ids_before:
            ctx.violate(case, "dump modified its argument: %s -> %s" % (before[:200], snapshot(v)[:200]), key="dump-mutates")
        if k != "ok":
            ctx.violate(case, "dump raised %s on plain data" % type(d).__name__, key="dump-raises")
            continue
        prim_keys = primitive_keys(v)
        if not prim_keys:
            container_key_cases += 1
        m = only_json_nodes(d, keys=prim_keys)
        if m:
            ctx.violate(case, "dump output has a node that is not dict/list/primitive: " + m, key="dump-shape")
        if string_keys(v):
            try:
                back = json.loads(json.dumps(d))
                m2 = expect_equal(d, back, "json round trip of dump(v)")
                if m2:
                    ctx.violate(case, m2, key="json-roundtrip")
            except (TypeError, ValueError) as ex:
                ctx.violate(case, "dump output is not serialisable although keys are strings: %s" % ex, key="not-jsonable")
        dbefore = snapshot(d)
        dids = ident_map(d)
        k2, r = impl.outcome(JC.load, d)
        case2 = dict(case, dumped=repr(d)[:300], via="load")
        if snapshot(d) != dbefore or ident_map(d) != dids:
            ctx.violate(case2, "load modified its argument", key="load-mutates-plain")
        if k2 != "ok":
            ctx.violate(case2, "load(dump(v)) raised %s" % type(r).__name__, key="load-raises")
        else:
            m3 = expect_equal(v, r)
            if m3:
                ctx.violate(case2, m3, key="roundtrip:" + m3.split(":")[1][:30] if ":" in m3 else m3[:40])
        sd = kshape(v)
        if vtext is None:
            ctx.count(kind="plain/%s/nonfinite-float (monitor only)" % origin)
            continue
        # correspondence
        lines.append("jcdump %s %s %s %s" % (lean_cfg, lean_env, args_none, vtext))
        expect.append(("dump", has_multiset(v), impl.canon_outcome(k, d, keep_arg=())))
        lines.append("jcload L0 %s %s" % (world, pyval.enc(d)))
        expect.append(("load", False, (impl.canon_outcome(k2, r, keep_arg=()), [], snapshot(d))))
        ctx.count(case_repr={"value": repr(v)[:200], "dump": repr(d)[:200]} if origin not in ("leaf", "wide") else None,
                  nontrivial_key=("plain", vtext.split(" ")[0][0], sd) if isinstance(v, (list, tuple, dict, set, frozenset)) else None,
                  kind="plain/%s/%s" % (origin, type(v).__name__))
    ctx.extra["nonfinite_float_cases_monitor_only"] = nonfinite_cases
    ctx.extra["container_dict_key_cases"] = container_key_cases

    # dump with ignore lists: neither the `ignore` argument nor an object's own ignore list is modified
    for i in range(ctx.budget(60, 800)):
        rng = ctx.rng
        inst = env.cls["D"]()
        inst.pub = random_plain(rng, 2, 2)
        if rng.random() < 0.4:
            inst._ignore = rng.sample(["_prot", "pub", "_DictBean__priv", 5], rng.randint(0, 2))
        other = env.cls["S"]()
        v = rng.choice([inst, [inst, other, (1, inst)], {"k": inst, "o": other}, (other, [inst])])
        ig = rng.sample(["pub", "_prot", "a", 1, None, "zz", (1, 2), True], rng.randint(0, 3))
        ig_arg = ig if (ig or rng.random() < 0.5) else None
        try:
            vtext = env.enc(v)
        except pyval.Unencodable:
            continue
        snaps = (snapshot(ig), snapshot(env.cls["D"]._ignore), env.enc(v, canon=True))
        k, d = impl.outcome(JC.dump, v, None, None, ig_arg, cfg)
        after = (snapshot(ig), snapshot(env.cls["D"]._ignore), env.enc(v, canon=True))
        if after != snaps:
            what = ["the ignore argument", "the class's ignore list", "the dumped object"][[a != b for a, b in zip(snaps, after)].index(True)]
            ctx.violate({"value": repr(v)[:300], "ignore": repr(ig), "via": "dump with ignore lists"},
                        "dump modified %s: %s -> %s" % (what, snaps, after), key="dump-mutates-ignore")
        try:
            dexp = impl.canon_outcome(k, d, env.hook, keep_arg=())
        except pyval.Unencodable:
            continue
        lines.append("jcdump %s %s %s %s" % (lean_cfg, lean_env, pyval.enc([None, None, ig_arg]), vtext))
        expect.append(("dump", True, dexp))
        ctx.count(kind="dump-ignore/%s" % ("ok" if k == "ok" else type(d).__name__))

    # descriptors: purity on success and on failure
    descs = []
    sysd = list(systematic_descriptors())
    if ctx.thorough:
        descs.extend(("sys", x) for x in sysd)
    else:
        descs.extend(("sys", sysd[i]) for i in sorted(ctx.rng.sample(range(len(sysd)), 250)))
    for _ in range(ctx.budget(1500, 8000)):
        descs.append(("random", wrap(ctx.rng, descriptor(ctx.rng, 2), 2)))
    local_tables = [None, {"LocalSlot": env.cls["Loc"]}, {"LocalSlot": env.cls["Loc"], "DictBean": env.cls["D"]}]
    for origin, dsc in descs:
        classes = ctx.rng.choice(local_tables)
        try:
            dtext = pyval.enc(dsc)
        except pyval.Unencodable:
            continue
        before = snapshot(dsc)
        drepr = repr(dsc)[:600]
        members = jc_members(dsc)
        ids_before = ident_map(dsc)
        out, imports, after, (k, v) = run_load(dsc, classes, env)
        broken = jc_identity_broken(members)
        if after == before and (broken or ident_map(dsc) != ids_before):
            ctx.violate({"argument_enc": dtext, "argument_repr": drepr,
                         "classes": sorted(classes) if classes else None, "via": "load",
                         "outcome": out.split(" ")[0] + " " + (type(v).__name__ if k == "err" else "")},
                        "load replaced an object of its argument by an equal copy (%s): %s"
                        % ("it raised %s" % type(v).__name__ if k == "err" else "success", broken or "a container was rebuilt"),
                        key="load-replaces-member:" + ("fail" if k == "err" else "ok"))
        if after != before:
            ctx.violate({"argument_enc": dtext, "argument_repr": drepr,
                         "classes": sorted(classes) if classes else None, "via": "load",
                         "outcome": out.split(" ")[0] + " " + (type(v).__name__ if k == "err" else "")},
                        "load modified its argument (%s): %s -> %s" % ("it raised %s" % type(v).__name__ if k == "err" else "success",
                                                                        before[:300], after[:300]),
                        key="load-mutates:" + ("fail" if k == "err" else "ok"))
        ctab = pyval.enc([[n, env.ids[c]] for n, c in (classes or {}).items()])
        lines.append("jcload %s %s %s" % (ctab, world, dtext))
        expect.append(("load", False, (out, imports, after)))
        ctx.count(case_repr={"argument": repr(dsc)[:300], "outcome": out[:80]},
                  nontrivial_key=("desc", out.split(" ")[1] if k == "err" else "ok", origin) if k == "err" else None,
                  kind="descriptor/%s/%s" % (origin, ("raise " + type(v).__name__) if k == "err" else "ok"))

    outs = ctx.lean(lines)
    unmodelled = 0
    for ln, mo, (what, loose_cmp, exp) in zip(lines, outs, expect):
        if "err Unmodelled" in mo:
            unmodelled += 1
            continue
        if what == "dump":
            cm = impl.canon_model_line(mo, keep_arg=())
            if loose_cmp:
                cm, exp = loose(cm), loose(exp)
            if cm != exp:
                ctx.disagree(ln[:600], exp[:400], cm[:400], component="jcdump")
        else:
            parts = split_load_line(mo)
            if parts is None:
                ctx.disagree(ln[:600], str(exp)[:400], mo[:400], component="jcload")
                continue
            res = impl.canon_model_line(parts[0], keep_arg=())
            got = (res, model_imports(parts[1]), pyval.canon(parts[2]))
            if got != tuple(exp):
                ctx.disagree(ln[:600], repr(exp)[:600], repr(got)[:600], component="jcload")
    ctx.traces_validated += len(lines) - unmodelled
    ctx.extra["unmodelled_cases"] = unmodelled
    ctx.assumptions.append("Python's attribute model (__dict__, __slots__, name mangling), __import__/getattr and "
                           "inspect.getmodule are represented by the class environment handed to the model; the real classes "
                           "are generated from the same description (harness/jcenv.py)")
    ctx.assumptions.append("dump has no statement writing to its parameters: extracted (Generated.dumpNonFreshWrites) and "
                           "monitored by deep snapshots and identity maps (containers of up to a few hundred items); the model of "
                           "dump is therefore a function of the value")
    ctx.assumptions.append("NaN and +-Infinity are outside the float domain of the models (DESIGN 3.2): %d generated values "
                           "containing them were decided by the monitor alone" % ctx.extra.get("nonfinite_float_cases_monitor_only", 0))
    ctx.assumptions.append("the clause 'only dicts, lists and primitives' is checked on dict keys too when the keys of the input "
                           "are primitives; a key that is itself a tuple or a frozenset is kept as it is by dump (no JSON form "
                           "exists for it): %d such inputs" % ctx.extra.get("container_dict_key_cases", 0))


def replay(payload):
    case = payload.get("case") or {}
    print("replaying", json.dumps(case, default=repr)[:1000])
    env = c15_env().install()
    try:
        if not case.get("argument_enc"):
            return _replay_plain(case)
        arg = pyval.from_tree(pyval.parse(case["argument_enc"]))
        classes = None
        if case.get("classes"):
            classes = dict((n, env.cls["Loc" if n == "LocalSlot" else "D"]) for n in case["classes"])
        before = snapshot(arg)
        members = jc_members(arg)
        ids_before = ident_map(arg)
        k, v = impl.outcome(JC.load, arg, classes)
        print("load ->", k, repr(v)[:200])
        after = snapshot(arg)
        if before != after:
            print("VIOLATION reproduced: argument changed\n before %s\n after  %s" % (before, after))
            return 1
        broken = jc_identity_broken(members)
        if broken or ident_map(arg) != ids_before:
            print("VIOLATION reproduced: an object of the argument was replaced by an equal copy: %s" % (broken or "container rebuilt"))
            return 1
        print("argument unchanged")
        return 0
    finally:
        env.uninstall()


def _replay_plain(case):
    """A plain-data case: the value is stored in the codec (or, for NaN / Infinity, as a Python literal of floats)."""
    if case.get("value_enc"):
        v = pyval.from_tree(pyval.parse(case["value_enc"]))
    elif case.get("value_py"):
        v = eval(case["value_py"], {"__builtins__": {}}, {"inf": float("inf"), "nan": float("nan"), "frozenset": frozenset,
                                                          "set": set})
    else:
        print("no value recorded")
        return 0
    cfg = impl.jsonrpclib.config.Config()
    hit = 0
    before, ids_before = snapshot(v), ident_map(v)
    k, d = impl.outcome(JC.dump, v, config=cfg)
    print("dump ->", k, repr(d)[:300])
    if snapshot(v) != before or ident_map(v) != ids_before:
        print("VIOLATION reproduced: dump modified its argument: %s -> %s" % (before[:300], snapshot(v)[:300]))
        hit = 1
    if k != "ok":
        print("VIOLATION reproduced: dump raised on plain data")
        return 1
    m = only_json_nodes(d, keys=primitive_keys(v))
    if m:
        print("VIOLATION reproduced: " + m)
        hit = 1
    if string_keys(v):
        try:
            m2 = expect_equal(d, json.loads(json.dumps(d)), "json round trip of dump(v)")
        except (TypeError, ValueError) as ex:
            m2 = "not serialisable: %s" % ex
        if m2:
            print("VIOLATION reproduced: " + m2)
            hit = 1
    dbefore, dids = snapshot(d), ident_map(d)
    k2, r = impl.outcome(JC.load, d)
    print("load ->", k2, repr(r)[:300])
    if snapshot(d) != dbefore or ident_map(d) != dids:
        print("VIOLATION reproduced: load modified its argument")
        hit = 1
    m3 = ("load raised %s" % type(r).__name__) if k2 != "ok" else expect_equal(v, r)
    if m3:
        print("VIOLATION reproduced: " + m3)
        hit = 1
    if not hit:
        print("no violation")
    return hit
