"""
C16 — Future completion protocol: done / result / callback exactly once.

Model   : lean/JRV/Model/Future.lean (line-granular LTS: registrars, one executor, observers)
Theorems: lean/JRV/Properties/C16.lean (+ helper invariants in lean/JRV/Lemmas/Future.lean)
Tie     : (a) facts extracted from the source (tools/extractors/future.py: lock discipline of set_callback and of
          the `finally` of execute, statement order of EventData.set / raise_exception, containment in __notify)
          re-proved against the model's step table; (b) lockstep: the REAL FutureResult is run under a
          deterministic line-granular scheduler (harness/futsched.py); every real step is translated, through a
          label table built from the current source by AST shape, into model actions and the projections
          (private fields, lock owner, event flag, invocation log, logger records, results of finished calls)
          are compared after every step.
          Critical sections are compared at their boundaries: the three statements inside `with self.__lock`
          only touch attributes that (extracted fact) nobody reads outside the lock, so the harness feeds the
          model's critical-section steps when the real thread releases the lock and does not compare the three
          protected attributes while the real lock is held.  Reordering independent statements inside the
          critical section, renaming locals or adding local statements therefore raises no alarm.
Monitor : written from the property statement on what the real code did (callback invocations with their
          arguments, logger records, done()/result() outcomes, execute()'s outcome), ordered by the spans of the
          client calls.  Independent of the model.
"""
import hashlib
import json

import futsched as fs

REQUIRED_THEOREMS = [
    "C16_done_iff", "C16_done_after_stored", "C16_done_stable", "C16_not_done_before",
    "C16_wait_branches", "C16_result_consistent", "C16_result_same", "C16_result_before_completion",
    "C16_callback_once", "C16_callback_args", "C16_callback_in_force", "C16_callback_after_completion",
    "C16_callback_replaced_never", "C16_registration_sees_completion", "C16_contained", "C16_contained_progress",
    "C16_cs_labels", "C16_gen_futLockDiscipline", "C16_gen_futNotifyOutsideLock", "C16_gen_eventStoreOrder",
    "C16_gen_notifyContains", "C16_gen_executeShape", "C16_gen_waitGuard",
]

TIMED_WAIT = "timed-wait-raises-outcome"
KINDS = ["r", "x", "a"]
OUTCOMES = ["ret", "raise", "retnone"]


# --------------------------------------------------------------------------------------------
# Monitor (from the property text; evaluated on the real run only)


def monitor(run):
    """Returns a list of (key, detail)."""
    out = []
    prog = run.program
    outcome = prog.get("outcome")
    has_exec = outcome is not None
    D = "7" if outcome == "ret" else "N"
    X = "9" if outcome == "raise" else "N"
    kinds, extras, thread_of = {}, {}, {}
    for ti, (ids, calls) in enumerate(zip(run.reg_ids, prog.get("regs", []))):
        for rid, (kind, xnone) in zip(ids, calls):
            kinds[rid] = kind
            extras[rid] = "N" if xnone else str(fs.EXTRA_BASE + rid)
            thread_of[rid] = "R%d" % ti
    for e in run.errors:
        out.append(("harness-thread-error", e))
    if run.deadlock:
        out.append(("never-returns", "some call never returns: %s" % [
            (t.name, t.state[:2]) for t in run.ctrl.threads if not t.finished]))
        return out
    info = run.exec_info
    t_task = info.get("task_end")
    e_end = info.get("end")

    # ---- callback: exactly once per registration, right arguments, at the right moment
    n_inv = {}
    for (rid, d, x, extra, call, when, thread) in run.calls:
        n_inv[rid] = n_inv.get(rid, 0) + 1
        if not has_exec or t_task is None or when <= t_task:
            out.append(("callback-before-completion", "registration %d invoked before the task finished" % rid))
        if (d, x) != (D, X):
            out.append(("callback-args", "registration %d invoked with (result=%s, exception=%s), task outcome is (%s, %s)"
                        % (rid, d, x, D, X)))
        if extra != extras[rid]:
            out.append(("callback-stale-extra", "registration %d invoked with extra=%s, registered extra=%s"
                        % (rid, extra, extras[rid])))
    n_log = {}
    for (rid, cls, call, when, thread) in run.logged:
        n_log[rid] = n_log.get(rid, 0) + 1
        if rid is None or kinds.get(rid) not in ("x", "a"):
            out.append(("unexpected-log", "logger.exception called for %r (%s)" % (rid, cls)))
    for rid, kind in kinds.items():
        n = n_log.get(rid, 0) if kind == "a" else n_inv.get(rid, 0)   # a wrong-arity callable is seen via the log
        if n > 1:
            out.append(("callback-twice", "registration %d (%s) invoked %d times" % (rid, kind, n)))
        if kind == "x" and n_log.get(rid, 0) != n_inv.get(rid, 0):
            out.append(("callback-error-not-logged", "registration %d raised %d times, logged %d times"
                        % (rid, n_inv.get(rid, 0), n_log.get(rid, 0))))
        if kind == "n" and (n_inv.get(rid) or n_log.get(rid)):
            out.append(("callback-none-invoked", "registration %d has method None" % rid))
        span = run.reg_spans.get(rid)
        if span is None or span[1] is None:
            continue
        if span[2] is not None:
            out.append(("set-callback-raised", "set_callback of registration %d raised %s" % (rid, span[2])))
        if kind == "n":
            continue
        if not has_exec:
            if n:
                out.append(("callback-before-completion", "registration %d invoked, no task was ever executed" % rid))
            continue
        if e_end is None:
            continue
        start, end = span[0], span[1]
        others = [(r2, run.reg_spans[r2]) for r2 in kinds if r2 != rid and run.reg_spans.get(r2) and run.reg_spans[r2][1] is not None]
        # replaced before completion: another registration started after this one returned and itself returned
        # before the task finished
        replaced = any(end <= s2[0] and s2[1] <= t_task for _r2, s2 in others)
        if replaced and n:
            out.append(("callback-replaced-invoked", "registration %d was replaced before the task finished but was invoked" % rid))
        # unambiguous registrations: every other one is entirely before it, or entirely after execute() returned,
        # or this one is itself entirely after execute() returned
        after = start >= e_end
        unambiguous = after or all(s2[1] <= start or s2[0] >= e_end for _r2, s2 in others)
        if unambiguous and n != 1:
            out.append(("callback-lost" if n == 0 else "callback-twice",
                        "registration %d (%s, %s) invoked %d times, expected exactly once"
                        % (rid, kind, "after completion" if after else "in force at completion", n)))
        if n == 1:
            rec = [c for c in run.calls if c[0] == rid] if kind != "a" else [c for c in run.logged if c[0] == rid]
            when, thread = rec[0][-2], rec[0][-1]
            if after and not (thread == thread_of[rid] and start < when <= end):
                out.append(("callback-not-immediate", "registration %d made after completion was invoked by %s outside its set_callback call"
                            % (rid, thread)))
            if end <= t_task and thread != "E":
                out.append(("callback-wrong-thread", "registration %d made before completion was invoked by %s" % (rid, thread)))

    # ---- done() / result()
    known_done = None   # earliest moment at which some client has SEEN the completion
    if e_end is not None:
        known_done = e_end
    timed_out = {s.call for s in run.steps if "wait:F" in s.events}   # calls whose timed wait gave up
    for (oid, call, res, start, end, thread) in sorted(run.observations, key=lambda o: o[4]):
        shows = (call == "d" and res == "T") or (call != "d" and res != "OSError")
        if call != "d" and res != "OSError" and ("O%d" % oid) in timed_out:
            # "result(timeout) raises OSError once the timeout elapses"
            out.append((TIMED_WAIT, "result(timeout): the timed wait gave up (event not set, done() still False) "
                        "but result() %s instead of raising OSError" % ("raised the task's exception" if res.startswith("e") else "-> " + res)))
            continue
        before_task = (not has_exec) or t_task is None or end <= t_task
        if call == "d":
            if res not in ("T", "F"):
                out.append(("done-raised", "done() -> %s" % res))
            elif res == "T" and before_task:
                out.append(("done-early", "done() returned True before the task finished"))
            elif res == "F" and known_done is not None and start >= known_done:
                out.append(("done-false-after-completion", "done() returned False after completion had been observed"))
        else:
            if res == "OSError":
                if call == "b":
                    out.append(("result-timeout-without-timeout", "result(None) raised OSError"))
                if known_done is not None and start >= known_done:
                    out.append(("result-timeout-after-completion", "result() raised OSError after completion had been observed"))
            elif before_task:
                out.append(("result-early", "result() -> %s before the task finished" % res))
            elif res.startswith("v"):
                if outcome == "raise" or res[1:] != D:
                    out.append(("result-wrong-value", "result() returned %s, task outcome is (%s, %s)" % (res[1:], D, X)))
            elif res.startswith("e"):
                if outcome != "raise" or res[1:] != X:
                    out.append(("result-wrong-exception", "result() raised %s, task outcome is (%s, %s)" % (res, D, X)))
            else:
                out.append(("result-raised-other", "result() raised %s" % res))
        if shows and (known_done is None or end < known_done):
            known_done = end

    # ---- containment / progress of the worker
    if has_exec:
        if e_end is None:
            out.append(("execute-never-returns", "execute() did not return"))
        elif info.get("raised") != X:
            out.append(("execute-outcome", "execute() %s, the task %s" % (
                "returned normally" if info.get("raised") == "N" else "raised " + str(info.get("raised")),
                "returned" if X == "N" else "raised its exception")))
        want = (True, ("e" + X) if outcome == "raise" else ("v" + D))
        if run.final != want:
            out.append(("stored-outcome", "after the run done()/result() = %r, expected %r" % (run.final, want)))
    else:
        if run.final != (False, "OSError"):
            out.append(("stored-outcome", "no task executed but done()/result() = %r" % (run.final,)))
    return out


# --------------------------------------------------------------------------------------------
# Lockstep: real trace -> model actions -> compare projections

REG_CS = {"storeCb", "storeExtra", "readCompleted"}
EXEC_CS = {"setCompleted", "readCb", "readExtra"}
FIELDS = ("cb", "xt", "c", "l", "f", "d", "x")
PROTECTED = ("cb", "xt", "c")


def translate(run):
    """
    Returns (action tokens, checks) where checks = [(action index, step index, expected did, expected res, skipped
    fields)].  Two foldings keep the comparison robust against reordering of independent statements:
      * the statements inside `with self.__lock` are fed to the model when the real thread releases the lock, and
        the protected attributes (cb, xt, c) are not compared while the real lock is held;
      * the stores of EventData.set / raise_exception are fed when the real thread executes `self.__event.set()`,
        and `d`, `x` are not compared in between (nobody reads them before the flag is up: C16_done_after_stored,
        waitGuard).
    """
    prog = run.program
    acts, checks = [], []
    in_cs = {}     # thread name -> labels executed inside the critical section so far
    stores = []    # labels of the executor's pending stores (before event.set())
    for si, st in enumerate(run.steps):
        for ent in st.enter:
            if ent[0] == "R":
                acts.append("R%d=%s,%s" % (ent[1], ent[2], ent[3]))
            elif ent[0] == "O":
                acts.append("O%d=%s" % (ent[1], ent[2]))
        if st.void:
            continue
        call = st.call or "?"
        role = call[0]
        res = "-"
        for e in st.ended:
            if e[0] == "O" and call == "O%d" % e[1]:
                res = e[2]
            if e[0] == "E" and call == "E":
                res = e[1]
        step_tok = {"E": "e", "R": "r" + call[1:], "O": "o" + call[1:]}.get(role, "?")
        label = st.label
        cs = REG_CS if role == "R" else EXEC_CS
        skip = ()

        def check(did):
            sk = tuple(PROTECTED) if st.proj["l"] != "N" else ()
            if stores:
                sk += ("d", "x")
            checks.append((len(acts) - 1, si, did, res, sk))
        if label == "lock" and "acq" in st.events:
            in_cs[st.thread] = []
            acts.append(step_tok)
            check("acq")
        elif label == "lock" and "rel" in st.events and st.thread in in_cs:
            body = in_cs.pop(st.thread)
            for _ in body:
                acts.append(step_tok)
            acts.append(step_tok)
            check("rel" if sorted(body) == sorted(cs) else "rel(critical section is %s)" % ",".join(body))
        elif st.thread in in_cs and label in cs:
            in_cs[st.thread].append(label)          # folded: fed to the model at the release
        elif role == "E" and label in ("sData", "sExc") and st.thread not in in_cs:
            stores.append(label)                    # folded: fed to the model at event.set()
        elif role == "E" and label == "sEvt":
            body, stores = stores, []
            for _ in body:
                acts.append(step_tok)
            acts.append(step_tok)
            check("sEvt" if sorted(body) == ["sData", "sExc"] else "sEvt(stores before it: %s)" % ",".join(body))
        elif label == "call" and role == "E":
            o = prog["outcome"]
            acts.append("E=e%d" % fs.EXC_OBJ if o == "raise" else ("E=v%d" % fs.RET_OBJ if o == "ret" else "E=vN"))
            check("enter")
        elif label == "wait" or label == "parked:event":
            if "wait:F" in st.events:
                acts.append("t" + call[1:])
                check("timeout")
            else:
                acts.append(step_tok)
                check("wait")
        elif label == "parked:lock":
            acts.append(step_tok)
            in_cs[st.thread] = []
            check("acq")
        else:
            acts.append(step_tok)
            check(label)
    return acts, checks


def real_log(run, st):
    calls = run.calls[:st.proj["calls"]]
    logged = run.logged[:st.proj["logged"]]
    log = ",".join("%d:%s:%s:%s:%s" % (c[0], c[4], c[1], c[2], c[3]) for c in calls)
    errs = ",".join("%s:%s" % (c[0], "T" if c[1] == "TypeError" else "E") for c in logged)
    return log, errs


def parse_proj(text):
    parts = text.split(";")
    d = {"did": parts[0]}
    for p in parts[1:]:
        k, _, v = p.partition("=")
        d[k] = v
    ents = []
    for e in [x for x in d.get("log", "").split(",") if x]:
        rid, kind, caller, da, ex, xt = e.split(":")
        if kind != "a":   # the body of a wrong-arity callable never runs: visible through `errs` only
            ents.append("%s:%s:%s:%s:%s" % (rid, caller, da, ex, xt))
    d["log"] = ",".join(ents)
    return d


def compare(run, checks, out_line):
    """First difference between the model's projections and the real ones, or None."""
    projs = out_line.split(" | ")
    for (ai, si, did, res, skip) in checks:
        st = run.steps[si]
        where = "step %d (%s %s line %s)" % (si, st.thread, st.label, st.line)
        if ai >= len(projs) or projs[ai] in ("stuck", "bad-op"):
            last = projs[-1] if projs else ""
            return where, "real code executed %s" % st.label, "model: action not enabled (%s)" % last
        m = parse_proj(projs[ai])
        log, errs = real_log(run, st)
        real = dict(st.proj)
        real.update({"did": did, "log": log, "errs": errs, "res": res})
        keys = ["did"] + list(FIELDS) + ["log", "errs", "res"]
        keys = [k for k in keys if k not in skip]
        diff = [k for k in keys if str(real.get(k)) != str(m.get(k))]
        if diff:
            return (where, {k: real.get(k) for k in diff}, {k: m.get(k) for k in diff})
    return None


# --------------------------------------------------------------------------------------------
# Programs


def prog(outcome, regs, obs=()):
    return {"outcome": outcome, "regs": [list(map(tuple, r)) for r in regs], "obs": [list(o) for o in obs]}


def exhaustive_programs(thorough):
    """One registrar against one executor (and one observer): every interleaving."""
    ps = []
    for o in ["ret", "raise"]:
        for k in KINDS:
            ps.append(prog(o, [[(k, False)]]))
    ps.append(prog("retnone", [[("r", True)]]))
    ps.append(prog("ret", [[("n", False)]]))
    for o in ["ret", "raise"]:
        for call in ["d", "t", "b"]:
            ps.append(prog(o, [], [[call]]))
        ps.append(prog(o, [], [["t", "d"]]))
        ps.append(prog(o, [], [["d", "t"]]))
    ps.append(prog(None, [[("r", False)]], [["d", "t"]]))
    if thorough:
        for o in ["ret", "raise"]:
            ps.append(prog(o, [], [["t", "d", "t"]]))
            ps.append(prog(o, [], [["d", "b", "d"]]))
            for k in KINDS:
                for call in ["d", "t", "b"]:
                    ps.append(prog(o, [[(k, False)]], [[call]]))
        ps.append(prog("ret", [[("r", False), ("x", False)]]))        # re-registration by the same client
        ps.append(prog("raise", [[("x", True), ("r", False)]]))
    return ps


def bounded_programs(thorough):
    """Re-registration, two or three registrars / observers: every schedule with at most two preemptions."""
    ps = [
        prog("ret", [[("r", False), ("x", False)]]),
        prog("raise", [[("x", True), ("r", False)]]),
        prog("raise", [], [["t", "d", "t"]]),
        prog("ret", [], [["d", "b", "d"]]),
        prog("ret", [[("r", False)]], [["d"]]),
        prog("raise", [[("x", False)]], [["t"]]),
        prog("ret", [[("a", False)]], [["b"]]),
        prog("ret", [[("r", False)], [("r", False)]]),
        prog("raise", [[("r", False)], [("x", True)]]),
        prog("ret", [[("r", False), ("r", False)], [("a", False)]]),
        prog("ret", [], [["t"], ["d", "b"]]),
    ]
    if thorough:
        ps += [
            prog("ret", [[("x", False)], [("a", False)]]),
            prog("raise", [[("r", False)], [("r", False)]], [["t", "d"]]),
            prog("ret", [[("r", False)], [("x", False)], [("a", False)]]),
            prog("raise", [[("a", False), ("r", False)], [("n", False)]], [["b"]]),
            prog("ret", [[("r", False)], [("n", False)], [("r", True)]], [["d"]]),
            prog("raise", [[("x", False)]], [["t"], ["d"], ["b"]]),
        ]
    return ps


def random_program(rng):
    regs = []
    for _ in range(rng.randint(1, 4)):
        regs.append([(rng.choice(["r", "r", "x", "a", "n"]), rng.random() < 0.2) for _ in range(rng.choice([1, 1, 2, 3]))])
    obs = []
    for _ in range(rng.randint(0, 3)):
        obs.append([rng.choice(["d", "t", "t", "b"]) for _ in range(rng.choice([1, 2, 3]))])
    outcome = rng.choice(OUTCOMES + ["ret", "raise"])
    if rng.random() < 0.06:
        outcome = None
        obs = [[c if c != "b" else "t" for c in o] for o in obs]
    return prog(outcome, regs, obs)


# --------------------------------------------------------------------------------------------
# The check


class Light(object):
    """What `compare` needs of a run (the Run itself holds threads and is dropped at once)."""

    def __init__(self, run):
        self.steps = run.steps
        self.calls = run.calls
        self.logged = run.logged


class Collector(object):
    def __init__(self, ctx, model=True):
        self.ctx = ctx
        self.model = model
        self.table = fs.build_table()
        self.codes = fs.traced_codes()
        self.lines = []       # model lines
        self.pending = []     # (program, choices, checks, run summary)
        self.violation = None
        self.n_bad = 0

    def on_run(self, run, kind):
        ctx = self.ctx
        hits = monitor(run)
        acts, checks = translate(run)
        labels = tuple((s.call, s.label) for s in run.steps)
        ctx.count({"program": run.program, "schedule": "".join(run.choices)[:120]} if len(ctx.samples) < 4 else None,
                  nontrivial_key=hashlib.md5(repr(labels).encode()).hexdigest(), kind=kind)
        ctx.hist["outcome:%s" % run.program.get("outcome")] += 1
        ctx.hist["steps"] += len(run.steps)
        for (_rid, _d, _x, _xt, call, _w, _t) in run.calls:
            ctx.hist["invoked-by:%s" % ("executor" if call == "E" else "registrar")] += 1
        for o in run.observations:
            ctx.hist["obs:%s->%s" % (o[1], o[2] if not o[2].startswith("v") else "value")] += 1
        if hits and self.violation is None:
            self.violation = (run, hits)
        if self.model:
            self.lines.append("fut " + " ".join(acts))
            self.pending.append((run.program, list(run.choices), checks, Light(run)))
            if len(self.lines) >= 4000:
                self.flush()
        return bool(hits)

    def flush(self):
        """One model call for everything collected so far; records disagreements."""
        ctx = self.ctx
        if not self.lines:
            return
        outs = ctx.lean(self.lines)
        n_bad = self.n_bad
        for (program, choices, checks, run), out in zip(self.pending, outs):
            diff = compare(run, checks, out)
            ctx.traces_validated += 1
            if diff is not None:
                n_bad += 1
                if n_bad <= 3:
                    ctx.disagree({"program": program, "schedule": choices, "at": diff[0]}, diff[1], diff[2], "fut")
        self.n_bad = n_bad
        self.lines, self.pending = [], []


def report_violation(ctx, col, which=None):
    run, hits = which or col.violation
    key = hits[0][0]

    def fails(r):
        return any(k == key for k, _ in monitor(r))
    sched, small = fs.shrink(run.program, run.choices, fails, col.table, col.codes)
    hits = monitor(small) if any(h[0] == key for h in monitor(small)) else hits
    case = {
        "program": small.program,
        "schedule": sched,
        "full_schedule": small.choices,
        "trace": ["%s %s line %s%s" % (s.call, s.label, s.line, (" " + ",".join(s.events)) if s.events else "") for s in small.steps],
        "invocations": [list(c) for c in small.calls],
        "logged": [list(c) for c in small.logged],
        "observations": [list(o) for o in small.observations],
        "execute": small.exec_info,
        "repo": fs.impl.REPO,
    }
    for k, d in hits[:6]:
        ctx.violate(case, d, k)


def run(ctx):
    col = Collector(ctx)
    thorough = ctx.thorough
    ctx.rule = ("distinct sequence of (client call, executed source-line label) over the whole schedule; "
                "each evaluation is one complete execution of the real FutureResult under one schedule")
    unknown = sorted({l.text for l in col.table.values() if l.kind == "unknown" and "EventData.clear" not in l.text})
    if unknown:
        ctx.disagree({"source": "label table"}, "statements touching private attributes in an unknown shape: %s" % unknown,
                     "no corresponding model step", "fut")
    import time
    t0 = time.time()
    # exploration is budgeted by counts (deterministic for a seed); the wall-clock limits only guard a loaded machine
    t_exh, t_bnd, t_rnd = (25, 20, 15) if not thorough else (300, 120, 100)   # safety nets; the budgets below are counts

    def timed(kind, deadline):
        def f(r):
            return col.on_run(r, kind) or time.time() > deadline
        return f
    all_exhausted = True
    small_exhausted = True
    progs = exhaustive_programs(thorough)
    for k, p in enumerate(progs):
        # the one-registrar-one-executor programs come first and are small (127 schedules each)
        deadline = t0 + t_exh
        n, done = fs.explore(p, timed("exhaustive", deadline), None, ctx.budget(1200, 3000), col.table, col.codes)
        done = done and time.time() <= deadline
        all_exhausted = all_exhausted and done
        if k < 8:
            small_exhausted = small_exhausted and done
        ctx.hist["exhaustive-program-%s" % ("exhausted" if done else "truncated")] += 1
        if col.violation or time.time() > deadline:
            break
    ctx.extra["exhaustive_one_registrar_one_executor"] = small_exhausted
    ctx.extra["exhaustive_all_listed_programs"] = all_exhausted and not col.violation
    if not col.violation:
        deadline = time.time() + t_bnd
        for p in bounded_programs(thorough):
            n, done = fs.explore(p, timed("preemptions<=2", deadline), 2, ctx.budget(350, 2500), col.table, col.codes)
            ctx.hist["bounded-exhausted" if done and time.time() <= deadline else "bounded-truncated"] += 1
            if col.violation or time.time() > deadline:
                break
    if not col.violation:
        rng = ctx.derive_rng("random")
        deadline = time.time() + t_rnd
        for i in range(ctx.budget(300, 6000)):
            p = random_program(rng)
            r = fs.Run(p, col.table, col.codes).execute(fs.random_chooser(rng, rng.choice([0.3, 0.6, 0.85])))
            if col.on_run(r, "random") or (thorough and time.time() > deadline):
                break
    ctx.exhaustive = False
    col.flush()
    if col.violation:
        report_violation(ctx, col)
    ctx.assumptions.append(
        "C16: CPython executes one source line of the traced methods atomically with respect to the scheduler "
        "(sys.settrace line events are the finest interleaving considered); threading.Lock / threading.Event are "
        "replaced by cooperative shims during exploration (mutual exclusion, flag, wait) — their CPython "
        "implementations are modelled, not verified; a timed wait may give up at any scheduling point at which "
        "the event is clear")
    ctx.assumptions.append(
        "C16: tasks raise Exception subclasses only (a task raising a bare BaseException leaves the future "
        "not done and is outside the property's domain); callbacks raise Exception subclasses only")


def search(ctx):
    """The tie is broken (obligation or lockstep): look harder for a failing input on the real code (no model)."""
    import time
    col = Collector(ctx, model=False)
    deadline = time.time() + 150

    def on(kind):
        def f(r):
            return col.on_run(r, kind) or time.time() > deadline
        return f
    for p in exhaustive_programs(True):
        fs.explore(p, on("search-exhaustive"), None, 20000, col.table, col.codes)
        if col.violation or time.time() > deadline:
            break
    if not col.violation:
        for p in bounded_programs(True):
            fs.explore(p, on("search-bounded"), 3, 4000, col.table, col.codes)
            if col.violation or time.time() > deadline:
                break
    if not col.violation:
        rng = ctx.derive_rng("search")
        while time.time() < deadline + 30:
            p = random_program(rng)
            r = fs.Run(p, col.table, col.codes).execute(fs.random_chooser(rng, rng.choice([0.3, 0.6, 0.85])))
            if col.on_run(r, "search-random"):
                break
    if col.violation:
        report_violation(ctx, col)


def replay(payload):
    case = payload.get("case") or {}
    program = case.get("program")
    if not program:
        print(json.dumps(payload, indent=1)[:4000])
        return 2
    program = prog(program.get("outcome"), program.get("regs", []), program.get("obs", []))
    r = fs.Run(program).execute(fs.default_chooser(case.get("full_schedule") or case.get("schedule") or []))
    print("program : %s" % json.dumps(program))
    print("schedule: %s" % " ".join(r.choices))
    for i, s in enumerate(r.steps):
        print("  %3d %-3s %-14s line %-4s %s" % (i, s.call, s.label, s.line, ",".join(s.events)))
    print("invocations (registration, result, exception, extra, during call, step): %s" % [c[:6] for c in r.calls])
    print("logger.exception records: %s" % [c[:4] for c in r.logged])
    print("observations (id, call, outcome, start, end): %s" % [o[:5] for o in r.observations])
    print("execute: %s   final done()/result(): %s" % (r.exec_info, r.final))
    hits = monitor(r)
    for k, d in hits:
        print("VIOLATED %s: %s" % (k, d))
    if not hits:
        print("no violation on this tree")
    return 1 if hits else 0
