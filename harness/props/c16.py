"""
C16 — Future completion protocol: done / result / callback exactly once.

Model   : lean/JRV/Model/Future.lean (line-granular LTS: registrars, one executor, observers)
Theorems: lean/JRV/Properties/C16.lean (+ helper invariants in lean/JRV/Lemmas/Future.lean); companions of the
          extracted facts in lean/JRV/Properties/C16Gen.lean (built and audited separately by harness/core.py)
Tie     : (a) facts extracted from the source (tools/extractors/future.py: lock discipline of set_callback and of
          the `finally` of execute, statement order of EventData.set / raise_exception, containment in __notify,
          the guard of __notify is `is not None` and not truthiness, the timeout of result() is forwarded
          unchanged) re-proved against the model's step table; (b) lockstep: the REAL FutureResult is run under a
          deterministic line-granular scheduler (harness/futsched.py); every real step is translated, through a
          label table built from the current source by AST shape (and, for the calls of the registered callable
          and of logger.exception, through a CALL hook that fires when the callee is really called, whatever the
          layout of the source), into model actions and the projections (private fields, lock owner, event flag,
          invocation log, logger records, results of finished calls) are compared after every step.
          Critical sections are compared at their boundaries: the three statements inside `with self.__lock`
          only touch attributes that (extracted fact) nobody reads outside the lock, so the harness feeds the
          model's critical-section steps when the real thread releases the lock and does not compare the three
          protected attributes while the real lock is held.  Reordering independent statements inside the
          critical section, renaming locals, adding local statements, re-formatting a call or hoisting
          `self._done_event` into a local therefore raise no alarm.
Inputs  : task outcomes (an object(), None, 0, "", a fresh [], False; TaskError, exceptions with empty args / falsy
          __bool__ / __len__ 0, an OSError), `extra` values (a per-registration tuple, None, 0, "", (), False),
          callables (function, functools.partial, callable instance, instances with __bool__ False / __len__ 0,
          with and without __name__; returning, raising, of wrong arity; set_callback(None), also as a
          re-registration), observers done() / result(0.01) / result(0) / result(0.0) / result(None).
          HOSTILE exception objects (harness/hostile.py: `__str__` / `__repr__` / `__format__` / `args` / `__bool__` /
          `__eq__` / `__hash__` raising, `__str__` returning None, 1 MiB and format-directive / lone-surrogate messages,
          classes with required constructor arguments) raised BY THE CALLBACK (registration `(x, extra, form, <kind>)`)
          and by the task (outcome `raiseH_<kind>`): every kind in every run, registered before and after completion
          (`hostile_programs`), in the random programs, and exhaustively interleaved in the thorough tier.
          Every object is identified BY IDENTITY (futsched.Run.tok); the harness never asks for a truth value, a string,
          a hash or an equality of any of them.
Monitor : written from the property statement on what the real code did (callback invocations with their
          arguments, logger records, done()/result() outcomes, execute()'s outcome, a result(timeout) call that
          sits in an untimed wait), ordered by the spans of the client calls.  Independent of the model.
"""
import hashlib
import json

import futsched as fs
import hostile

REQUIRED_THEOREMS = [
    "C16_done_iff", "C16_done_after_stored", "C16_done_stable", "C16_not_done_before",
    "C16_wait_branches", "C16_result_consistent", "C16_result_same", "C16_result_before_completion",
    "C16_callback_once", "C16_callback_args", "C16_callback_in_force", "C16_callback_after_completion",
    "C16_callback_replaced_never", "C16_registration_sees_completion", "C16_contained", "C16_contained_progress",
    "C16_cs_labels", "C16_notify_guard",
    # companions of the extracted facts: lean/JRV/Properties/C16Gen.lean (built and audited separately)
    "C16_gen_futLockDiscipline", "C16_gen_futNotifyOutsideLock", "C16_gen_eventStoreOrder",
    "C16_gen_notifyContains", "C16_gen_executeShape", "C16_gen_waitGuard", "C16_gen_notifyGuard",
    "C16_gen_waitTimeoutForwarded", "C16_gen_futNotifyLogsExcOpaque",
]

TIMED_WAIT = "timed-wait-raises-outcome"
KINDS = ["r", "x", "a"]
OUTCOMES = ["ret", "raise", "retnone"]
FALSY_RET = ["ret0", "retempty", "retlist", "retfalse"]
ODD_RAISE = ["raisenoargs", "raisefalsy", "raiselen", "raiseos"]
FALSY_EXTRA = ["0", "s", "u", "F"]
TIMED = set(fs.TIMED_CALLS)        # result(timeout) with a finite timeout: "t" 0.01, "z" 0, "Z" 0.0


# --------------------------------------------------------------------------------------------
# Monitor (from the property text; evaluated on the real run only)


def monitor(run):
    """Returns a list of (key, detail)."""
    out = []
    prog = run.program
    outcome = prog.get("outcome")
    has_exec = outcome is not None
    raises = outcome in fs.OUTCOMES_RAISE
    # identities of the very objects the task returns / raises and of each registration's `extra`
    D = run.tok(run.ret_obj)
    X = run.tok(run.exc_obj)
    kinds, extras, thread_of = {}, {}, {}
    for ti, ids in enumerate(run.reg_ids):
        for rid in ids:
            kinds[rid] = run.regs[rid][0]
            extras[rid] = run.tok(run.extras.get(rid))
            thread_of[rid] = "R%d" % ti
    for e in run.errors:
        out.append(("harness-thread-error", e))
    for (call, timeout, when, thread) in run.blocked:
        # "result(timeout) raises OSError once the timeout elapses": a call that was given a finite timeout and
        # sits in a wait WITHOUT timeout on the clear event can never do that (result(0) must not block at all)
        out.append(("result-blocks-despite-timeout", "result(%r) by %s blocks in an untimed wait on the unfinished task: "
                    "it can only return when the task finishes, never raise OSError" % (timeout, thread)))
    if run.deadlock:
        out.append(("never-returns", "some call never returns: %s" % [
            (t.name, t.state[:2]) for t in run.ctrl.threads if not t.finished]))
        return out
    info = run.exec_info
    t_task = info.get("task_end")
    e_end = info.get("end")

    # ---- callback: exactly once per registration, right arguments, at the right moment
    n_inv = {}
    for (rid, d, x, extra, call, when, thread) in run.calls:
        n_inv[rid] = n_inv.get(rid, 0) + 1
        if not has_exec or t_task is None or when <= t_task:
            out.append(("callback-before-completion", "registration %d invoked before the task finished" % rid))
        if (d, x) != (D, X):
            out.append(("callback-args", "registration %d invoked with (result=%s, exception=%s), task outcome is (%s, %s)"
                        % (rid, d, x, D, X)))
        if extra != extras[rid]:
            out.append(("callback-stale-extra", "registration %d invoked with extra=%s, registered extra=%s"
                        % (rid, extra, extras[rid])))
    n_log = {}
    for (rid, cls, call, when, thread) in run.logged:
        n_log[rid] = n_log.get(rid, 0) + 1
        if rid is None or kinds.get(rid) not in ("x", "a"):
            out.append(("unexpected-log", "logger.exception called for %r (%s)" % (rid, cls)))
    n_att = {}
    for (rid, call, when, thread) in run.attempted:
        n_att[rid] = n_att.get(rid, 0) + 1
    for rid, kind in kinds.items():
        # a wrong-arity callable has no body that could run: it is seen through the attempted calls (CALL hook)
        # and through the log of the TypeError
        n = max(n_att.get(rid, 0), n_log.get(rid, 0)) if kind == "a" else n_inv.get(rid, 0)
        if n > 1:
            out.append(("callback-twice", "registration %d (%s) invoked %d times" % (rid, kind, n)))
        if kind == "x" and n_log.get(rid, 0) != n_inv.get(rid, 0):
            out.append(("callback-error-not-logged", "registration %d raised %d times, logged %d times"
                        % (rid, n_inv.get(rid, 0), n_log.get(rid, 0))))
        if kind == "n" and (n_inv.get(rid) or n_log.get(rid)):
            out.append(("callback-none-invoked", "registration %d has method None" % rid))
        span = run.reg_spans.get(rid)
        if span is None or span[1] is None:
            continue
        if span[2] is not None:
            out.append(("set-callback-raised", "set_callback of registration %d raised %s" % (rid, span[2])))
        if kind == "n":
            continue
        if not has_exec:
            if n:
                out.append(("callback-before-completion", "registration %d invoked, no task was ever executed" % rid))
            continue
        if e_end is None:
            continue
        start, end = span[0], span[1]
        others = [(r2, run.reg_spans[r2]) for r2 in kinds if r2 != rid and run.reg_spans.get(r2) and run.reg_spans[r2][1] is not None]
        # replaced before completion: another registration started after this one returned and itself returned
        # before the task finished
        replaced = any(end <= s2[0] and s2[1] <= t_task for _r2, s2 in others)
        if replaced and n:
            out.append(("callback-replaced-invoked", "registration %d was replaced before the task finished but was invoked" % rid))
        # unambiguous registrations: every other one is entirely before it, or entirely after execute() returned,
        # or this one is itself entirely after execute() returned
        after = start >= e_end
        unambiguous = after or all(s2[1] <= start or s2[0] >= e_end for _r2, s2 in others)
        if unambiguous and n != 1:
            out.append(("callback-lost" if n == 0 else "callback-twice",
                        "registration %d (%s, %s) invoked %d times, expected exactly once"
                        % (rid, kind, "after completion" if after else "in force at completion", n)))
        if n == 1:
            rec = [c for c in run.calls if c[0] == rid] if kind != "a" else \
                ([c for c in run.attempted if c[0] == rid] or [c for c in run.logged if c[0] == rid])
            when, thread = rec[0][-2], rec[0][-1]
            if after and not (thread == thread_of[rid] and start < when <= end):
                out.append(("callback-not-immediate", "registration %d made after completion was invoked by %s outside its set_callback call"
                            % (rid, thread)))
            if end <= t_task and thread != "E":
                out.append(("callback-wrong-thread", "registration %d made before completion was invoked by %s" % (rid, thread)))

    # ---- done() / result()
    known_done = None   # earliest moment at which some client has SEEN the completion
    if e_end is not None:
        known_done = e_end
    timed_out = {s.call for s in run.steps if "wait:F" in s.events}   # calls whose timed wait gave up
    for (oid, call, res, start, end, thread) in sorted(run.observations, key=lambda o: o[4]):
        shows = (call == "d" and res == "T") or (call != "d" and res != "OSError")
        if call != "d" and res != "OSError" and ("O%d" % oid) in timed_out:
            # "result(timeout) raises OSError once the timeout elapses"
            out.append((TIMED_WAIT, "result(timeout): the timed wait gave up (event not set, done() still False) "
                        "but result() %s instead of raising OSError" % ("raised the task's exception" if res.startswith("e") else "-> " + res)))
            continue
        before_task = (not has_exec) or t_task is None or end <= t_task
        if call == "d":
            if res not in ("T", "F"):
                out.append(("done-raised", "done() -> %s" % res))
            elif res == "T" and before_task:
                out.append(("done-early", "done() returned True before the task finished"))
            elif res == "F" and known_done is not None and start >= known_done:
                out.append(("done-false-after-completion", "done() returned False after completion had been observed"))
        else:
            if res == "OSError":
                if call == "b":
                    out.append(("result-timeout-without-timeout", "result(None) raised OSError"))
                if known_done is not None and start >= known_done:
                    out.append(("result-timeout-after-completion", "result() raised OSError after completion had been observed"))
            elif before_task:
                out.append(("result-early", "result() -> %s before the task finished" % res))
            elif res.startswith("v"):
                if raises or res[1:] != D:
                    out.append(("result-wrong-value", "result() returned %s, task outcome is (%s, %s)" % (res[1:], D, X)))
            elif res.startswith("e"):
                if not raises or res[1:] != X:
                    out.append(("result-wrong-exception", "result() raised %s, task outcome is (%s, %s)" % (res, D, X)))
            else:
                out.append(("result-raised-other", "result() raised %s" % res))
        if shows and (known_done is None or end < known_done):
            known_done = end

    # ---- containment / progress of the worker
    if has_exec:
        if e_end is None:
            out.append(("execute-never-returns", "execute() did not return"))
        elif info.get("raised") != X:
            out.append(("execute-outcome", "execute() %s, the task %s" % (
                "returned normally" if info.get("raised") == "N" else "raised " + str(info.get("raised")),
                "returned" if X == "N" else "raised its exception")))
        want = (True, ("e" + X) if raises else ("v" + D))
        if run.final != want:
            out.append(("stored-outcome", "after the run done()/result() = %r, expected %r" % (run.final, want)))
    else:
        if run.final != (False, "OSError"):
            out.append(("stored-outcome", "no task executed but done()/result() = %r" % (run.final,)))
    return out


# --------------------------------------------------------------------------------------------
# Lockstep: real trace -> model actions -> compare projections

REG_CS = {"storeCb", "storeExtra", "readCompleted"}
EXEC_CS = {"setCompleted", "readCb", "readExtra"}
FIELDS = ("cb", "xt", "c", "l", "f", "d", "x")
PROTECTED = ("cb", "xt", "c")


def translate(run):
    """
    Returns (action tokens, checks) where checks = [(action index, step index, expected did, expected res, skipped
    fields)].  Two foldings keep the comparison robust against reordering of independent statements:
      * the statements inside `with self.__lock` are fed to the model when the real thread releases the lock, and
        the protected attributes (cb, xt, c) are not compared while the real lock is held;
      * the stores of EventData.set / raise_exception are fed when the real thread executes `self.__event.set()`,
        and `d`, `x` are not compared in between (nobody reads them before the flag is up: C16_done_after_stored,
        waitGuard).
    """
    prog = run.program
    acts, checks = [], []
    in_cs = {}     # thread name -> labels executed inside the critical section so far
    stores = []    # labels of the executor's pending stores (before event.set())
    for si, st in enumerate(run.steps):
        for ent in st.enter:
            if ent[0] == "R":
                acts.append("R%d=%s,%s" % (ent[1], ent[2], ent[3]))
            elif ent[0] == "O":
                # the model has one timed kind: a zero timeout is a timeout (`obsTimeout` enabled while the flag is clear)
                acts.append("O%d=%s" % (ent[1], "t" if ent[2] in TIMED else ent[2]))
        if st.void:
            continue
        call = st.call or "?"
        role = call[0]
        res = "-"
        for e in st.ended:
            if e[0] == "O" and call == "O%d" % e[1]:
                res = e[2]
            if e[0] == "E" and call == "E":
                res = e[1]
        step_tok = {"E": "e", "R": "r" + call[1:], "O": "o" + call[1:]}.get(role, "?")
        label = st.label
        cs = REG_CS if role == "R" else EXEC_CS
        skip = ()

        def check(did):
            sk = tuple(PROTECTED) if st.proj["l"] != "N" else ()
            if stores:
                sk += ("d", "x")
            checks.append((len(acts) - 1, si, did, res, sk))
        if label == "lock" and "acq" in st.events:
            in_cs[st.thread] = []
            acts.append(step_tok)
            check("acq")
        elif label == "lock" and "rel" in st.events and st.thread in in_cs:
            body = in_cs.pop(st.thread)
            for _ in body:
                acts.append(step_tok)
            acts.append(step_tok)
            check("rel" if sorted(body) == sorted(cs) else "rel(critical section is %s)" % ",".join(body))
        elif st.thread in in_cs and label in cs:
            in_cs[st.thread].append(label)          # folded: fed to the model at the release
        elif role == "E" and label in ("sData", "sExc") and st.thread not in in_cs:
            stores.append(label)                    # folded: fed to the model at event.set()
        elif role == "E" and label == "sEvt":
            body, stores = stores, []
            for _ in body:
                acts.append(step_tok)
            acts.append(step_tok)
            check("sEvt" if sorted(body) == ["sData", "sExc"] else "sEvt(stores before it: %s)" % ",".join(body))
        elif label == "call" and role == "E":
            # identity of the very object the task returns / raises (None, a singleton such as 0, or the per-run object)
            acts.append("E=e" + run.tok(run.exc_obj) if run.exc_obj is not None else "E=v" + run.tok(run.ret_obj))
            check("enter")
        elif label == "wait" or label == "parked:event":
            if "wait:F" in st.events:
                acts.append("t" + call[1:])
                if res != "-":
                    # the call ended within the step of the timed-out wait: what follows the wait touched no shared
                    # attribute (a line that does is a scheduling point of its own, labelled or `unknown:`), e.g.
                    # `if not result: return result` as a guard clause of its own.  That local tail is the model's
                    # `readExc1` step with w = false (it reads nothing: waitGuard) - fed here, compared after it.
                    acts.append(step_tok)
                    check("readExc1")
                else:
                    check("timeout")
            else:
                acts.append(step_tok)
                check("wait")
        elif label == "parked:lock":
            acts.append(step_tok)
            in_cs[st.thread] = []
            check("acq")
        else:
            acts.append(step_tok)
            check(label)
    return acts, checks


def real_log(run, st):
    calls = run.calls[:st.proj["calls"]]
    logged = run.logged[:st.proj["logged"]]
    log = ",".join("%d:%s:%s:%s:%s" % (c[0], c[4], c[1], c[2], c[3]) for c in calls)
    errs = ",".join("%s:%s" % (c[0], "T" if c[1] == "TypeError" else "E") for c in logged)
    return log, errs


def parse_proj(text):
    parts = text.split(";")
    d = {"did": parts[0]}
    for p in parts[1:]:
        k, _, v = p.partition("=")
        d[k] = v
    ents = []
    for e in [x for x in d.get("log", "").split(",") if x]:
        rid, kind, caller, da, ex, xt = e.split(":")
        if kind != "a":   # the body of a wrong-arity callable never runs: visible through `errs` only
            ents.append("%s:%s:%s:%s:%s" % (rid, caller, da, ex, xt))
    d["log"] = ",".join(ents)
    return d


def compare(run, checks, out_line):
    """First difference between the model's projections and the real ones, or None."""
    projs = out_line.split(" | ")
    for (ai, si, did, res, skip) in checks:
        st = run.steps[si]
        where = "step %d (%s %s line %s)" % (si, st.thread, st.label, st.line)
        if ai >= len(projs) or projs[ai] in ("stuck", "bad-op"):
            last = projs[-1] if projs else ""
            return where, "real code executed %s" % st.label, "model: action not enabled (%s)" % last
        m = parse_proj(projs[ai])
        log, errs = real_log(run, st)
        real = dict(st.proj)
        real.update({"did": did, "log": log, "errs": errs, "res": res})
        keys = ["did"] + list(FIELDS) + ["log", "errs", "res"]
        keys = [k for k in keys if k not in skip]
        diff = [k for k in keys if str(real.get(k)) != str(m.get(k))]
        if diff:
            return (where, {k: real.get(k) for k in diff}, {k: m.get(k) for k in diff})
    return None


# --------------------------------------------------------------------------------------------
# Programs


def prog(outcome, regs, obs=()):
    return {"outcome": outcome, "regs": [list(map(tuple, r)) for r in regs], "obs": [list(o) for o in obs]}


N_SMALL = 16   # the first N_SMALL exhaustive programs: one registrar against one executor (127 schedules each)


def exhaustive_programs(thorough):
    """One registrar against one executor (and one observer): every interleaving."""
    ps = []
    for o in ["ret", "raise"]:
        for k in KINDS:
            ps.append(prog(o, [[(k, "t", "f")]]))
    ps.append(prog("retnone", [[("r", "N", "f")]]))
    ps.append(prog("ret", [[("n", "t", "f")]]))                      # set_callback(None)
    # falsy-but-not-None results / extras / exceptions, falsy and nameless callables
    ps.append(prog("ret0", [[("r", "0", "b")]]))                     # 0, extra 0, __bool__ False instance
    ps.append(prog("retlist", [[("x", "u", "l")]]))                  # a fresh [], extra (), __len__ 0 instance raising
    ps.append(prog("retfalse", [[("a", "F", "p")]]))                 # False, extra False, partial of wrong arity
    ps.append(prog("retempty", [[("r", "s", "L")]]))                 # "", extra "", __len__ 0 instance with __name__
    ps.append(prog("raisefalsy", [[("x", "t", "i")]]))               # exception with __bool__ False, nameless instance raising
    ps.append(prog("raisenoargs", [[("a", "N", "B")]]))              # exception with args == (), falsy instance of wrong arity
    ps.append(prog("raiselen", [[("r", "0", "p")]]))                 # exception with __len__ 0, partial
    ps.append(prog("raiseos", [[("x", "F", "f")]]))                  # the task itself raises an OSError
    assert len(ps) == N_SMALL
    for o in ["ret", "raise"]:
        for call in ["d", "t", "b"]:
            ps.append(prog(o, [], [[call]]))
        ps.append(prog(o, [], [["t", "d"]]))
        ps.append(prog(o, [], [["d", "t"]]))
    # result(0) / result(0.0): never blocks; OSError before completion, the value at once after it
    ps.append(prog("ret0", [], [["z"]]))
    ps.append(prog("raisefalsy", [], [["Z"]]))
    ps.append(prog("retlist", [], [["z", "d"]]))
    ps.append(prog("retfalse", [], [["d", "Z"]]))
    ps.append(prog(None, [[("r", "t", "f")]], [["d", "t"]]))
    ps.append(prog(None, [], [["z", "Z"]]))
    if thorough:
        for o in ["ret", "raise"]:
            ps.append(prog(o, [], [["t", "d", "t"]]))
            ps.append(prog(o, [], [["d", "b", "d"]]))
            for k in KINDS:
                for call in ["d", "t", "b"]:
                    ps.append(prog(o, [[(k, "t", "f")]], [[call]]))
        for o, k, x, f, call in [("retfalse", "r", "F", "l", "z"), ("retempty", "x", "s", "B", "Z"),
                                 ("raiselen", "a", "u", "i", "z"), ("raiseos", "r", "0", "b", "t")]:
            ps.append(prog(o, [[(k, x, f)]], [[call]]))
        ps.append(prog("ret", [[("r", "t", "f"), ("x", "t", "f")]]))        # re-registration by the same client
        ps.append(prog("raise", [[("x", "N", "f"), ("r", "t", "f")]]))
        ps.append(prog("ret0", [[("r", "t", "b"), ("n", "N", "f")]]))       # re-registration with None
        # hostile exception objects raised by the callback / by the task: every interleaving
        ps.append(prog("ret", [[("x", "t", "f", "strraise")]]))
        ps.append(prog("raise", [[("x", "N", "i", "allbad")]]))
        ps.append(prog("raiseH_fmtraise", [[("x", "0", "p", "reprraise")]]))
        ps.append(prog("raiseH_allbad", [[("r", "t", "f")]], [["t"]]))
        ps.append(prog("raiseH_boolraise", [], [["d", "z"]]))
        ps.append(prog("raiseH_eqraise", [[("x", "F", "L", "strnone")]]))
    return ps


def bounded_programs(thorough):
    """Re-registration, two or three registrars / observers: every schedule with at most two preemptions."""
    ps = [
        prog("ret", [[("r", "t", "f"), ("x", "t", "f")]]),
        prog("raise", [[("x", "N", "f"), ("r", "t", "f")]]),
        prog("ret0", [[("r", "0", "L"), ("n", "N", "f")]]),          # a real registration replaced by None
        prog("raisenoargs", [[("n", "t", "f"), ("a", "s", "i")]]),   # None, then a real (nameless, wrong-arity) one
        prog("raise", [], [["t", "d", "t"]]),
        prog("ret", [], [["d", "b", "d"]]),
        prog("ret", [[("r", "t", "f")]], [["d"]]),
        prog("raise", [[("x", "t", "f")]], [["t"]]),
        prog("ret", [[("a", "t", "f")]], [["b"]]),
        prog("retfalse", [[("x", "F", "b")]], [["z"]]),
        prog("ret", [[("r", "t", "f")], [("r", "t", "f")]]),
        prog("raise", [[("r", "t", "f")], [("x", "N", "f")]]),
        prog("retlist", [[("r", "0", "p")], [("x", "0", "l")]]),     # the same falsy extra object in two registrations
        prog("ret", [[("r", "t", "f"), ("r", "t", "f")], [("a", "t", "f")]]),
        prog("ret", [], [["t"], ["d", "b"]]),
        prog("raiseos", [], [["Z"], ["d", "z"]]),
    ]
    if thorough:
        ps += [
            prog("ret", [[("x", "t", "f")], [("a", "t", "f")]]),
            prog("raise", [[("r", "t", "f")], [("r", "t", "f")]], [["t", "d"]]),
            prog("ret", [[("r", "t", "f")], [("x", "t", "f")], [("a", "t", "f")]]),
            prog("raise", [[("a", "t", "f"), ("r", "t", "f")], [("n", "t", "f")]], [["b"]]),
            prog("ret", [[("r", "t", "f")], [("n", "t", "f")], [("r", "N", "f")]], [["d"]]),
            prog("raise", [[("x", "t", "f")]], [["t"], ["d"], ["b"]]),
            prog("retempty", [[("a", "u", "L")], [("x", "F", "p")], [("n", "0", "f")]], [["z"]]),
            prog("raisefalsy", [[("r", "s", "b"), ("n", "N", "f"), ("x", "0", "i")]], [["Z", "d"]]),
        ]
    return ps


def hostile_programs():
    """
    Callbacks (and tasks) raising HOSTILE exception objects - every kind of harness/hostile.py, on every form of
    callable.  Part of EVERY run under two schedules each: the registrar first (registered BEFORE completion: the
    executor invokes the callback inside execute()) and the executor first (registered AFTER completion: set_callback()
    invokes it at once).  Monitor (from the statement): "an exception raised by the callback is contained: it changes
    neither the stored outcome nor the executing worker's progress" - set_callback() does not raise
    (`set-callback-raised`), execute() returns / raises exactly what the task did (`execute-outcome`), done() / result()
    are the task's outcome afterwards (`stored-outcome`, `result-*`), exactly one invocation (`callback-*`).
    """
    ps = []
    n = len(hostile.KINDS)
    for k, h in enumerate(hostile.KINDS):
        form = fs.FORMS[k % len(fs.FORMS)]
        extra = fs.EXTRA_SPECS[k % len(fs.EXTRA_SPECS)]
        # the callback raises a hostile object; the task returns / raises a plain one
        ps.append(prog("ret" if k % 2 == 0 else "raise", [[("x", extra, form, h)]]))
        # both the task and the callback raise hostile objects (of different kinds); an observer reads the outcome
        ps.append(prog("raiseH_" + h, [[("x", "t", "f", hostile.KINDS[(k + 1) % n])]], [["b", "d"]]))
        # the task raises a hostile object which is handed to a callback that returns; polls
        ps.append(prog("raiseH_" + h, [[("r", extra, form)]], [["z", "t"]]))
    # re-registration: two raising callbacks by the same client
    ps.append(prog("ret0", [[("x", "t", "f", "strraise"), ("x", "N", "p", "allbad")]]))
    return ps


HOSTILE_PREFIXES = (["R0"], ["E"])


def hostile_sweep(col, pin):
    pin.again()
    n = 0
    for p in hostile_programs():
        for prefix in HOSTILE_PREFIXES:
            r = fs.Run(p, col.table, col.codes).execute(fs.default_chooser(prefix))
            n += 1
            if col.on_run(r, "hostile"):
                return n
    return n


def random_program(rng):
    regs = []
    for _ in range(rng.randint(1, 4)):
        calls = []
        for _ in range(rng.choice([1, 1, 2, 3])):
            kind = rng.choice(["r", "r", "x", "a", "n"])
            u = rng.random()
            extra = "t" if u < 0.5 else ("N" if u < 0.65 else rng.choice(FALSY_EXTRA))
            form = "f" if rng.random() < 0.35 else rng.choice(fs.FORMS[1:])
            if kind == "x" and rng.random() < 0.5:
                # the callback raises a hostile exception object
                calls.append((kind, extra, form, rng.choice(hostile.KINDS)))
            else:
                calls.append((kind, extra, form))
        regs.append(calls)
    obs = []
    for _ in range(rng.randint(0, 3)):
        obs.append([rng.choice(["d", "t", "t", "b", "z", "Z"]) for _ in range(rng.choice([1, 2, 3]))])
    outcome = rng.choice(OUTCOMES + ["ret", "raise"] + FALSY_RET + ODD_RAISE)
    if rng.random() < 0.15:
        outcome = rng.choice(fs.HOSTILE_OUTCOMES)
    if rng.random() < 0.06:
        outcome = None
        obs = [[c if c != "b" else "t" for c in o] for o in obs]
    return prog(outcome, regs, obs)


# --------------------------------------------------------------------------------------------
# The check


class Light(object):
    """What `compare` needs of a run (the Run itself holds threads and is dropped at once)."""

    def __init__(self, run):
        self.steps = run.steps
        self.calls = run.calls
        self.logged = run.logged


class Collector(object):
    def __init__(self, ctx, model=True):
        self.ctx = ctx
        self.model = model
        self.table = fs.build_table()
        self.codes = fs.traced_codes()
        self.lines = []       # model lines
        self.pending = []     # (program, choices, checks, run summary)
        self.violation = None
        self.n_bad = 0

    def on_run(self, run, kind):
        ctx = self.ctx
        hits = monitor(run)
        acts, checks = translate(run)
        labels = tuple((s.call, s.label) for s in run.steps)
        ctx.count({"program": run.program, "schedule": "".join(run.choices)[:120]} if len(ctx.samples) < 4 else None,
                  nontrivial_key=hashlib.md5(repr(labels).encode()).hexdigest(), kind=kind)
        ctx.hist["outcome:%s" % run.program.get("outcome")] += 1
        ctx.hist["steps"] += len(run.steps)
        for rid, (k_, x_, f_) in run.regs.items():
            ctx.hist["registration:kind=%s" % k_] += 1
            if k_ != "n":
                ctx.hist["registration:callable=%s" % f_] += 1
            ctx.hist["registration:extra=%s" % x_] += 1
            if run.cb_hostile.get(rid) is not None:
                ctx.hist["hostile:callback-registered-raising=%s" % run.cb_hostile[rid]] += 1
        for (rid_, _d, _x, _xt, call_, _w, _t) in run.calls:
            if run.cb_hostile.get(rid_) is not None:
                # hostile objects really raised by a callback, by who invoked it (executor: registered before completion)
                ctx.hist["hostile:callback-raised=%s/%s" % (run.cb_hostile[rid_],
                                                             "in-execute" if call_ == "E" else "in-set_callback")] += 1
        if run.program.get("outcome") in fs.HOSTILE_OUTCOMES:
            ctx.hist["hostile:task-raised=%s" % run.program["outcome"][7:]] += 1
        for (rid_, _c, _w, _t) in run.attempted:
            f_ = run.regs[rid_][2]
            if f_ in fs.FALSY_FORMS:
                ctx.hist["invoked:falsy-callable"] += 1
            if f_ in fs.NAMELESS_FORMS:
                ctx.hist["invoked:callable-without-__name__"] += 1
        for (_rid, _d, _x, _xt, call, _w, _t) in run.calls:
            ctx.hist["invoked-by:%s" % ("executor" if call == "E" else "registrar")] += 1
        for o in run.observations:
            ctx.hist["obs:%s->%s" % (o[1], o[2] if not o[2].startswith("v") else "value")] += 1
        if hits and self.violation is None:
            self.violation = (run, hits)
        if self.model:
            self.lines.append("fut " + " ".join(acts))
            self.pending.append((run.program, list(run.choices), checks, Light(run)))
            if len(self.lines) >= 4000:
                self.flush()
        return bool(hits)

    def flush(self):
        """One model call for everything collected so far; records disagreements."""
        ctx = self.ctx
        if not self.lines:
            return
        outs = ctx.lean(self.lines)
        n_bad = self.n_bad
        for (program, choices, checks, run), out in zip(self.pending, outs):
            diff = compare(run, checks, out)
            ctx.traces_validated += 1
            if diff is not None:
                n_bad += 1
                if n_bad <= 3:
                    ctx.disagree({"program": program, "schedule": choices, "at": diff[0]}, diff[1], diff[2], "fut")
        self.n_bad = n_bad
        self.lines, self.pending = [], []


LEGEND = {
    "identities": {"N": "None", "7": "the per-run object the task returned (object() or a fresh [])",
                   "9": "the exception object the task raised", "50": "0", "51": "''", "52": "()", "53": "False",
                   "100+r": "the per-registration tuple ('extra', r) of registration r"},
    "outcome": {"ret": "returns object()", "retnone": "returns None", "ret0": "returns 0", "retempty": "returns ''",
                "retlist": "returns a fresh []", "retfalse": "returns False", "raise": "raises TaskError('task failed')",
                "raisenoargs": "raises an Exception subclass with args == ()",
                "raisefalsy": "raises an Exception subclass whose __bool__ is False",
                "raiselen": "raises an Exception subclass whose __len__ is 0", "raiseos": "raises OSError(...)",
                "raiseH_<kind>": "raises a HOSTILE exception object (harness/hostile.py): " + ", ".join(hostile.KINDS),
                "None": "no execute() at all"},
    "registration": "(kind, extra, callable[, hostile]): kind r returns / x raises (a CallbackError, or a hostile exception "
                    "object of the given kind: strraise __str__ raises, strnone __str__ returns None, reprraise, fmtraise "
                    "__format__ raises, argsraise, huge, nonascii, ctor, boolraise, eqraise, allbad) / a wrong arity / n set_callback(None); "
                    "extra t ('extra', r) / N None / 0 / s '' / u () / F False; callable f function / p functools.partial / "
                    "i callable instance / b instance with __bool__ False / l instance with __len__ 0 "
                    "(p i b l have no __name__; B L are b l with a __name__ attribute)",
    "observer": "d done() / t result(0.01) / z result(0) / Z result(0.0) / b result(None)",
}


# reported first when several monitors fire on one execution: what the statement says in so many words about a
# raising callback ("contained: it changes neither the stored outcome nor the executing worker's progress")
CONTAINMENT_KEYS = ("execute-outcome", "set-callback-raised", "stored-outcome", "execute-never-returns")


def _containment_first(hits):
    return sorted(hits, key=lambda h: 0 if h[0] in CONTAINMENT_KEYS else 1)


def report_violation(ctx, col, which=None):
    run, hits = which or col.violation
    hits = _containment_first(hits)
    key = hits[0][0]

    def fails(r):
        return any(k == key for k, _ in monitor(r))
    sched, small = fs.shrink(run.program, run.choices, fails, col.table, col.codes)
    hits = _containment_first(monitor(small)) if any(h[0] == key for h in monitor(small)) else hits
    case = {
        "program": small.program,
        "schedule": sched,
        "full_schedule": small.choices,
        "trace": ["%s %s line %s%s" % (s.call, s.label, s.line, (" " + ",".join(s.events)) if s.events else "") for s in small.steps],
        "invocations": [list(c) for c in small.calls],
        "logged": [list(c) for c in small.logged],
        "observations": [list(o) for o in small.observations],
        "attempted_calls": [list(c) for c in small.attempted],
        "blocked_untimed": [list(c) for c in small.blocked],
        "execute": small.exec_info,
        "legend": LEGEND,
        "repo": fs.impl.REPO,
    }
    for k, d in hits[:6]:
        ctx.violate(case, d, k)


def probe_unmodelled(ctx):
    """
    Behaviours in the property's scope that the model does not describe (see `ctx.assumptions`): executed once,
    sequentially, on the real code, and RECORDED in the evidence (`unmodelled_behaviours_observed`).  No monitor, no
    model, never an alarm: this only documents what the code does there.
    """
    seen = {}

    def attempt(name, fn):
        # in a daemon thread with a deadline: on a changed tree a probe may block (e.g. an untimed wait)
        import threading

        def body():
            try:
                seen[name] = fn()
            except BaseException as ex:  # noqa: BLE001  a probe must never take the check down
                seen[name] = "probe failed: %s" % type(ex).__name__
        th = threading.Thread(target=body, name="c16-probe")
        th.daemon = True
        th.start()
        th.join(2.0)
        if th.is_alive():
            seen[name] = "probe did not return within 2 s"

    def base_exception_task():
        got = []
        f = fs.tp.FutureResult(fs.RecLogger(_NullRun()))
        f.set_callback(lambda r, e, x: got.append((r, type(e).__name__ if e is not None else None, x)), "extra")

        def task():
            raise SystemExit(3)
        try:
            f.execute(task, None, None)
            raised = None
        except BaseException as ex:  # noqa: BLE001
            raised = type(ex).__name__
        try:
            f.result(0)
            res = "returned"
        except OSError:
            res = "OSError"
        return {"execute_raised": raised, "done": bool(f.done()), "result(0)": res, "callback_got": got}

    def execute_twice():
        got = []
        f = fs.tp.FutureResult(fs.RecLogger(_NullRun()))
        f.set_callback(lambda r, e, x: got.append(r), None)
        f.execute(lambda: "first", None, None)
        f.execute(lambda: "second", None, None)
        return {"callback_invocations": got, "result": f.result(0)}

    def reregister_inside_callback():
        got = []
        f = fs.tp.FutureResult(fs.RecLogger(_NullRun()))

        def second(r, e, x):
            got.append(("second", x))

        def first(r, e, x):
            got.append(("first", x))
            f.set_callback(second, "x2")
        f.set_callback(first, "x1")
        f.execute(lambda: 1, None, None)
        return {"invocations": got}
    attempt("task raises SystemExit (BaseException)", base_exception_task)
    attempt("execute() called twice on one future", execute_twice)
    attempt("callback re-registers from inside the callback", reregister_inside_callback)
    ctx.extra["unmodelled_behaviours_observed"] = dict(seen)


class _NullRun(object):
    def on_logged(self, ex):
        pass


def add_assumptions(ctx):
    ctx.assumptions.append(
        "C16: CPython executes one source line of the traced methods atomically with respect to the scheduler "
        "(sys.settrace line events are the finest interleaving considered; the calls of the registered callable and "
        "of logger.exception are scheduling points through a sys.monitoring CALL hook); threading.Lock / "
        "threading.Event are replaced by cooperative shims during exploration (mutual exclusion, flag, wait) — their "
        "CPython implementations are modelled, not verified; a timed wait (zero timeout included) may give up at any "
        "scheduling point at which the event is clear")
    ctx.assumptions.append(
        "C16: tasks raise Exception subclasses only.  NOT modelled, not monitored (recorded once per run under "
        "coverage.unmodelled_behaviours_observed): a task raising a bare BaseException (SystemExit, KeyboardInterrupt) — "
        "`execute`'s `except Exception` does not store it, the future is never done, result() keeps timing out and the "
        "callback is invoked with (None, None, extra); `execute` called twice on one future (the callback in force is "
        "invoked once per execute, the stored outcome is overwritten); a callback that calls set_callback on the same "
        "future from inside the callback (the new registration is made after completion and is invoked at once, "
        "recursively).  Callbacks raise Exception subclasses only (a BaseException from a callback is not contained)")
    ctx.assumptions.append(
        "C16: objects are compared by identity; the generated results / extras / exceptions / callables include "
        "falsy-but-not-None ones (0, '', [], False, (), exceptions with empty args or falsy __bool__/__len__, callable "
        "instances with __bool__ False or __len__ 0, callables without __name__: functools.partial, instances) and "
        "hostile EXCEPTION objects raised by tasks and callbacks (special methods that raise: harness/hostile.py); results, "
        "extras and callables whose __eq__/__bool__/__len__/__repr__ raise or have side effects are not generated")


class Pinned(object):
    """Runs exploration on one core (see futsched.single_cpu); re-chosen for every program / batch."""

    def __init__(self):
        self.cm = None

    def again(self):
        self.close()
        self.cm = fs.single_cpu()
        self.cm.__enter__()

    def close(self):
        if self.cm is not None:
            self.cm.__exit__(None, None, None)
            self.cm = None


def run(ctx):
    pin = Pinned()
    try:
        _run(ctx, pin)
    finally:
        pin.close()


def _run(ctx, pin):
    col = Collector(ctx)
    thorough = ctx.thorough
    ctx.rule = ("distinct sequence of (client call, executed source-line label) over the whole schedule; "
                "each evaluation is one complete execution of the real FutureResult under one schedule")
    unknown = sorted({l.text for l in col.table.values() if l.kind == "unknown" and "EventData.clear" not in l.text})
    if unknown:
        ctx.disagree({"source": "label table"}, "statements touching private attributes in an unknown shape: %s" % unknown,
                     "no corresponding model step", "fut")
    import time
    t0 = time.time()
    # exploration is budgeted by counts (deterministic for a seed); the wall-clock limits only guard a loaded machine
    # and the escalated budgets of a changed source (a quick run stays under a minute)
    t_exh, t_bnd, t_rnd = (300, 120, 100) if thorough else ((14, 12, 8) if ctx.escalated else (20, 16, 10))

    def timed(kind, deadline):
        def f(r):
            return col.on_run(r, kind) or time.time() > deadline
        return f
    all_exhausted = True
    small_exhausted = True
    ctx.extra["hostile_sweep_runs"] = hostile_sweep(col, pin)
    progs = [] if col.violation else exhaustive_programs(thorough)
    for k, p in enumerate(progs):
        # the one-registrar-one-executor programs come first and are small (127 schedules each)
        deadline = t0 + t_exh
        pin.again()
        n, done = fs.explore(p, timed("exhaustive", deadline), None, ctx.budget(1200, 3000), col.table, col.codes)
        done = done and time.time() <= deadline
        all_exhausted = all_exhausted and done
        if k < N_SMALL:
            small_exhausted = small_exhausted and done
        ctx.hist["exhaustive-program-%s" % ("exhausted" if done else "truncated")] += 1
        if col.violation or time.time() > deadline:
            break
    phases = ctx.extra.setdefault("phase_seconds", {})
    phases["exhaustive"] = round(time.time() - t0, 1)
    ctx.extra["exhaustive_one_registrar_one_executor"] = small_exhausted
    ctx.extra["exhaustive_all_listed_programs"] = all_exhausted and not col.violation
    t1 = time.time()
    if not col.violation:
        deadline = time.time() + t_bnd
        for p in bounded_programs(thorough):
            pin.again()
            n, done = fs.explore(p, timed("preemptions<=2", deadline), 2, ctx.budget(250, 2500), col.table, col.codes)
            ctx.hist["bounded-exhausted" if done and time.time() <= deadline else "bounded-truncated"] += 1
            if col.violation or time.time() > deadline:
                break
    phases["bounded"] = round(time.time() - t1, 1)
    t1 = time.time()
    if not col.violation:
        rng = ctx.derive_rng("random")
        deadline = time.time() + t_rnd
        for i in range(ctx.budget(300, 6000)):
            if i % 150 == 0:
                pin.again()
            p = random_program(rng)
            r = fs.Run(p, col.table, col.codes).execute(fs.random_chooser(rng, rng.choice([0.3, 0.6, 0.85])))
            if col.on_run(r, "random") or time.time() > deadline:
                break
    phases["random"] = round(time.time() - t1, 1)
    pin.close()
    t1 = time.time()
    ctx.exhaustive = False
    col.flush()
    phases["model"] = round(time.time() - t1, 1)
    if col.violation:
        pin.again()
        report_violation(ctx, col)
        pin.close()
    probe_unmodelled(ctx)
    add_assumptions(ctx)


def search(ctx):
    """The tie is broken (obligation or lockstep): look harder for a failing input on the real code (no model).
    Bounded: at most ~75 s in all (the long look is `--tier thorough`)."""
    import time
    col = Collector(ctx, model=False)
    pin = Pinned()
    t0 = time.time()
    d_exh, d_bnd, d_rnd = t0 + 30, t0 + 55, t0 + 75

    def on(kind, deadline):
        def f(r):
            return col.on_run(r, kind) or time.time() > deadline
        return f
    try:
        hostile_sweep(col, pin)
        for p in ([] if col.violation else exhaustive_programs(True)):
            pin.again()
            fs.explore(p, on("search-exhaustive", d_exh), None, 6000, col.table, col.codes)
            if col.violation or time.time() > d_exh:
                break
        if not col.violation:
            for p in bounded_programs(True):
                pin.again()
                fs.explore(p, on("search-bounded", d_bnd), 3, 2500, col.table, col.codes)
                if col.violation or time.time() > d_bnd:
                    break
        if not col.violation:
            rng = ctx.derive_rng("search")
            i = 0
            while time.time() < d_rnd:
                if i % 150 == 0:
                    pin.again()
                i += 1
                p = random_program(rng)
                r = fs.Run(p, col.table, col.codes).execute(fs.random_chooser(rng, rng.choice([0.3, 0.6, 0.85])))
                if col.on_run(r, "search-random"):
                    break
        if col.violation:
            pin.again()
            report_violation(ctx, col)
    finally:
        pin.close()


def replay(payload):
    case = payload.get("case") or {}
    program = case.get("program")
    if not program:
        print(json.dumps(payload, indent=1)[:4000])
        return 2
    program = prog(program.get("outcome"), program.get("regs", []), program.get("obs", []))
    r = fs.Run(program).execute(fs.default_chooser(case.get("full_schedule") or case.get("schedule") or []))
    print("program : %s" % json.dumps(program))
    print("schedule: %s" % " ".join(r.choices))
    for i, s in enumerate(r.steps):
        print("  %3d %-3s %-14s line %-4s %s" % (i, s.call, s.label, s.line, ",".join(s.events)))
    print("legend  : %s" % json.dumps(LEGEND, indent=1))
    print("invocations (registration, result, exception, extra, during call, step): %s" % [c[:6] for c in r.calls])
    print("calls attempted by the traced code (registration, during call, step): %s" % [c[:3] for c in r.attempted])
    print("untimed waits despite a finite timeout (call, timeout, step): %s" % [c[:3] for c in r.blocked])
    print("logger.exception records: %s" % [c[:4] for c in r.logged])
    print("observations (id, call, outcome, start, end): %s" % [o[:5] for o in r.observations])
    print("execute: %s   final done()/result(): %s" % (r.exec_info, r.final))
    hits = monitor(r)
    for k, d in hits:
        print("VIOLATED %s: %s" % (k, d))
    if not hits:
        print("no violation on this tree")
    return 1 if hits else 0
