"""
C17 — Wire framing is exact and body reassembly is independent of chunking.

Model   : lean/JRV/Model/Wire.lean
Theorems: lean/JRV/Properties/C17.lean (property), lean/JRV/Properties/C17Gen.lean (companions of extracted facts)
Tie     : extracted facts (tools/extractors/wire.py) + differential correspondence on
          * the client's response path (JSONTarget and the real Transport.parse_response, identity and gzip),
          * the server's body read loop (do_POST driven through a fake connection with short reads),
          * the whole of do_POST: 200 replies (text, "", None) and 500/fault replies (dispatcher raising, undecodable
            or short body, missing/bad Content-Length header),
          * the Content-Length / Content-Type lines of client requests, server replies and CGI output (CGI with
            several `encoding=` values),
          * the REQUEST LINE: a real ServerProxy call / notification through the real Transport.request ->
            single_request -> send_request -> putrequest -> send_content, captured (a) as bytes from the real
            http.client request writer over an in-memory socket (harness/wirepeer.RecConn, returned by an overridden
            make_connection of the real Transport / SafeTransport / UnixTransport) and (b) for a sample, as bytes read
            by a raw recording socket peer (TCP for http, a Unix socket for unix+http with the real UnixTransport),
          * scheme checks of ServerProxy,
          * SEQUENCES of responses through ONE transport object (harness/wiresessions.py, model JRV.Model.WireSession, component
            `wsession`): parse_response of one real Transport / SafeTransport / UnixTransport called for 2..6 responses of which
            some fail part-way (a read raising after 0, 1 or several chunks: reset, time-out, IncompleteRead, truncated gzip) and
            the others are healthy; and a real ServerProxy over scripted in-memory http.client connections (kept-alive, the
            library's own retry after a reset) whose replies break in the middle of the body before healthy ones.
Monitor : the property statement on the captured bytes / texts; for a sequence: the text returned for a response is the
          decoding of the bytes of THAT response, whatever came through the same transport before.

What "path plus query string unchanged" means here: the URL is built by the generator as
scheme://netloc + path + ["?" + query], so the monitor knows path and query by construction (it does not ask
urlparse).  A bare "?" (present, empty query) contributes nothing: urlparse drops it and the library requests the
path alone - the monitor accepts exactly that (documented assumption).  ';' path parameters (for http/https urlparse
splits ";params" off the LAST path segment) and '#' fragments are outside the property's quantifier: such URLs are
counted as excluded, never generated on purpose except to count them.
"""
import gzip
import io
import itertools
import json
import shutil
import socket
import sys
import tempfile
from urllib.parse import urlparse

import bytecases
import core
import impl
import pyval
import wirepeer
import wiresessions

REQUIRED_THEOREMS = [
    "C17_content_length", "C17_do_post_framing", "C17_cgi_length", "C17_cgi_single_byte", "C17_body_bytes",
    "C17_bytes_not_chars", "C17_reassembly_client", "C17_reassembly_client_empty",
    "C17_server_prefix", "C17_reassembly_server", "C17_chunking_independent", "C17_chunkwise_not_independent",
    "C17_target", "C17_scheme", "C17_decode_exact", "C17_decode_exact_client", "C17_bom_kept",
    "C17_gen_lenAfterToBytes", "C17_gen_serverDecodesAfterJoin", "C17_gen_clientDecodesAfterJoin", "C17_gen_maxChunk",
    "C17_gen_contentTypeFromConfig", "C17_gen_schemes", "C17_gen_handlerFromUrl", "C17_gen_targetForwarded",
    "C17_gen_fromBytesCodec", "C17_gen_toBytesCodec",
    "C17_session_independent", "C17_session_reassembly", "C17_session_error_reported", "C17_reused_parser_not_independent",
    "C17_gen_getparserFresh", "C17_gen_targetOwnBuffer", "C17_gen_session_independent",
]

MAXCHUNK = 10 * 1024 * 1024

TEXTS = ["", "{}", "é", "日本語", "a\U0001f600b", '{"jsonrpc": "2.0", "id": 1, "method": "echo", "params": ["é"]}',
         "x" * 40, "é" * 7, "\u00e9\u0301", "\x00", '{"k": "\u20ac"}',
         # characters a decoder may be tempted to drop or rewrite: a leading / inner / trailing U+FEFF (the UTF-8 signature), U+FFFE,
         # NUL, CR LF, U+2028, a non-character, the replacement character itself
         "\ufeff", "\ufeff{}", "\ufeff\ufeff{}", "a\ufeffb", "{}\ufeff", '\ufeff{"jsonrpc": "2.0", "id": 1, "method": "echo", "params": []}',
         "\ufffe{}", "\x00{}\x00", "\r\n{}\r\n", "\u2028\uffff", "\ufffd?"]

CGI_ENCODINGS = ["UTF-8", "utf-8", "utf8", "latin-1", "iso-8859-1", "ascii", "utf-16", "utf-16-le", "cp1252", "no-such-codec"]

SUPPORTED = ("http", "https", "unix+http")


def hx(b):
    return b.hex() if b else "-"


def hs(s):
    return hx(s.encode("utf-8"))


def chunkings(b):
    """All 2^(n-1) splits of a byte string into non-empty chunks."""
    n = len(b)
    if n == 0:
        yield []
        return
    for mask in range(1 << (n - 1)):
        out, start = [], 0
        for i in range(1, n):
            if mask & (1 << (i - 1)):
                out.append(b[start:i])
                start = i
        out.append(b[start:])
        yield out


def random_cuts(rng, b, maxparts=6):
    n = len(b)
    if n == 0:
        return []
    k = rng.randint(0, min(maxparts - 1, n - 1))
    cuts = sorted(rng.sample(range(1, n), k)) if n > 1 and k else []
    parts = []
    prev = 0
    for c in cuts + [n]:
        parts.append(b[prev:c])
        prev = c
    return parts


class ChunkResponse(object):
    """What http.client hands to Transport.parse_response: read(n) returns the next chunk (short reads)."""

    def __init__(self, chunks, headers=None):
        self.chunks = list(chunks)
        self.headers = headers or {}
        self.closed = False

    def getheader(self, name, default=None):
        return self.headers.get(name.lower(), default)

    def read(self, n=-1):
        if not self.chunks:
            return b""
        if n is None or n < 0:
            # read to EOF, as http.client does
            out, self.chunks = b"".join(self.chunks), []
            return out
        c = self.chunks.pop(0)
        if len(c) > n:
            self.chunks.insert(0, c[n:])
            c = c[:n]
        return c

    def close(self):
        self.closed = True


class ShortReads(io.RawIOBase):
    def __init__(self, stream, sizes):
        self.stream = stream
        self.sizes = list(sizes)
        self.requested = []

    def read(self, n=-1):
        self.requested.append(n)
        if not self.sizes:
            return b""
        k = min(self.sizes.pop(0), n, len(self.stream))
        out, self.stream = self.stream[:k], self.stream[k:]
        return out


class _Headers(dict):
    """Like email.message.Message: a missing header reads as None."""

    def __getitem__(self, k):
        return self.get(k)


class DispatchBoom(Exception):
    pass


def make_dispatch(spec, got):
    """spec: "echo" | "none" | "empty" | "raise" | ["text", t]  ->  a _marshaled_dispatch for the fake server."""
    def dispatch(self, data, dispatch_method=None, path=None):
        got.append(data)
        if spec == "echo":
            return data
        if spec == "none":
            return None
        if spec == "empty":
            return ""
        if spec == "raise":
            raise DispatchBoom("dispatcher failure é")
        return spec[1]
    return dispatch


def drive_do_post(body_bytes, sizes, cfg, declared=None, reply_text=None, dispatch=None):
    """Runs the real do_POST on a fake connection; returns (status, text given to the dispatcher, header lines, written bytes).
    `declared`: the Content-Length header value (default: the body's length; "missing" = no header)."""
    import jsonrpclib.SimpleJSONRPCServer as SRV
    got = []
    spec = dispatch if dispatch is not None else (["text", reply_text] if reply_text is not None else "echo")

    class FakeServer(object):
        json_config = cfg
        logRequests = False
        _marshaled_dispatch = make_dispatch(spec, got)

    h = SRV.SimpleJSONRPCRequestHandler.__new__(SRV.SimpleJSONRPCRequestHandler)
    h.server = FakeServer()
    h.path = "/"
    h.headers = _Headers()
    if declared != "missing":
        h.headers["content-length"] = str(len(body_bytes) if declared is None else declared)
    h.rfile = ShortReads(body_bytes, sizes)
    h.wfile = io.BytesIO()
    h.request_version = "HTTP/1.1"
    h.requestline = "POST / HTTP/1.1"
    h.client_address = ("x", 0)
    h.close_connection = True
    status, lines = [], []
    h.send_response = lambda code, message=None: status.append(code)
    h.send_header = lambda k, v: lines.append((k, v))
    h.end_headers = lambda: None
    h.is_rpc_path_valid = lambda: True
    h.decode_request_content = lambda data: data
    try:
        h.do_POST()
    except Exception as ex:  # noqa: BLE001 - do_POST must frame a reply whatever happens inside its try block
        status.append("do_POST raised %s" % type(ex).__name__)
    return status, got, lines, h.wfile.getvalue()


def reply_frame_monitor(hlines, written, cfg):
    """The statement on a reply whose text the harness did not choose: declared length == bytes written,
    configured content type, exactly one of each."""
    d = {}
    for k, v in hlines:
        d.setdefault(k.lower(), []).append(v)
    if d.get("content-length") != [str(len(written))]:
        return "Content-Length %r, %d body bytes were written" % (d.get("content-length"), len(written))
    if d.get("content-type") != [cfg.content_type]:
        return "Content-Type %r, configured %r" % (d.get("content-type"), cfg.content_type)
    return None


def frame_monitor(hlines, written, text, cfg):
    body = text.encode("utf-8")
    d = {}
    for k, v in hlines:
        d.setdefault(k.lower(), []).append(v)
    if d.get("content-length") != [str(len(body))]:
        return "Content-Length %r, body has %d bytes" % (d.get("content-length"), len(body))
    if d.get("content-type") != [cfg.content_type]:
        return "Content-Type %r, configured %r" % (d.get("content-type"), cfg.content_type)
    if written is not None and written != body:
        return "body bytes %r differ from the encoding of %r" % (written[:40], text[:40])
    return None


def wire_frame_monitor(rec, cfg):
    """The statement on a request captured as bytes (wirepeer.Record): one Content-Length equal to the number of body
    bytes that followed the header block, one Content-Type equal to the configured one."""
    if rec.note in ("short-body", "no-head"):
        return "request incomplete on the wire (%s): declared Content-Length %r, %d body bytes arrived" % (
            rec.note, rec.header_values("content-length"), len(rec.after_head))
    cl = rec.header_values("content-length")
    if cl != [str(len(rec.after_head)).encode("ascii")]:
        return "Content-Length %r on the wire, %d body bytes followed" % (cl, len(rec.after_head))
    ct = rec.header_values("content-type")
    try:
        want = cfg.content_type.encode("latin-1")
    except UnicodeEncodeError:
        return None
    if ct != [want]:
        return "Content-Type %r on the wire, configured %r" % (ct, cfg.content_type)
    return None


# --------------------------------------------------------------------------------------------
# CGI


def run_cgi(SRV, cfg, text, encoding=None):
    """Runs the real handle_jsonrpc with stdout captured; returns (outcome, header lines, body bytes, raw header text)."""
    class Out(io.StringIO):
        def __init__(self):
            io.StringIO.__init__(self)
            self.buffer = io.BytesIO()

    if encoding is None:
        h = SRV.CGIJSONRPCRequestHandler(config=cfg)
    else:
        h = SRV.CGIJSONRPCRequestHandler(encoding=encoding, config=cfg)
    h._marshaled_dispatch = lambda request_text, *a, **k: text
    old = sys.stdout
    out = Out()
    sys.stdout = out
    try:
        k, v = impl.outcome(h.handle_jsonrpc, "{}")
    finally:
        sys.stdout = old
    head = out.getvalue()
    hl = []
    for ln in head.splitlines():
        if ":" in ln:
            kk, vv = ln.split(":", 1)
            hl.append((kk.strip(), vv.strip()))
    return (k, v), hl, out.buffer.getvalue(), head


def cgi_monitor(outcome, hl, body, head, text, cfg, encoding):
    k, v = outcome
    if k != "ok":
        # an unencodable reply (or unknown codec) raises: not a framing violation provided nothing was emitted
        if head or body:
            return "CGI handler raised %s after emitting %r / %d body bytes" % (type(v).__name__, head[:60], len(body))
        return None
    m = reply_frame_monitor(hl, body, cfg)
    if m:
        return m
    try:
        if body.decode(encoding or "UTF-8") != text:
            return "CGI body bytes %r are not the %s encoding of %r" % (body[:40], encoding, text[:40])
    except (UnicodeDecodeError, LookupError) as ex:
        return "CGI body bytes %r do not decode with %s: %s" % (body[:40], encoding, ex)
    return None


# --------------------------------------------------------------------------------------------
# URLs and request targets

PATH_SEGS = ["", ".", "..", "a", "RPC2", "api", "v1", "%2f", "%2F", "a%20b", "a+b", "~u", "a:b", "@", "a=b", "a&b", "a;b",
             "-", "_", "x.y", "%C3%A9", "%c3%a9", "%25", "%", "é", "日本", "a,b", "(x)", "!$'*", "tmp", "sock.s"]
QUERY_PARTS = ["a=1", "a=b=c", "x", "q=é", "a=%2F", "a=%2f", "s=a+b", "s=a%20b", "a?b", "?", "k=", "=v", "", "a=1;b=2", "/",
               "//", ":@", "p=/a/../b", "%", "%zz", "t=~-._", "u=http://h/p?x"]
URL_ALPHA = "abzAZ019/.%+~:@=&;-_!$'()*,"
NETLOCS = ["host:8080", "127.0.0.1:1", "h", "user:pw@host:99", "[::1]:8080", "EXAMPLE.org"]


def gen_path(rng):
    r = rng.random()
    if r < 0.06:
        return ""
    if r < 0.10:
        return "/"
    n = rng.randint(1, 5)
    segs = []
    for _ in range(n):
        q = rng.random()
        if q < 0.7:
            segs.append(rng.choice(PATH_SEGS))
        elif q < 0.9:
            segs.append("".join(rng.choice(URL_ALPHA.replace("/", "")) for _ in range(rng.randint(1, 8))))
        else:
            segs.append("".join(rng.choice(URL_ALPHA) for _ in range(rng.randint(1, 12))))
    path = "/" + "/".join(segs)
    q = rng.random()
    if q < 0.3:
        path += "/"
    elif q < 0.36:
        path += "//"
    q = rng.random()
    if q < 0.1:
        path = "/" + path
    elif q < 0.15:
        path = "//" + path
    return path


def gen_query(rng):
    """Returns (has_question_mark, query)."""
    r = rng.random()
    if r < 0.25:
        return False, ""
    if r < 0.33:
        return True, ""  # bare '?'
    if r < 0.40:
        # long query: several KB
        unit = rng.choice(["k=v&", "a%20b+", "x", "=;/?:@"])
        return True, unit * rng.randint(500, 3000)
    n = rng.randint(1, 4)
    parts = []
    for _ in range(n):
        if rng.random() < 0.75:
            parts.append(rng.choice(QUERY_PARTS))
        else:
            parts.append("".join(rng.choice(URL_ALPHA + "?") for _ in range(rng.randint(1, 10))))
    return True, "&".join(parts)


def build_uri(pc):
    return "%s://%s%s%s" % (pc.get("scheme_text", pc["scheme"]), pc["netloc"], pc["path"], ("?" + pc["query"]) if pc["has_q"] else "")


def expected_target(pc):
    """From the property statement: path + ("?" + query when there is a query), "/" for an empty path, always "/" + query
    for unix+http."""
    base = "/" if (pc["scheme"] == "unix+http" or not pc["path"]) else pc["path"]
    return base + (("?" + pc["query"]) if pc["query"] else "")


def excluded(pc):
    """URLs outside the property's quantifier: ';' path parameters (where urlparse takes them) and '#' fragments."""
    if "#" in pc["path"] or "#" in pc["query"] or "#" in pc["netloc"]:
        return "fragment"
    if pc["scheme"] in ("http", "https") and ";" in pc["path"].rsplit("/", 1)[-1]:
        return "params"
    return None


def encodable(target):
    """What http.client's putrequest accepts: ASCII without control characters, space or DEL."""
    try:
        b = target.encode("ascii")
    except UnicodeEncodeError:
        return False
    return not any(c <= 0x20 or c == 0x7f for c in b)


class Env(object):
    """Per-run resources: configurations, scratch directory, the two socket peers (created on first use)."""

    def __init__(self):
        self.J = impl.jsonrpclib.jsonrpc
        self.cfg = impl.jsonrpclib.config.Config()
        self.tmpdir = None
        self.peers = {}
        self.old_timeout = socket.getdefaulttimeout()

    def peer(self, kind):
        if kind not in self.peers:
            if self.tmpdir is None:
                self.tmpdir = tempfile.mkdtemp(prefix="jrv-c17-")
            socket.setdefaulttimeout(60)
            self.peers[kind] = wirepeer.WirePeer(kind, self.tmpdir)
        return self.peers[kind]

    def close(self):
        for p in self.peers.values():
            p.stop()
        self.peers = {}
        socket.setdefaulttimeout(self.old_timeout)
        if self.tmpdir is not None:
            shutil.rmtree(self.tmpdir, ignore_errors=True)
            self.tmpdir = None


def send_through(env, pc, via, kind, cfg=None):
    """
    A real ServerProxy on the URL described by `pc`, one call or notification.  Returns
    (uri, pieces actually used, outcome, putrequest_args or None, [wire records]).
    via "rec": real transport of the scheme with make_connection returning a wirepeer.RecConn;
    via "tcp"/"unix": default transport over a real socket to the raw recording peer (netloc / socket path of the peer
    substituted into the URL).
    """
    J = env.J
    cfg = cfg or env.cfg
    pc = dict(pc)
    t = None
    if via == "rec":
        if pc["scheme"] == "https":
            t = wirepeer.recording_transport(J.SafeTransport, cfg, None)
        elif pc["scheme"] == "unix+http":
            t = wirepeer.recording_transport(J.UnixTransport, cfg, pc["path"] or None)
        else:
            t = wirepeer.recording_transport(J.Transport, cfg)
    elif via == "tcp":
        pc["scheme"], pc["netloc"] = "http", env.peer("tcp").netloc()
        pc.pop("scheme_text", None)
    elif via == "unix":
        pc["scheme"], pc["netloc"], pc["path"] = "unix+http", "", env.peer("unix").path
        pc.pop("scheme_text", None)
    else:
        raise ValueError(via)
    uri = build_uri(pc)
    k, p = impl.outcome(J.ServerProxy, uri, transport=t, config=cfg)
    if k != "ok":
        return uri, pc, (k, p), None, []
    try:
        if kind == "notify":
            out = impl.outcome(p._notify.ping, 1)
        else:
            out = impl.outcome(p.ping, 1)
    finally:
        try:
            p("close")()
        except Exception:  # noqa: BLE001
            pass
    if via == "rec":
        args = [r for c in t.rec_conns for r in c.requests]
        recs = [c.record() for c in t.rec_conns if c.record() is not None]
    else:
        args = None
        recs = env.peer(via).collect()
        if out[0] == "err" and isinstance(out[1], (socket.timeout, ConnectionError)):
            raise core.InfraError("socket trouble talking to the recording peer (%s): %r" % (via, out[1]))
    return uri, pc, out, args, recs


def target_monitor(pc, out, args, recs, cfg):
    """The statement on one proxy request.  Returns (verdict, detail, captured target or None); verdict in
    "ok" | "rejected" (http.client refused to write the target: nothing was emitted) | "violation"."""
    want = expected_target(pc)
    if args is not None:
        if len(args) != 1:
            return "violation", "%d putrequest calls for one proxy request: %r" % (len(args), args[:3]), None
        if args[0] != ("POST", want):
            return "violation", "request target %r handed to putrequest, expected %r" % (args[0][1], want), args[0][1]
    if not encodable(want):
        # http.client refuses such a target before any byte is written: nothing emitted is not a wrong emission
        if recs and any(r.raw for r in recs):
            return "violation", "bytes were emitted for a target http.client cannot write: %r" % (recs[0].request_line[:80],), None
        if out[0] != "err":
            return "violation", "request with an unwritable target %r reported success" % want[:80], None
        return "rejected", type(out[1]).__name__, (args[0][1] if args else None)
    if len(recs) != 1:
        return "violation", "%d requests on the wire for one proxy request (outcome %r)" % (len(recs), out), None
    rec = recs[0]
    line = ("POST %s HTTP/1.1" % want).encode("ascii")
    if rec.request_line != line:
        got = rec.target()
        return "violation", "request line %r on the wire, expected %r" % (rec.request_line[:300], line[:300]), (
            got.decode("latin-1") if got is not None else None)
    m = wire_frame_monitor(rec, cfg)
    if m:
        return "violation", m, want
    if out[0] != "ok":
        return "violation", "request written correctly but the call failed: %r" % (out[1],), want
    return "ok", "", want


# --------------------------------------------------------------------------------------------


def run(ctx):
    env = Env()
    try:
        _run(ctx, env)
    finally:
        env.close()


def _run(ctx, env):
    import jsonrpclib.SimpleJSONRPCServer as SRV
    J = env.J
    cfgs = [impl.jsonrpclib.config.Config(content_type=ct) for ct in ("application/json-rpc", "application/json", "text/x-é")]
    ctx.rule = ("bodies (ASCII and multi-byte UTF-8, 0 bytes to a few KB, plus one body beyond the 10 MiB read-chunk size with a "
                "multi-byte character on the boundary) x chunkings (all 2^(n-1) splits of bodies up to 10 (quick) / 12 (thorough) "
                "bytes, random cuts otherwise) through JSONTarget, Transport.parse_response (identity and gzip) and do_POST with "
                "short reads; do_POST replies for dispatcher results text/''/None/raise, undecodable and short bodies, bad "
                "Content-Length headers; Content-Length/Content-Type lines of client, server and CGI (10 encoding= values) for "
                "each body x content type; request lines of real ServerProxy calls/notifications captured as bytes (in-memory "
                "http.client connection for http/https/unix+http; raw TCP and Unix-socket peers for a sample) over random "
                "paths/queries (percent-escapes in both cases, dot segments, repeated/trailing slashes, bare '?', several-KB "
                "queries) and every scheme; distinct_nontrivial = chunkings with a cut inside a multi-byte character, "
                "non-ASCII frames, distinct (scheme, path, query) targets; texts with a leading / inner / trailing U+FEFF, U+FFFE, NUL, "
                "CR LF (class:text/…) through every reassembly path; bodies as bytes (harness/bytecases.py: BOM prefixes UTF-8/16/32, UTF-16/32 "
                "without mark, invalid / overlong / truncated UTF-8, surrogates in UTF-8, NUL, latin-1; class:bytes/<variant>) through do_POST "
                "with an echoing dispatcher and through JSONTarget / parse_response: what is handed on is the strict UTF-8 decoding of the "
                "bytes read, all of it, and bytes without decoding are never handed on; sequences of 2..6 responses through ONE real "
                "transport object (class:session/…): healthy ones (identity / gzip, any chunking) after and between responses whose read "
                "raises part-way (ConnectionResetError, BrokenPipeError, timeout, IncompleteRead, OSError, truncated gzip; 0 / 1 / 2+ chunks "
                "fed before), via parse_response and via a real ServerProxy over scripted in-memory connections (bad chunk header, reset "
                "with the library's retry, time-out, truncated gzip after >= 1024 body bytes)")
    lines, impl_out = [], []

    def boundary_inside_char(chunks):
        pos = 0
        for c in chunks[:-1]:
            pos += len(c)
            try:
                b"".join(chunks)[:pos].decode("utf-8")
            except UnicodeDecodeError:
                return True
        return False

    def note_text_class(text, side):
        if text.startswith("\ufeff"):
            ctx.hist["class:text/leading-U+FEFF/" + side] += 1
        elif "\ufeff" in text:
            ctx.hist["class:text/inner-U+FEFF/" + side] += 1
        if "\x00" in text:
            ctx.hist["class:text/NUL/" + side] += 1

    def client_case(text, chunks, gz=False):
        body = text.encode("utf-8")
        # JSONTarget directly
        tgt = J.JSONTarget()

        def feed_all():
            for c in chunks:
                tgt.feed(c)
            return tgt.close()
        k0, out = impl.outcome(feed_all)
        if k0 != "ok" or out != text:
            ctx.violate({"body_hex": body.hex(), "chunks": [c.hex() for c in chunks], "via": "JSONTarget"},
                        "client reassembly %s %r differs from the decoding of the whole %r" % (k0, out, text), key="client-reassembly")
        lines.append("wclient " + " ".join(hx(c) for c in chunks))
        impl_out.append("raised " + type(out).__name__ if k0 != "ok" else (("text " + hs(out)) if isinstance(out, str) else ("raw " + hx(out))))
        # the real response parser, identity or gzip
        t = J.Transport(cfgs[0])
        if gz:
            raw = gzip.compress(body)
            parts = random_cuts(ctx.rng, raw, 5)
            resp = ChunkResponse(parts, {"content-encoding": "gzip"})
        else:
            parts = chunks
            resp = ChunkResponse(chunks, {})
        k, v = impl.outcome(t.parse_response, resp)
        if k != "ok" or v != text:
            ctx.violate({"body_hex": body.hex(), "chunks": [c.hex() for c in parts], "gzip": gz, "via": "parse_response"},
                        "parse_response gave %r %r, whole decoding is %r" % (k, v, text), key="client-parse-response")
        inside = boundary_inside_char(chunks)
        note_text_class(text, "client")
        ctx.count(case_repr={"client_body": text[:40], "chunks": [c.hex() for c in chunks][:8], "gzip": gz},
                  nontrivial_key=("c", body.hex()[:40], tuple(len(c) for c in chunks)) if inside else None,
                  kind="client/%s/%s" % ("gzip" if gz else "identity", "cut-in-char" if inside else "clean"))

    def client_bytes_case(b, chunks, vname):
        """Response bytes that are not (or not only) the encoding of a JSON text, through JSONTarget and the real parse_response:
        when the bytes have a UTF-8 decoding the text returned is that decoding, all of it; otherwise no text is made up."""
        want = bytecases.strict_text(b)
        for via in ("JSONTarget", "parse_response"):
            if via == "JSONTarget":
                tgt = J.JSONTarget()

                def feed_all():
                    for c in chunks:
                        tgt.feed(c)
                    return tgt.close()
                k, out = impl.outcome(feed_all)
            else:
                k, out = impl.outcome(J.Transport(cfgs[0]).parse_response, ChunkResponse(chunks, {}))
            m = None
            if want is not None and (k != "ok" or out != want):
                m = "client reassembly %s %r differs from the decoding of the whole %r" % (k, out, want)
            elif want is None and k == "ok" and isinstance(out, str):
                m = "the client made the text %r of bytes that have no UTF-8 decoding (%s)" % (out[:60], b[:24].hex())
            if m:
                ctx.violate({"body_hex": b.hex(), "chunks": [c.hex() for c in chunks], "via": via, "bytes_variant": vname}, m,
                            key="client-reassembly" if via == "JSONTarget" else "client-parse-response")
            if via == "JSONTarget":
                lines.append("wclient " + " ".join(hx(c) for c in chunks))
                impl_out.append("raised " + type(out).__name__ if k != "ok" else (("text " + hs(out)) if isinstance(out, str) else ("raw " + hx(out))))
        ctx.count(case_repr={"client_bytes": b[:40].hex(), "variant": vname}, nontrivial_key=("cb", vname, len(chunks)), kind="client/bytes/" + vname)

    def server_case(text, sizes, cfg, extra=b""):
        body = text.encode("utf-8")
        status, got, hlines, written = drive_do_post(body + extra, sizes, cfg, declared=len(body))
        total = 0
        rem = len(body)
        avail = len(body) + len(extra)
        for s in sizes:
            g = min(s, rem, MAXCHUNK, avail)
            if g == 0:
                break
            total += g
            rem -= g
            avail -= g
        complete = total == len(body)
        if complete:
            if status != [200] or got != [text]:
                ctx.violate({"body_hex": body.hex(), "reads": list(sizes), "via": "do_POST"},
                            "server handed %r (status %r) to the dispatcher, whole decoding is %r" % (got, status, text),
                            key="server-reassembly")
            else:
                m = frame_monitor(hlines, written, text, cfg)
                if m:
                    ctx.violate({"body_hex": body.hex(), "reads": list(sizes), "via": "do_POST"}, m, key="server-frame")
        lines.append("wserver %d %d %s %s" % (MAXCHUNK, len(body), hx(body + extra), " ".join(str(s) for s in sizes)))
        if status == [200] and got:
            impl_out.append("ok %s" % hs(got[0]))
        else:
            impl_out.append("err UnicodeDecodeError")
        chunks = []
        b = body + extra
        rem = len(body)
        for s in sizes:
            g = min(s, rem, len(b))
            if g == 0:
                break
            chunks.append(b[:g])
            b = b[g:]
            rem -= g
        inside = boundary_inside_char(chunks) if complete else False
        note_text_class(text, "server")
        ctx.count(case_repr={"server_body": text[:40], "reads": list(sizes)[:10], "status": status},
                  nontrivial_key=("s", body.hex()[:40], tuple(sizes)) if inside else None,
                  kind="server/%s/%s" % ("complete" if complete else "short", "cut-in-char" if inside else "clean"))

    def post_case(stream, sizes, cfg, declared, spec):
        """The whole of do_POST, every way its try block can end; framing monitor on whatever reply is produced."""
        status, got, hlines, written = drive_do_post(stream, sizes, cfg, declared=declared, dispatch=spec)
        case = {"via": "do_POST reply", "stream_hex": stream.hex(), "reads": list(sizes), "declared": declared,
                "dispatch": spec, "content_type": cfg.content_type}
        m = reply_frame_monitor(hlines, written, cfg)
        if m is None and status not in ([200], [500]):
            m = "status %r" % (status,)
        # "the decoded text equals the decoding of the whole": whatever text reaches the dispatcher is the strict UTF-8 decoding of the
        # bytes that were read — all of them, nothing dropped or replaced — and bytes that have no decoding never reach it
        if isinstance(declared, int):
            sent, complete = delivered(stream, sizes, declared)
            want = bytecases.strict_text(sent)
            if got and want is None:
                ctx.violate(case, "the dispatcher was handed %r although the %d bytes read (%s) are not UTF-8: they have no decoding"
                            % (got[0][:60], len(sent), sent[:24].hex()), key="server-decoding-invented")
            elif got and got[0] != want:
                ctx.violate(case, "the dispatcher was handed %r, the decoding of the bytes sent (%s) is %r" % (got[0][:60], sent[:24].hex(), want[:60]),
                            key="server-decoding-differs")
            elif not got and want is not None and complete and status == [500]:
                ctx.violate(case, "a complete body with the UTF-8 decoding %r was refused (status 500) before the dispatcher saw it" % (want[:60],),
                            key="server-decoding-refused")
        if m is None and got and status == [200]:
            want = {"echo": got[0], "none": "", "empty": ""}.get(spec) if isinstance(spec, str) else spec[1]
            if want is not None and written != want.encode("utf-8"):
                m = "reply body %r is not the encoding of the dispatcher's result %r" % (written[:40], want[:40])
        if m:
            ctx.violate(case, m, key="server-frame")
        fault = ""
        if status == [500]:
            try:
                fault = written.decode("utf-8")
            except UnicodeDecodeError:
                fault = None
        if fault is not None and isinstance(declared, int):
            disp = spec if isinstance(spec, str) else "text:" + hs(spec[1]) if spec[1] else "empty"
            lines.append("wpost %d %s %s %d %s %s %s" % (MAXCHUNK, hs(cfg.content_type), hs(fault), declared, hx(stream), disp,
                                                         " ".join(str(s) for s in sizes)))
            impl_out.append("%s %s %s %s" % (status[0] if status else "?", dict((k.lower(), v) for k, v in hlines).get("content-length", "?"),
                                             hs(dict((k.lower(), v) for k, v in hlines).get("content-type", "?")), hx(written)))
        elif fault is not None:
            lines.append("wpost %d %s %s none %s %s %s" % (MAXCHUNK, hs(cfg.content_type), hs(fault), hx(stream),
                                                           spec if isinstance(spec, str) else "empty", " ".join(str(s) for s in sizes)))
            impl_out.append("%s %s %s %s" % (status[0] if status else "?", dict((k.lower(), v) for k, v in hlines).get("content-length", "?"),
                                             hs(dict((k.lower(), v) for k, v in hlines).get("content-type", "?")), hx(written)))
        ctx.count(kind="post/%s/%s" % (spec if isinstance(spec, str) else "text", status[0] if status else "?"),
                  nontrivial_key=("p", stream.hex()[:30], tuple(sizes)[:6], str(declared), str(spec)[:20]) if status == [500] or spec in ("none", "empty") else None)

    def frame_case(text, cfg):
        body = text.encode("utf-8")
        # client
        t = J.Transport(cfg)
        rec = Rec()
        t.send_content(rec, text)
        m = frame_monitor(rec.lines, rec.body if body else None, text, cfg)
        if m:
            ctx.violate({"body": text, "content_type": cfg.content_type, "via": "client send_content"}, m, key="client-frame")
        # server reply
        status, got, hlines, written = drive_do_post(b"{}", [2], cfg, reply_text=text)
        m = frame_monitor(hlines, written, text, cfg)
        if m or status != [200]:
            ctx.violate({"via": "do_POST reply", "stream_hex": b"{}".hex(), "reads": [2], "declared": 2,
                         "dispatch": ["text", text], "content_type": cfg.content_type}, m or "status %r" % status, key="server-frame")
        # CGI (default encoding)
        oc, cgi_lines, cgi_body, head = run_cgi(SRV, cfg, text)
        m = cgi_monitor(oc, cgi_lines, cgi_body, head, text, cfg, None) or frame_monitor(cgi_lines, cgi_body, text, cfg)
        if m:
            ctx.violate({"body": text, "content_type": cfg.content_type, "encoding": None, "via": "CGI"}, m, key="cgi-frame")
        lines.append("wframe %s %s" % (hs(cfg.content_type), hs(text)))

        def val(ls, name):
            return ([v for k, v in ls if k.lower() == name] or ["?"])[0]
        impl_out.append(" ".join([val(rec.lines, "content-length"), val(hlines, "content-length"), str(val(cgi_lines, "content-length")),
                                  hx(written), hs(val(rec.lines, "content-type")), hs(val(hlines, "content-type")),
                                  hs(val(cgi_lines, "content-type"))]))
        ctx.count(kind="frame/%s" % ("ascii" if len(body) == len(text) else "multibyte"),
                  nontrivial_key=("f", text[:20], cfg.content_type) if len(body) != len(text) else None)

    def cgi_case(text, cfg, enc):
        oc, hl, body, head = run_cgi(SRV, cfg, text, enc)
        m = cgi_monitor(oc, hl, body, head, text, cfg, enc)
        if m:
            ctx.violate({"body": text, "content_type": cfg.content_type, "encoding": enc, "via": "CGI"}, m, key="cgi-frame")
        lines.append("wcgi %s %s %s" % (hs(enc), hs(cfg.content_type), hs(text)))
        if oc[0] == "ok":
            d = dict((k.lower(), v) for k, v in hl)
            impl_out.append("ok %s %s %s" % (d.get("content-length", "?"), hs(d.get("content-type", "?")), hx(body)))
        else:
            impl_out.append("err " + type(oc[1]).__name__)
        ctx.count(kind="cgi/%s/%s" % (enc, "ok" if oc[0] == "ok" else type(oc[1]).__name__),
                  nontrivial_key=("g", enc, text[:20]) if len(text.encode("utf-8")) != len(text) else None)

    # ---- client + server reassembly
    small = [t for t in TEXTS if len(t.encode("utf-8")) <= (12 if ctx.thorough else 10)]
    for text in small:
        b = text.encode("utf-8")
        for ch in chunkings(b):
            client_case(text, ch)
            server_case(text, [len(c) for c in ch] or [1], cfgs[0])
    if ctx.thorough:
        ctx.exhaustive = not ctx.searching
    for _ in range(ctx.budget(300, 4000)):
        text = ctx.rng.choice(TEXTS) if ctx.rng.random() < 0.4 else "".join(
            ctx.rng.choice("ab{}\":, é日\U0001f600\u0301") for _ in range(ctx.rng.randint(0, 60)))
        b = text.encode("utf-8")
        ch = random_cuts(ctx.rng, b)
        client_case(text, ch, gz=ctx.rng.random() < 0.3)
        sizes = [len(c) for c in ch] or [1]
        r = ctx.rng.random()
        if r < 0.15 and sizes:
            sizes = sizes[:-1]  # connection ends early: incomplete body
        elif r < 0.3:
            sizes = [s + ctx.rng.randint(0, 3) for s in sizes] + [5]  # reads offer more than requested
        server_case(text, sizes, cfgs[0], extra=b"NEXT" if ctx.rng.random() < 0.3 else b"")

    # ---- do_POST: every way the try block ends (200 with text / "" / None, 500 with the fault body)
    prng = ctx.derive_rng("post")
    specs = ["echo", "none", "empty", "raise", ["text", "é"], ["text", '{"result": "日本"}']]
    for spec, cfg in itertools.product(specs, cfgs):
        post_case("é{}".encode("utf-8"), [1, 1, 2], cfg, 4, spec)
    for cfg in cfgs:
        post_case(b"\xc3", [1], cfg, 1, "echo")                    # undecodable body -> 500
        post_case(b"\xff\xfe{}", [4], cfg, 4, "echo")              # invalid UTF-8 -> 500
        post_case("é".encode("utf-8"), [1], cfg, 2, "echo")        # connection ends inside a character -> 500
        post_case(b"{}", [2], cfg, "missing", "echo")              # no Content-Length header -> int(None) raises -> 500
        post_case(b"{}", [2], cfg, "abc", "echo")                  # not an integer -> 500
        post_case(b"", [], cfg, 0, "echo")                         # empty body: dispatcher gets ""
    # bodies as bytes (harness/bytecases.py): BOM prefixes, UTF-16 / UTF-32, invalid / overlong / truncated UTF-8, surrogates in UTF-8,
    # NUL, latin-1 — through do_POST (echoing dispatcher: what it is handed is what the reply carries) in one read and in random
    # cuts, and through the client's JSONTarget / parse_response
    for bname, req in bytecases.BASE_REQUESTS[:(len(bytecases.BASE_REQUESTS) if ctx.thorough else 2)]:
        for vname, b in bytecases.byte_variants(req):
            ctx.hist["class:bytes/%s" % vname] += 1
            post_case(b, [len(b)], cfgs[0], len(b), "echo")
            post_case(b, [len(c) for c in random_cuts(prng, b)] or [1], prng.choice(cfgs), len(b), prng.choice(["echo", "echo", "none", "raise"]))
            client_bytes_case(b, random_cuts(prng, b) if prng.random() < 0.7 else [b], vname)
    for _ in range(ctx.budget(80, 1500)):
        text = "".join(prng.choice("ab{}\":, é日\U0001f600") for _ in range(prng.randint(0, 30)))
        b = text.encode("utf-8")
        r = prng.random()
        if r < 0.25 and b:
            i = prng.randrange(len(b))
            b = b[:i] + bytes([prng.choice([0xff, 0xc3, 0x80, 0xe6])]) + b[i + 1:]  # possibly invalid UTF-8
        sizes = [len(c) for c in random_cuts(prng, b)] or [1]
        if prng.random() < 0.15:
            sizes = sizes[:-1]
        spec = prng.choice(specs + ["echo", "raise"])
        post_case(b, sizes, prng.choice(cfgs), len(b), spec)

    # ---- framing
    for text, cfg in itertools.product(TEXTS, cfgs):
        frame_case(text, cfg)
    for _ in range(ctx.budget(60, 600)):
        text = "".join(ctx.rng.choice("ab{}\":, é日\U0001f600") for _ in range(ctx.rng.randint(0, 200)))
        frame_case(text, ctx.rng.choice(cfgs))
    # ---- CGI with the encoding= constructor parameter
    grng = ctx.derive_rng("cgi")
    cgi_texts = ["", "{}", "abc", "é", "ÿ\u00a0", "日本語", "a\U0001f600b", '{"k": "\u20ac"}', "x" * 300, "\x7f\x80"]
    for text, enc in itertools.product(cgi_texts, CGI_ENCODINGS):
        cgi_case(text, cfgs[(len(text) + len(enc)) % len(cfgs)], enc)
    for _ in range(ctx.budget(60, 600)):
        alpha = grng.choice(["ab{}\":, ", "ab{}é\u00ff\u00a0", "ab{}\":, é日\U0001f600€"])
        text = "".join(grng.choice(alpha) for _ in range(grng.randint(0, 80)))
        cgi_case(text, grng.choice(cfgs), grng.choice(CGI_ENCODINGS))

    # ---- a body beyond the server's read-chunk size with a multi-byte character on the chunk boundary, over the fake
    #      connection (costs ~0.1 s: part of the quick tier too; only the search stage skips it)
    if not ctx.searching:
        big = ("x" * (MAXCHUNK - 1)) + "é" + "tail"
        bb = big.encode("utf-8")
        status, got, hl, wr = drive_do_post(bb, [len(bb)] * 3, cfgs[0], reply_text="")
        if status != [200] or got != [big]:
            ctx.violate({"via": "do_POST big", "body": "x*(10MiB-1) + é + tail"},
                        "body beyond the read-chunk size with a multi-byte character across the boundary: status %r, dispatcher got %s"
                        % (status, "the body" if got == [big] else ("%d texts" % len(got))), key="server-reassembly-big")
        ctx.count(kind="server/big-body", nontrivial_key=("big",))
        del big, bb, got

    # ---- sequences of responses through one transport object (a response that fails part-way, then healthy ones)
    wiresessions.run_sessions(ctx, env, cfgs, lines, impl_out)

    # ---- request targets and schemes
    targets(ctx, env, cfgs, lines, impl_out)

    outs = ctx.lean(lines)
    unmodelled = 0
    for ln, mo, io_ in zip(lines, outs, impl_out):
        m = mo.split(" chunks=")[0]
        if m == "err Unmodelled":
            unmodelled += 1
            continue
        if m != io_:
            ctx.disagree(ln[:400], io_[:400], m[:400], component=ln.split(" ")[0])
    ctx.traces_validated += len(lines) - unmodelled
    ctx.hist["model/unmodelled (CGI codecs other than utf-8/ascii/latin-1)"] += unmodelled
    ctx.assumptions.append("gzip decompression and urllib.parse.urlparse are CPython, outside the model (the gzip path is exercised on the real parser only; the URL monitor builds the URL from its own path/query pieces and does not ask urlparse)")
    ctx.assumptions.append("a bare '?' (empty query) contributes nothing to the request target: urlparse drops it and the library requests the path alone; ';' path parameters (urlparse splits them off the last segment for http/https) and '#' fragments are excluded as the property says")
    ctx.assumptions.append("targets http.client cannot write (non-ASCII, control characters, space) make putrequest raise before any byte is emitted: counted as 'rejected', not as a wrong target")


def targets(ctx, env, cfgs, lines, impl_out):
    J = env.J
    urng = ctx.derive_rng("url")

    def one(pc, via, kind, cfg=None):
        cfg = cfg or env.cfg
        uri0 = build_uri(pc)
        try:
            su = urlparse(uri0)
        except ValueError:
            ctx.count(kind="url/unparsable")
            return
        supported = pc["scheme"] in SUPPORTED
        # construction with the default transport decides acceptance (no connection is made)
        k, v = impl.outcome(J.ServerProxy, uri0)
        if supported and k != "ok":
            ctx.violate({"via": "scheme", "uri": uri0}, "supported scheme rejected: %r" % (v,), key="scheme-reject")
        if not supported and (k != "err" or not isinstance(v, IOError)):
            ctx.violate({"via": "scheme", "uri": uri0}, "unsupported scheme %r accepted (%s %r)" % (pc["scheme"], k, v), key="scheme-accept")
        if k == "ok":
            try:
                v("close")()
            except Exception:  # noqa: BLE001
                pass
        if not supported or k != "ok":
            lines.append("wtarget %s %s %s %s" % (hs(su.scheme), hs(su.netloc), hs(su.path), hs(su.query)))
            impl_out.append("err OSError" if k != "ok" else "ok ?")
            ctx.count(kind="url/%s/unsupported" % (pc["scheme"] or "none"), nontrivial_key=("u", pc["scheme"]))
            return
        uri, pc2, out, args, recs = send_through(env, pc, via, kind, cfg)
        su2 = urlparse(uri)
        ex = excluded(pc2)
        if ex or su2.params or su2.fragment or (su2.path, su2.query) != (pc2["path"], pc2["query"]):
            # outside the quantifier (or urlparse sees other pieces than the generator meant): counted, not judged
            ctx.count(kind="url/excluded/%s" % (ex or ("params" if su2.params else "urlparse-differs")))
            return
        verdict, detail, captured = target_monitor(pc2, out, args, recs, cfg)
        case = {"via": "target/" + via, "pieces": pc, "kind": kind, "uri": uri, "expected": expected_target(pc2),
                "captured": captured, "content_type": cfg.content_type}
        if verdict == "violation":
            ctx.violate(case, "%s: %s" % (uri if len(uri) < 200 else uri[:200] + "...", detail), key="target")
        if captured is not None:
            lines.append("wtarget %s %s %s %s" % (hs(su2.scheme), hs(su2.netloc), hs(su2.path), hs(su2.query)))
            impl_out.append("ok " + hs(captured))
        feat = []
        if pc2["path"].endswith("/") and len(pc2["path"]) > 1:
            feat.append("trailing-slash")
        if "//" in pc2["path"]:
            feat.append("double-slash")
        if "/./" in pc2["path"] or "/../" in pc2["path"]:
            feat.append("dot-segment")
        if "%" in pc2["path"] + pc2["query"]:
            feat.append("percent")
        if pc["has_q"] and not pc["query"]:
            feat.append("bare-qmark")
        if len(pc["query"]) > 2000:
            feat.append("long-query")
        for f in feat:
            ctx.hist["url-feature/" + f] += 1
        ctx.count(case_repr=None, kind="url/via-%s/%s/%s" % (via, pc2["scheme"], verdict),
                  nontrivial_key=("u", via, pc["scheme"], pc2["path"][:60], pc2["query"][:60], len(pc2["query"])))

    # systematic: every scheme x a small list of paths and queries (recording connection)
    schemes = ["http", "https", "unix+http", "unix+https", "ftp", "", "HTTP", "unix", "unix+", "unix+ftp", "httpx", "ws", "file"]
    paths = ["", "/", "/RPC2", "/a/b%20c", "/é", "//x", "/tmp/sock.s", "/api/v1/", "/a/./b/../c", "/a%2fb%2Fc"]
    queries = [(False, ""), (True, "a=1"), (True, "a=1&b=%2F"), (True, "x"), (True, "q=é"), (True, "a=b=c"), (True, "")]
    i = 0
    for sch, path, (hq, q) in itertools.product(schemes, paths, queries):
        i += 1
        # scheme names are case-insensitive (urlparse lower-cases them): "HTTP" is the http scheme
        one({"scheme": sch.lower(), "scheme_text": sch, "netloc": "host:8080", "path": path, "has_q": hq, "query": q},
            "rec", "call" if i % 2 else "notify")

    def rand_pc(ascii_only=False):
        for _ in range(50):
            hq, q = gen_query(urng)
            pc = {"scheme": urng.choice(["http", "http", "https", "unix+http"]), "netloc": urng.choice(NETLOCS),
                  "path": gen_path(urng), "has_q": hq, "query": q}
            if not ascii_only or encodable(expected_target(pc)):
                return pc
        return {"scheme": "http", "netloc": "h", "path": "/x/", "has_q": False, "query": ""}

    # random paths/queries through the real transports over the in-memory http.client connection
    for n in range(ctx.budget(350, 6000)):
        one(rand_pc(), "rec", "call" if urng.random() < 0.6 else "notify", cfg=cfgs[n % len(cfgs)] if n % 5 == 0 else None)
    # a sample over real sockets: bytes of the request line as read by a raw recording peer
    fixed = [("/api/v1/", True, "x=1"), ("//x", True, "a=1"), ("/a/./b/../c/", False, ""), ("/a%2fb%2Fc", True, "q=%2f%2F"),
             ("", True, "a=b=c"), ("/", True, ""), ("/é", False, ""), ("/q", True, "q=é")]
    for via in ("tcp", "unix"):
        for path, hq, q in fixed:
            one({"scheme": "http", "netloc": "h", "path": path, "has_q": hq, "query": q}, via, "call")
        for n in range(ctx.budget(25, 400)):
            one(rand_pc(ascii_only=(n % 8 != 0)), via, "call" if urng.random() < 0.6 else "notify")
    # framing of client requests as bytes on a real socket (Transport.request with a text of the harness' choosing)
    peer = env.peer("tcp")
    for n, text in enumerate(TEXTS + ["é" * 3000]):
        cfg = cfgs[n % len(cfgs)]
        t = J.Transport(cfg)
        k, v = impl.outcome(t.request, peer.netloc(), "/frame", text)
        t.close()
        recs = peer.collect()
        if k == "err" and isinstance(v, (socket.timeout, ConnectionError)):
            raise core.InfraError("socket trouble talking to the recording peer (tcp): %r" % (v,))
        m = None
        if len(recs) != 1:
            m = "%d requests on the wire for one Transport.request (outcome %s %r)" % (len(recs), k, v)
        else:
            m = wire_frame_monitor(recs[0], cfg)
            if m is None and recs[0].after_head != text.encode("utf-8"):
                m = "body bytes on the wire %r are not the UTF-8 encoding of %r" % (recs[0].after_head[:40], text[:40])
        if m:
            ctx.violate({"via": "wire frame", "body": text, "content_type": cfg.content_type}, m, key="client-frame")
        ctx.count(kind="frame/wire-tcp", nontrivial_key=("fw", text[:20]) if len(text.encode("utf-8")) != len(text) else None)


def delivered(stream, sizes, declared):
    """(bytes the read loop of do_POST is given, were they the declared number) for a stream served in reads of `sizes`."""
    total, rem, avail = 0, declared, len(stream)
    for s in sizes:
        g = min(s, rem, MAXCHUNK, avail)
        if g <= 0:
            break
        total += g
        rem -= g
        avail -= g
    return stream[:total], total == declared


class Rec(object):
    def __init__(self):
        self.lines = []
        self.body = b""

    def putheader(self, k, v):
        self.lines.append((k, v))

    def endheaders(self):
        pass

    def send(self, b):
        self.body = b


# --------------------------------------------------------------------------------------------


def replay(payload):
    case = payload.get("case", {})
    shown = dict(case)
    if isinstance(shown.get("pieces"), dict) and len(shown["pieces"].get("query", "")) > 300:
        shown["pieces"] = dict(shown["pieces"], query=shown["pieces"]["query"][:300] + "...(%d chars)" % len(case["pieces"]["query"]))
    print(json.dumps(shown, indent=1, ensure_ascii=False)[:3000])
    import jsonrpclib.SimpleJSONRPCServer as SRV
    J = impl.jsonrpclib.jsonrpc
    cfg = impl.jsonrpclib.config.Config(content_type=case["content_type"]) if case.get("content_type") else impl.jsonrpclib.config.Config()
    via = case.get("via", "")

    def verdict(m):
        if m:
            print("VIOLATION reproduced:", m)
            return 1
        print("not reproduced on this tree")
        return 0

    if via.startswith("session/"):
        problems = wiresessions.replay_session(J, cfg, case)
        return verdict("; ".join(problems) if problems else None)
    if via == "do_POST" and "reads" in case:
        body = bytes.fromhex(case["body_hex"])
        status, got, hl, wr = drive_do_post(body, case["reads"], cfg)
        print("status", status, "dispatcher got", got, "headers", hl)
        if status != [200] or got != [body.decode("utf-8")]:
            return verdict("dispatcher got %r (status %r), whole decoding is %r" % (got, status, body.decode("utf-8")))
        return verdict(frame_monitor(hl, wr, body.decode("utf-8"), cfg))
    if via == "do_POST big":
        big = ("x" * (MAXCHUNK - 1)) + "é" + "tail"
        bb = big.encode("utf-8")
        status, got, hl, wr = drive_do_post(bb, [len(bb)] * 3, cfg, reply_text="")
        print("status", status, "dispatcher got the body:", got == [big])
        return verdict(None if (status == [200] and got == [big]) else "status %r" % (status,))
    if via == "do_POST reply":
        spec = case["dispatch"]
        status, got, hl, wr = drive_do_post(bytes.fromhex(case["stream_hex"]), case["reads"], cfg, declared=case["declared"], dispatch=spec)
        print("status", status, "headers", hl, "written", wr[:200])
        m = reply_frame_monitor(hl, wr, cfg)
        if m is None and status == [200] and not isinstance(spec, str) and wr != spec[1].encode("utf-8"):
            m = "reply body %r is not the encoding of %r" % (wr[:40], spec[1][:40])
        if m is None and isinstance(case["declared"], int):
            sent, complete = delivered(bytes.fromhex(case["stream_hex"]), case["reads"], case["declared"])
            want = bytecases.strict_text(sent)
            print("bytes read", sent.hex(), "strict UTF-8 decoding", repr(want), "dispatcher was handed", got)
            if got and want is None:
                m = "the dispatcher was handed %r although the bytes read are not UTF-8" % (got[0][:60],)
            elif got and got[0] != want:
                m = "the dispatcher was handed %r, the decoding of the bytes sent is %r" % (got[0][:60], want[:60])
            elif not got and want is not None and complete and status == [500]:
                m = "a complete body with the UTF-8 decoding %r was refused (status 500)" % (want[:60],)
        return verdict(m)
    if via == "JSONTarget":
        tgt = J.JSONTarget()

        def feed_all():
            for c in case["chunks"]:
                tgt.feed(bytes.fromhex(c))
            return tgt.close()
        k0, out = impl.outcome(feed_all)
        print("feed/close ->", k0, repr(out))
        want = bytecases.strict_text(bytes.fromhex(case["body_hex"]))
        if want is None:
            return verdict("text %r made of bytes that have no UTF-8 decoding" % (out[:60],) if (k0 == "ok" and isinstance(out, str)) else None)
        return verdict(None if (k0 == "ok" and out == want) else "reassembly %s %r differs from %r" % (k0, out, want))
    if via == "parse_response":
        want = bytecases.strict_text(bytes.fromhex(case["body_hex"]))
        resp = ChunkResponse([bytes.fromhex(c) for c in case["chunks"]], {"content-encoding": "gzip"} if case.get("gzip") else {})
        k, v = impl.outcome(J.Transport(cfg).parse_response, resp)
        print("parse_response ->", k, repr(v))
        if want is None:
            return verdict("text %r made of bytes that have no UTF-8 decoding" % (v[:60],) if (k == "ok" and isinstance(v, str)) else None)
        return verdict(None if (k == "ok" and v == want) else "parse_response gave %s %r, whole decoding is %r" % (k, v, want))
    if via == "client send_content":
        rec = Rec()
        text = case["body"]
        J.Transport(cfg).send_content(rec, text)
        print("header lines", rec.lines, "body", rec.body[:200])
        return verdict(frame_monitor(rec.lines, rec.body if text else None, text, cfg))
    if via == "CGI":
        oc, hl, body, head = run_cgi(SRV, cfg, case["body"], case.get("encoding"))
        print("outcome", oc, "header text", repr(head), "body", body[:200])
        m = cgi_monitor(oc, hl, body, head, case["body"], cfg, case.get("encoding"))
        if m is None and case.get("encoding") is None and oc[0] == "ok":
            m = frame_monitor(hl, body, case["body"], cfg)
        return verdict(m)
    if via == "scheme":
        uri = case["uri"]
        k, v = impl.outcome(J.ServerProxy, uri)
        sch = uri.split("://", 1)[0]
        print("ServerProxy(%r) ->" % uri, k, repr(v))
        return verdict(None if ((sch in SUPPORTED) == (k == "ok")) else "scheme %r: construction %s" % (sch, k))
    if via.startswith("target/") or via == "wire frame":
        env = Env()
        try:
            if via == "wire frame":
                peer = env.peer("tcp")
                t = J.Transport(cfg)
                k, v = impl.outcome(t.request, peer.netloc(), "/frame", case["body"])
                t.close()
                recs = peer.collect()
                print("outcome", k, repr(v), "on the wire:", [r.raw[:300] for r in recs])
                m = "%d requests" % len(recs) if len(recs) != 1 else wire_frame_monitor(recs[0], cfg)
                if m is None and recs[0].after_head != case["body"].encode("utf-8"):
                    m = "body bytes on the wire are not the UTF-8 encoding of the text"
                return verdict(m)
            uri, pc2, out, args, recs = send_through(env, case["pieces"], via.split("/", 1)[1], case.get("kind", "call"), cfg)
            print("uri:", uri if len(uri) < 400 else uri[:400] + "...")
            print("outcome:", out[0], repr(out[1])[:200])
            if args is not None:
                print("putrequest arguments:", [(m, u if len(u) < 300 else u[:300] + "...") for m, u in args])
            for r in recs:
                print("request line on the wire:", r.request_line[:400])
            want = expected_target(pc2)
            print("expected target (path + query unchanged):", want if len(want) < 400 else want[:400] + "...")
            v, detail, captured = target_monitor(pc2, out, args, recs, cfg)
            return verdict(detail if v == "violation" else None)
        finally:
            env.close()
    print("replay of this case kind is manual: see the case above")
    return 2
