"""
C17 — Wire framing is exact and body reassembly is independent of chunking.

Model   : lean/JRV/Model/Wire.lean
Theorems: lean/JRV/Properties/C17.lean
Tie     : extracted facts (tools/extractors/wire.py) + differential correspondence on
          * the client's response path (JSONTarget and the real Transport.parse_response, identity and gzip),
          * the server's body read loop (do_POST driven through a fake connection with short reads),
          * the Content-Length / Content-Type lines of client requests, server replies and CGI output,
          * request targets and scheme checks of ServerProxy.
Monitor : the property statement on the captured bytes / texts.
"""
import gzip
import io
import itertools
import json
import sys
from urllib.parse import urlparse

import impl
import pyval

REQUIRED_THEOREMS = [
    "C17_content_length", "C17_body_bytes", "C17_bytes_not_chars", "C17_reassembly_client", "C17_reassembly_client_empty",
    "C17_server_prefix", "C17_reassembly_server", "C17_chunking_independent", "C17_chunkwise_not_independent",
    "C17_target", "C17_scheme",
    "C17_gen_lenAfterToBytes", "C17_gen_serverDecodesAfterJoin", "C17_gen_clientDecodesAfterJoin", "C17_gen_maxChunk",
    "C17_gen_contentTypeFromConfig", "C17_gen_schemes",
]

MAXCHUNK = 10 * 1024 * 1024

TEXTS = ["", "{}", "é", "日本語", "a\U0001f600b", '{"jsonrpc": "2.0", "id": 1, "method": "echo", "params": ["é"]}',
         "x" * 40, "é" * 7, "\u00e9\u0301", "\x00", '{"k": "\u20ac"}']


def hx(b):
    return b.hex() if b else "-"


def hs(s):
    return hx(s.encode("utf-8"))


def chunkings(b):
    """All 2^(n-1) splits of a byte string into non-empty chunks."""
    n = len(b)
    if n == 0:
        yield []
        return
    for mask in range(1 << (n - 1)):
        out, start = [], 0
        for i in range(1, n):
            if mask & (1 << (i - 1)):
                out.append(b[start:i])
                start = i
        out.append(b[start:])
        yield out


def random_cuts(rng, b, maxparts=6):
    n = len(b)
    if n == 0:
        return []
    k = rng.randint(0, min(maxparts - 1, n - 1))
    cuts = sorted(rng.sample(range(1, n), k)) if n > 1 and k else []
    parts = []
    prev = 0
    for c in cuts + [n]:
        parts.append(b[prev:c])
        prev = c
    return parts


class ChunkResponse(object):
    """What http.client hands to Transport.parse_response: read(n) returns the next chunk (short reads)."""

    def __init__(self, chunks, headers=None):
        self.chunks = list(chunks)
        self.headers = headers or {}
        self.closed = False

    def getheader(self, name, default=None):
        return self.headers.get(name.lower(), default)

    def read(self, n=-1):
        if not self.chunks:
            return b""
        if n is None or n < 0:
            # read to EOF, as http.client does
            out, self.chunks = b"".join(self.chunks), []
            return out
        c = self.chunks.pop(0)
        if len(c) > n:
            self.chunks.insert(0, c[n:])
            c = c[:n]
        return c

    def close(self):
        self.closed = True


class ShortReads(io.RawIOBase):
    def __init__(self, stream, sizes):
        self.stream = stream
        self.sizes = list(sizes)
        self.requested = []

    def read(self, n=-1):
        self.requested.append(n)
        if not self.sizes:
            return b""
        k = min(self.sizes.pop(0), n, len(self.stream))
        out, self.stream = self.stream[:k], self.stream[k:]
        return out


def drive_do_post(body_bytes, sizes, cfg, declared=None, reply_text=None):
    """Runs the real do_POST on a fake connection; returns (status, text given to the dispatcher, header lines, written bytes)."""
    S = impl.jsonrpclib.SimpleJSONRPCServer if hasattr(impl.jsonrpclib, "SimpleJSONRPCServer") else None
    import jsonrpclib.SimpleJSONRPCServer as SRV
    got = []

    class FakeServer(object):
        json_config = cfg
        logRequests = False

        def _marshaled_dispatch(self, data, dispatch_method=None, path=None):
            got.append(data)
            return reply_text if reply_text is not None else data

    h = SRV.SimpleJSONRPCRequestHandler.__new__(SRV.SimpleJSONRPCRequestHandler)
    h.server = FakeServer()
    h.path = "/"
    h.headers = {"content-length": str(len(body_bytes) if declared is None else declared)}
    h.rfile = ShortReads(body_bytes, sizes)
    h.wfile = io.BytesIO()
    h.request_version = "HTTP/1.1"
    h.requestline = "POST / HTTP/1.1"
    h.client_address = ("x", 0)
    h.close_connection = True
    status, lines = [], []
    h.send_response = lambda code, message=None: status.append(code)
    h.send_header = lambda k, v: lines.append((k, v))
    h.end_headers = lambda: None
    h.is_rpc_path_valid = lambda: True
    h.decode_request_content = lambda data: data
    h.do_POST()
    return status, got, lines, h.wfile.getvalue()


def run(ctx):
    import jsonrpclib.SimpleJSONRPCServer as SRV
    J = impl.jsonrpclib.jsonrpc
    cfgs = [impl.jsonrpclib.config.Config(content_type=ct) for ct in ("application/json-rpc", "application/json", "text/x-é")]
    ctx.rule = ("bodies (ASCII and multi-byte UTF-8, 0 bytes to a few KB; thorough adds one body beyond the 10 MiB read-chunk size) "
                "x chunkings (all 2^(n-1) splits of bodies up to 10 (quick) / 12 (thorough) bytes, random cuts otherwise) through "
                "JSONTarget, Transport.parse_response (identity and gzip) and do_POST with short reads; Content-Length/"
                "Content-Type lines of client, server and CGI for each body x content type; URL targets over paths/queries "
                "with percent-escapes and every scheme; distinct_nontrivial = chunkings with a cut inside a multi-byte character")
    lines, impl_out = [], []

    def boundary_inside_char(chunks):
        pos = 0
        for c in chunks[:-1]:
            pos += len(c)
            try:
                b"".join(chunks)[:pos].decode("utf-8")
            except UnicodeDecodeError:
                return True
        return False

    def client_case(text, chunks, gz=False):
        body = text.encode("utf-8")
        # JSONTarget directly
        tgt = J.JSONTarget()

        def feed_all():
            for c in chunks:
                tgt.feed(c)
            return tgt.close()
        k0, out = impl.outcome(feed_all)
        if k0 != "ok" or out != text:
            ctx.violate({"body_hex": body.hex(), "chunks": [c.hex() for c in chunks], "via": "JSONTarget"},
                        "client reassembly %s %r differs from the decoding of the whole %r" % (k0, out, text), key="client-reassembly")
        lines.append("wclient " + " ".join(hx(c) for c in chunks))
        impl_out.append("raised " + type(out).__name__ if k0 != "ok" else (("text " + hs(out)) if isinstance(out, str) else ("raw " + hx(out))))
        # the real response parser, identity or gzip
        t = J.Transport(cfgs[0])
        if gz:
            raw = gzip.compress(body)
            parts = random_cuts(ctx.rng, raw, 5)
            resp = ChunkResponse(parts, {"content-encoding": "gzip"})
        else:
            resp = ChunkResponse(chunks, {})
        k, v = impl.outcome(t.parse_response, resp)
        if k != "ok" or v != text:
            ctx.violate({"body_hex": body.hex(), "chunks": [c.hex() for c in chunks], "gzip": gz, "via": "parse_response"},
                        "parse_response gave %r %r, whole decoding is %r" % (k, v, text), key="client-parse-response")
        inside = boundary_inside_char(chunks)
        ctx.count(case_repr={"client_body": text[:40], "chunks": [c.hex() for c in chunks][:8], "gzip": gz},
                  nontrivial_key=("c", body.hex()[:40], tuple(len(c) for c in chunks)) if inside else None,
                  kind="client/%s/%s" % ("gzip" if gz else "identity", "cut-in-char" if inside else "clean"))

    def server_case(text, sizes, cfg, extra=b""):
        body = text.encode("utf-8")
        status, got, hlines, written = drive_do_post(body + extra, sizes, cfg, declared=len(body))
        total = 0
        rem = len(body)
        avail = len(body) + len(extra)
        for s in sizes:
            g = min(s, rem, MAXCHUNK, avail)
            if g == 0:
                break
            total += g
            rem -= g
            avail -= g
        complete = total == len(body)
        if complete:
            if status != [200] or got != [text]:
                ctx.violate({"body_hex": body.hex(), "reads": list(sizes), "via": "do_POST"},
                            "server handed %r (status %r) to the dispatcher, whole decoding is %r" % (got, status, text),
                            key="server-reassembly")
            else:
                m = frame_monitor(hlines, written, text, cfg, "Content-type", "Content-length")
                if m:
                    ctx.violate({"body_hex": body.hex(), "via": "do_POST reply"}, m, key="server-frame")
        lines.append("wserver %d %d %s %s" % (MAXCHUNK, len(body), hx(body + extra), " ".join(str(s) for s in sizes)))
        if status == [200] and got:
            impl_out.append("ok %s" % hs(got[0]))
        else:
            impl_out.append("err UnicodeDecodeError")
        chunks = []
        b = body + extra
        rem = len(body)
        for s in sizes:
            g = min(s, rem, len(b))
            if g == 0:
                break
            chunks.append(b[:g])
            b = b[g:]
            rem -= g
        inside = boundary_inside_char(chunks) if complete else False
        ctx.count(case_repr={"server_body": text[:40], "reads": list(sizes)[:10], "status": status},
                  nontrivial_key=("s", body.hex()[:40], tuple(sizes)) if inside else None,
                  kind="server/%s/%s" % ("complete" if complete else "short", "cut-in-char" if inside else "clean"))

    def frame_monitor(hlines, written, text, cfg, ctname, clname):
        body = text.encode("utf-8")
        d = {}
        for k, v in hlines:
            d.setdefault(k.lower(), []).append(v)
        if d.get("content-length") != [str(len(body))]:
            return "Content-Length %r, body has %d bytes" % (d.get("content-length"), len(body))
        if d.get("content-type") != [cfg.content_type]:
            return "Content-Type %r, configured %r" % (d.get("content-type"), cfg.content_type)
        if written is not None and written != body:
            return "body bytes %r differ from the encoding of %r" % (written[:40], text[:40])
        return None

    def frame_case(text, cfg):
        body = text.encode("utf-8")
        # client
        t = J.Transport(cfg)
        rec = Rec()
        t.send_content(rec, text)
        m = frame_monitor(rec.lines, rec.body if body else None, text, cfg, "Content-Type", "Content-Length")
        if m:
            ctx.violate({"body": text, "via": "client send_content"}, m, key="client-frame")
        # server reply
        status, got, hlines, written = drive_do_post(b"{}", [2], cfg, reply_text=text)
        m = frame_monitor(hlines, written, text, cfg, "Content-type", "Content-length")
        if m or status != [200]:
            ctx.violate({"body": text, "via": "do_POST reply"}, m or "status %r" % status, key="server-frame")
        # CGI
        cgi_lines, cgi_body = run_cgi(SRV, cfg, text)
        m = frame_monitor(cgi_lines, cgi_body, text, cfg, "Content-Type", "Content-Length")
        if m:
            ctx.violate({"body": text, "via": "CGI"}, m, key="cgi-frame")
        lines.append("wframe %s %s" % (hs(cfg.content_type), hs(text)))

        def val(ls, name):
            return [v for k, v in ls if k.lower() == name][0]
        impl_out.append(" ".join([val(rec.lines, "content-length"), val(hlines, "content-length"), str(val(cgi_lines, "content-length")),
                                  hx(written), hs(val(rec.lines, "content-type")), hs(val(hlines, "content-type")),
                                  hs(val(cgi_lines, "content-type"))]))
        ctx.count(kind="frame/%s" % ("ascii" if len(body) == len(text) else "multibyte"),
                  nontrivial_key=("f", text[:20], cfg.content_type) if len(body) != len(text) else None)

    # ---- client + server reassembly
    small = [t for t in TEXTS if len(t.encode("utf-8")) <= (12 if ctx.thorough else 10)]
    for text in small:
        b = text.encode("utf-8")
        for ch in chunkings(b):
            client_case(text, ch)
            server_case(text, [len(c) for c in ch] or [1], cfgs[0])
    if ctx.thorough:
        ctx.exhaustive = not ctx.searching
    for _ in range(ctx.budget(300, 4000)):
        text = ctx.rng.choice(TEXTS) if ctx.rng.random() < 0.4 else "".join(
            ctx.rng.choice("ab{}\":, é日\U0001f600\u0301") for _ in range(ctx.rng.randint(0, 60)))
        b = text.encode("utf-8")
        ch = random_cuts(ctx.rng, b)
        client_case(text, ch, gz=ctx.rng.random() < 0.3)
        sizes = [len(c) for c in ch] or [1]
        r = ctx.rng.random()
        if r < 0.15 and sizes:
            sizes = sizes[:-1]  # connection ends early: incomplete body
        elif r < 0.3:
            sizes = [s + ctx.rng.randint(0, 3) for s in sizes] + [5]  # reads offer more than requested
        server_case(text, sizes, cfgs[0], extra=b"NEXT" if ctx.rng.random() < 0.3 else b"")
    # ---- framing
    for text, cfg in itertools.product(TEXTS, cfgs):
        frame_case(text, cfg)
    for _ in range(ctx.budget(60, 600)):
        text = "".join(ctx.rng.choice("ab{}\":, é日\U0001f600") for _ in range(ctx.rng.randint(0, 200)))
        frame_case(text, ctx.rng.choice(cfgs))
    # ---- targets and schemes
    schemes = ["http", "https", "unix+http", "unix+https", "ftp", "", "HTTP", "unix", "unix+", "unix+ftp", "httpx", "ws", "file"]
    paths = ["", "/", "/RPC2", "/a/b%20c", "/é", "//x", "/tmp/sock.s"]
    queries = ["", "a=1", "a=1&b=%2F", "x", "q=é", "a=b=c"]
    for sch, path, q in itertools.product(schemes, paths, queries):
        target_case(ctx, J, lines, impl_out, sch, "host:8080", path, q)
    # ---- a body beyond the server's read-chunk size, over the fake connection (thorough)
    if ctx.thorough and not ctx.searching:
        big = ("x" * (MAXCHUNK - 1)) + "é" + "tail"
        bb = big.encode("utf-8")
        status, got, hl, wr = drive_do_post(bb, [len(bb)] * 3, cfgs[0], reply_text="")
        if status != [200] or got != [big]:
            ctx.violate({"via": "do_POST", "body": "x*(10MiB-1) + é + tail"},
                        "body beyond the read-chunk size with a multi-byte character across the boundary: status %r" % status,
                        key="server-reassembly-big")
        ctx.count(kind="server/big-body", nontrivial_key=("big",))

    outs = ctx.lean(lines)
    for ln, mo, io_ in zip(lines, outs, impl_out):
        m = mo.split(" chunks=")[0]
        if m != io_:
            ctx.disagree(ln[:400], io_[:400], m[:400], component=ln.split(" ")[0])
    ctx.traces_validated += len(lines)
    ctx.assumptions.append("gzip decompression and urllib.parse.urlparse are CPython, outside the model (the gzip path is exercised on the real parser only)")


class Rec(object):
    def __init__(self):
        self.lines = []
        self.body = b""

    def putheader(self, k, v):
        self.lines.append((k, v))

    def endheaders(self):
        pass

    def send(self, b):
        self.body = b


def run_cgi(SRV, cfg, text):
    class Out(io.StringIO):
        def __init__(self):
            io.StringIO.__init__(self)
            self.buffer = io.BytesIO()

    h = SRV.CGIJSONRPCRequestHandler(config=cfg)
    h._marshaled_dispatch = lambda request_text, *a, **k: text
    old = sys.stdout
    out = Out()
    sys.stdout = out
    try:
        h.handle_jsonrpc("{}")
    finally:
        sys.stdout = old
    head = out.getvalue()
    hl = []
    for ln in head.splitlines():
        if ":" in ln:
            k, v = ln.split(":", 1)
            hl.append((k.strip(), v.strip()))
    return hl, out.buffer.getvalue()


def target_case(ctx, J, lines, impl_out, scheme, netloc, path, query):
    uri = "%s://%s%s%s" % (scheme, netloc, path, ("?" + query) if query else "")
    try:
        su = urlparse(uri)
    except ValueError:
        return
    if su.params or su.fragment:
        return
    seen = []

    class T(impl.LoopTransport):
        def request(self, host, handler, request_body, verbose=0):
            seen.append((host, handler))
            return ""

    # construction with the default transport decides acceptance (no connection is made)
    k, v = impl.outcome(J.ServerProxy, uri)
    supported = su.scheme in ("http", "https", "unix+http")
    if supported and k != "ok":
        ctx.violate({"uri": uri}, "supported scheme rejected: %r" % (v,), key="scheme-reject")
    if not supported and (k != "err" or not isinstance(v, IOError)):
        ctx.violate({"uri": uri}, "unsupported scheme %r accepted (%s %r)" % (su.scheme, k, v), key="scheme-accept")
    if k == "ok":
        try:
            v("close")()
        except Exception:
            pass
    lines.append("wtarget %s %s %s %s" % (hs(su.scheme), hs(su.netloc), hs(su.path), hs(su.query)))
    if k == "ok":
        p = J.ServerProxy(uri, transport=T(lambda b: ""))
        p._notify.ping()
        host, handler = seen[0]
        unix = su.scheme.startswith("unix+")
        want = ("/" if (unix or not su.path) else su.path) + (("?" + su.query) if su.query else "")
        if handler != want:
            ctx.violate({"uri": uri}, "request target %r, expected %r" % (handler, want), key="target")
        impl_out.append("ok " + hs(handler))
    else:
        impl_out.append("err OSError")
    ctx.count(kind="url/%s" % (su.scheme or "none"), nontrivial_key=("u", su.scheme, bool(su.path), bool(su.query)))


def replay(payload):
    print(json.dumps(payload.get("case"), indent=1)[:3000])
    case = payload.get("case", {})
    J = impl.jsonrpclib.jsonrpc
    cfg = impl.jsonrpclib.config.Config()
    if case.get("via") == "do_POST" and "reads" in case:
        body = bytes.fromhex(case["body_hex"])
        status, got, hl, wr = drive_do_post(body, case["reads"], cfg)
        print("status", status, "dispatcher got", got)
        if status != [200] or got != [body.decode("utf-8")]:
            print("VIOLATION reproduced")
            return 1
        return 0
    if case.get("via") == "JSONTarget":
        tgt = J.JSONTarget()

        def feed_all():
            for c in case["chunks"]:
                tgt.feed(bytes.fromhex(c))
            return tgt.close()
        k0, out = impl.outcome(feed_all)
        print("feed/close ->", k0, repr(out))
        if k0 != "ok" or out != bytes.fromhex(case["body_hex"]).decode("utf-8"):
            print("VIOLATION reproduced")
            return 1
        return 0
    print("replay of this case kind is manual: see the case above")
    return 2
