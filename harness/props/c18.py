"""
C18 — Custom headers compose by recency and are restored after a block.

Model   : lean/JRV/Model/Headers.lean
Theorems: lean/JRV/Properties/C18.lean
Tie     : extracted readonly_headers / merge normalisation / try-finally (tools/extractors/headers.py) +
          differential correspondence of the header lines a real Transport puts on a recording connection
          (direct send_content, and real calls / notifications / batches through ServerProxy with nested
          _additional_headers blocks and exceptions).
Monitor : the property statement on the recorded header lines and on the stack after each block.
"""
import itertools
import json

import impl
import pyval

REQUIRED_THEOREMS = [
    "C18_recency", "C18_protected", "C18_user_agent", "C18_restore", "C18_block_scope",
    "C18_gen_readonly", "C18_gen_mergeLowercases", "C18_gen_blockFinally",
]

NAMES = ["x-test", "x-other", "accept"]
PROTECTED = ["content-length", "content-type"]
UA = "user-agent"
VALUES = ["1", "2", "3", "", 5, True, None, "v w", "é"]


def casings(n):
    return [n, n.upper(), n.title()]


class RecConn(object):
    """A connection object recording what the transport puts on the wire."""

    def __init__(self, reply=b""):
        self.lines = []
        self.body = b""
        self.reply = reply
        self.requests = []

    def putrequest(self, method, url, **kw):
        self.requests.append((method, url))
        self.lines = []

    def putheader(self, k, v):
        self.lines.append((k, v))

    def endheaders(self, *a):
        pass

    def send(self, b):
        self.body = b

    def set_debuglevel(self, x):
        pass

    def close(self):
        pass

    def getresponse(self):
        conn = self

        class Resp(object):
            status = 200
            reason = "OK"
            msg = None

            def __init__(self):
                self.data = conn.make_reply()

            def getheader(self, name, default=None):
                return default

            def read(self, n=-1):
                d, self.data = self.data, b""
                return d

            def close(self):
                pass

        return Resp()

    def make_reply(self):
        try:
            req = json.loads(self.body.decode("utf-8"))
        except ValueError:
            return b""
        if isinstance(req, list):
            out = [{"jsonrpc": "2.0", "id": r["id"], "result": 1} for r in req if "id" in r]
            return json.dumps(out).encode() if out else b""
        if "id" not in req or req["id"] is None:
            return b""
        return json.dumps({"jsonrpc": "2.0", "id": req["id"], "result": 1}).encode()


def make_transport(cfg, conn, log):
    J = impl.jsonrpclib.jsonrpc

    class T(J.Transport):
        def make_connection(self, host):
            return conn

        def send_content(self, connection, request_body):
            J.Transport.send_content(self, connection, request_body)
            log.append(list(connection.lines))

    return T(cfg)


def enc_dict(d):
    return "L%d %s" % (len(d), " ".join("L2 %s %s" % (pyval.enc(k), pyval.enc(v)) for k, v in d.items())) if d else "L0"


def enc_stack(st):
    return "L%d %s" % (len(st), " ".join(enc_dict(d) for d in st)) if st else "L0"


def in_domain_stack(stack):
    for d in stack:
        low = [k.lower() for k in d]
        if len(set(low)) != len(low):
            return False
    return True


def monitor_lines(lines, stack, extra, cfg, body_len):
    """Property statement on the emitted header lines of one request."""
    if not in_domain_stack(stack + [dict(extra)]):
        return None
    low = [(k.lower(), v) for k, v in lines]
    for prot, want in (("content-length", str(body_len)), ("content-type", cfg.content_type)):
        got = [v for k, v in low if k == prot]
        if got != [want]:
            return "%s emitted as %r, expected exactly [%r]" % (prot, got, want)
    expected = {}
    for k, v in extra:
        expected[k.lower()] = str(v)
    for d in stack:
        for k, v in d.items():
            expected[k.lower()] = str(v)
    for name, val in expected.items():
        if name in PROTECTED:
            continue
        got = [v for k, v in low if k == name]
        if got != [val]:
            return "header %r sent as %r, the most recently pushed value is %r" % (name, got, val)
    if UA not in expected:
        got = [v for k, v in low if k == UA]
        if got != [cfg.user_agent]:
            return "User-Agent sent as %r, configured %r" % (got, cfg.user_agent)
    custom = [k for k, _ in low if k not in PROTECTED and k != UA]
    for k in custom:
        if k not in expected:
            return "header %r sent but never pushed" % k
    return None


def gen_dict(rng, allow_protected=True):
    d = {}
    pool = NAMES + ([UA] if rng.random() < 0.4 else []) + (PROTECTED if allow_protected and rng.random() < 0.3 else [])
    for _ in range(rng.randint(0, 3)):
        n = rng.choice(pool)
        k = rng.choice(casings(n))
        if rng.random() < 0.93 and any(x.lower() == k.lower() for x in d):
            continue  # mostly inside the domain: no two spellings of one name in one dictionary
        d[k] = rng.choice(VALUES)
    return d


def systematic_stacks():
    """Exhaustive stacks of 0-3 single-entry dictionaries over 3 names x 3 casings x 3 values (+ protected, UA)."""
    entries = [{c: v} for n in ["x-test", "x-other"] for c in casings(n) for v in ("1", "2", "3")]
    entries += [{c: "p"} for n in PROTECTED + [UA] for c in casings(n)]
    yield []
    for e in entries:
        yield [e]
    for a, b in itertools.product(entries, repeat=2):
        yield [a, b]
    few = [{c: v} for c in casings("x-test") for v in ("1", "2", "3")]
    for a, b, c in itertools.product(few, repeat=3):
        yield [a, b, c]


def gen_tree(rng, depth=0):
    items = []
    for _ in range(rng.randint(1, 3)):
        r = rng.random()
        if r < 0.45 or depth >= 3:
            items.append("c")
        elif r < 0.6:
            items.append("r")
        else:
            items.append(["n", gen_dict(rng), gen_tree(rng, depth + 1)])
    return items


class Leave(Exception):
    pass


def run_tree(proxy, transport, tree, how, stacks_after):
    J = impl.jsonrpclib.jsonrpc
    for it in tree:
        if it == "c":
            if how == "call":
                proxy.m(1)
            elif how == "notify":
                proxy._notify.m(1)
            else:
                mc = J.MultiCall(proxy)
                mc.m(1)
                mc._notify.n(2)
                mc()
        elif it == "r":
            raise Leave()
        else:
            before = [dict(h) for h in transport.additional_headers]
            try:
                with proxy._additional_headers(it[1]):
                    run_tree(proxy, transport, it[2], how, stacks_after)
            finally:
                stacks_after.append((before, [dict(h) for h in transport.additional_headers]))


def enc_tree(tree):
    parts = []
    for it in tree:
        if it == "c" or it == "r":
            parts.append(pyval.enc(it))
        else:
            parts.append("L3 %s %s %s" % (pyval.enc("n"), enc_dict(it[1]), enc_tree(it[2])))
    return "L%d %s" % (len(parts), " ".join(parts)) if parts else "L0"


def lines_tree(lines):
    return pyval.enc([[k, v] for k, v in lines], canon=False)


def run(ctx):
    J = impl.jsonrpclib.jsonrpc
    cfg = impl.jsonrpclib.config.Config(content_type="application/json-rpc", user_agent="ua/1.0")
    ctx.rule = ("stacks of header dictionaries (thorough: exhaustive 0-3 single-entry dictionaries over 3 names x 3 casings x "
                "3 values plus protected names and User-Agent; always: random stacks to depth 4 with non-string values and "
                "_extra_headers) sent through Transport.send_content on a recording connection; random trees of nested "
                "_additional_headers blocks with calls / notifications / batches and exceptional exits run through a real "
                "ServerProxy; distinct_nontrivial = distinct stacks in which some name is defined more than once "
                "(case-insensitively) or trees with an exceptional exit")
    lines, impl_out, meta = [], [], []

    def one_stack(stack, extra, body):
        t = J.Transport(cfg)
        for d in stack:
            t.push_headers(d)
        t._extra_headers = list(extra)
        conn = RecConn()
        t.send_content(conn, body)
        blen = len(body.encode("utf-8"))
        m = monitor_lines(conn.lines, stack, extra, cfg, blen)
        if m:
            ctx.violate({"stack": stack, "extra": list(extra), "body": body}, m, key=m[:50])
        lines.append("hdr L5 %s I%d %s %s %s" % (pyval.enc(cfg.content_type), blen, pyval.enc(cfg.user_agent),
                                                  enc_dict(dict(extra)) if extra else "L0", enc_stack(stack)))
        impl_out.append("ok " + lines_tree(conn.lines))
        names = [k.lower() for d in stack for k in d] + [k.lower() for k, _ in extra]
        collide = len(set(names)) != len(names)
        ctx.count(case_repr={"stack": stack, "extra": list(extra), "sent": conn.lines},
                  nontrivial_key=json.dumps(stack, sort_keys=True, default=repr) if collide else None,
                  kind="stack%d%s" % (len(stack), "/collision" if collide else ""))

    # the stack of the original defect, always
    one_stack([{"x-test": "1"}, {"X-Test": "2"}, {"x-test": "3"}], [], "{}")
    if ctx.thorough:
        for st in systematic_stacks():
            one_stack(st, [], "{}")
        ctx.exhaustive = not ctx.searching
    else:
        few = [{c: v} for c in casings("x-test") for v in ("1", "2", "3")]
        for a, b, c in itertools.product(few, repeat=3):
            if ctx.rng.random() < 0.35:
                one_stack([a, b, c], [], "{}")
    for _ in range(ctx.budget(400, 6000)):
        stack = [gen_dict(ctx.rng) for _ in range(ctx.rng.randint(0, 4))]
        extra = []
        if ctx.rng.random() < 0.3:
            extra = [(ctx.rng.choice(["Authorization", "X-Test", "x-other"]), ctx.rng.choice(["Basic abc", "e"]))]
        body = ctx.rng.choice(["", "{}", "é" * ctx.rng.randint(1, 4), '{"jsonrpc": "2.0"}'])
        one_stack(stack, extra, body)

    # block trees through a real ServerProxy
    for i in range(ctx.budget(150, 2500)):
        tree = gen_tree(ctx.rng)
        how = ctx.rng.choice(["call", "notify", "batch"])
        ctor = gen_dict(ctx.rng, allow_protected=False) if ctx.rng.random() < 0.5 else None
        log, stacks_after = [], []
        conn = RecConn()
        t = make_transport(cfg, conn, log)
        proxy = J.ServerProxy("http://localhost:1/", transport=t, headers=ctor, config=cfg)
        base = [dict(h) for h in t.additional_headers]
        raised = False
        try:
            run_tree(proxy, t, tree, how, stacks_after)
        except Leave:
            raised = True
        except AssertionError as ex:
            ctx.violate({"tree": tree, "ctor": ctor}, "pop_headers assertion failed: %r" % (ex,), key="assert")
        final = [dict(h) for h in t.additional_headers]
        for before, after in stacks_after:
            if before != after:
                ctx.violate({"tree": tree, "ctor": ctor, "how": how},
                            "headers in force after a block %r differ from those before it %r" % (after, before), key="restore")
                break
        if final != base:
            ctx.violate({"tree": tree, "ctor": ctor, "how": how}, "stack after the code %r differs from %r" % (final, base), key="restore")
        def after_fixed(ls):
            # what follows the two fixed headers (send_request puts Accept-Encoding before them)
            idx = [i for i, (k, _) in enumerate(ls) if k == "Content-Length"]
            return ls[idx[0] + 1:] if idx else ls
        per_call = [[[k, v] for k, v in after_fixed(ls)] for ls in log]
        for ls in log:
            st_now = None  # the stack at the time of the call is not recorded here; protected headers are checked
            got = [k.lower() for k, _ in ls]
            if got.count("content-length") != 1 or got.count("content-type") != 1:
                ctx.violate({"tree": tree, "ctor": ctor, "how": how}, "protected header count wrong in %r" % (ls,), key="protected")
        lines.append("blocks L3 %s %s %s" % (pyval.enc(cfg.user_agent), enc_stack(base), enc_tree(tree)))
        impl_out.append("ok " + pyval.enc([raised, False, [[[k, v] for k, v in d.items()] for d in final], per_call]))
        has_raise = "'r'" in repr(tree)
        ctx.count(case_repr={"tree": tree, "how": how, "ctor": ctor, "raised": raised},
                  nontrivial_key=json.dumps(tree, default=repr) if has_raise else None,
                  kind="tree/%s/%s" % (how, "raise" if raised else "normal"))

    outs = ctx.lean(lines)
    unmodelled = 0
    for ln, mo, io in zip(lines, outs, impl_out):
        if mo.startswith("err Unmodelled"):
            unmodelled += 1
            continue
        if mo != io:
            ctx.disagree(ln, io, mo, component=ln.split(" ")[0])
    ctx.traces_validated += len(lines) - unmodelled
    ctx.extra["unmodelled_cases"] = unmodelled
    ctx.assumptions.append("header names are ASCII (str.lower == String.toLower); str(value) modelled for str/int/bool/None values")


def replay(payload):
    J = impl.jsonrpclib.jsonrpc
    cfg = impl.jsonrpclib.config.Config(content_type="application/json-rpc", user_agent="ua/1.0")
    case = payload.get("case", {})
    print(json.dumps(case, indent=1, default=repr))
    if "stack" in case:
        t = J.Transport(cfg)
        for d in case["stack"]:
            t.push_headers(d)
        t._extra_headers = [tuple(x) for x in case.get("extra", [])]
        conn = RecConn()
        t.send_content(conn, case.get("body", "{}"))
        print("sent:", conn.lines)
        m = monitor_lines(conn.lines, case["stack"], t._extra_headers, cfg, len(case.get("body", "{}").encode("utf-8")))
    else:
        log, stacks_after = [], []
        conn = RecConn()
        t = make_transport(cfg, conn, log)
        proxy = J.ServerProxy("http://localhost:1/", transport=t, headers=case.get("ctor"), config=cfg)
        base = [dict(h) for h in t.additional_headers]
        try:
            run_tree(proxy, t, case["tree"], case.get("how", "call"), stacks_after)
        except Leave:
            pass
        final = [dict(h) for h in t.additional_headers]
        print("stack before:", base, "after:", final)
        m = None if final == base else "stack not restored"
    if m:
        print("VIOLATION reproduced:", m)
        return 1
    print("no violation")
    return 0
