"""
C18 — Custom headers compose by recency and are restored after a block.

Model   : lean/JRV/Model/Headers.lean
Theorems: lean/JRV/Properties/C18.lean; companions of the extracted facts: lean/JRV/Properties/C18Gen.lean
Tie     : extracted readonly_headers / merge normalisation / try-finally (tools/extractors/headers.py) +
          differential correspondence of the header lines a real Transport puts on a recording connection:
          * direct send_content on a fresh Transport (one stack, one send),
          * sequences of push / pop / send on ONE Transport (every send compared),
          * programs of one to three block trees run one after the other on ONE real ServerProxy: nested
            _additional_headers blocks with calls / notifications / batches, left normally or through an exception
            that is an Exception subclass, a direct BaseException subclass, GeneratorExit or SystemExit.
Monitor : the property statement, evaluated on the header lines of EVERY request (those of the block trees too: the
          dictionaries in force at that moment are the constructor's plus those of the blocks the harness is inside
          of), on the transport's stack around each block, and after each tree.
"""
import itertools
import json

import impl
import pyval

REQUIRED_THEOREMS = [
    "C18_recency", "C18_protected", "C18_user_agent", "C18_restore", "C18_restore_body", "C18_exit_kind",
    "C18_block_scope",
    # in lean/JRV/Properties/C18Gen.lean (built and audited separately by harness/core.py)
    "C18_gen_readonly", "C18_gen_mergeLowercases", "C18_gen_blockFinally",
]

NAMES = ["x-test", "x-other", "accept"]
PROTECTED = ["content-length", "content-type"]
UA = "user-agent"
VALUES = ["1", "2", "3", "", 5, True, None, "v w", "é"]


def casings(n):
    return [n, n.upper(), n.title()]


class RecConn(object):
    """A connection object recording what the transport puts on the wire."""

    def __init__(self, reply=b""):
        self.lines = []
        self.body = b""
        self.reply = reply
        self.requests = []

    def putrequest(self, method, url, **kw):
        self.requests.append((method, url))
        self.lines = []
        self.body = b""

    def putheader(self, k, v):
        self.lines.append((k, v))

    def endheaders(self, *a):
        pass

    def send(self, b):
        self.body = b

    def set_debuglevel(self, x):
        pass

    def close(self):
        pass

    def getresponse(self):
        conn = self

        class Resp(object):
            status = 200
            reason = "OK"
            msg = None

            def __init__(self):
                self.data = conn.make_reply()

            def getheader(self, name, default=None):
                return default

            def read(self, n=-1):
                d, self.data = self.data, b""
                return d

            def close(self):
                pass

        return Resp()

    def make_reply(self):
        try:
            req = json.loads(self.body.decode("utf-8"))
        except ValueError:
            return b""
        if isinstance(req, list):
            out = [{"jsonrpc": "2.0", "id": r["id"], "result": 1} for r in req if "id" in r]
            return json.dumps(out).encode() if out else b""
        if "id" not in req or req["id"] is None:
            return b""
        return json.dumps({"jsonrpc": "2.0", "id": req["id"], "result": 1}).encode()


def enc_dict(d):
    return "L%d %s" % (len(d), " ".join("L2 %s %s" % (pyval.enc(k), pyval.enc(v)) for k, v in d.items())) if d else "L0"


def enc_stack(st):
    return "L%d %s" % (len(st), " ".join(enc_dict(d) for d in st)) if st else "L0"


def in_domain_stack(stack):
    for d in stack:
        low = [k.lower() for k in d]
        if len(set(low)) != len(low):
            return False
    return True


def monitor_lines(lines, stack, extra, cfg, body_len):
    """Property statement on the emitted header lines of one request."""
    if not in_domain_stack(stack + [dict(extra)]):
        return None
    low = [(k.lower(), v) for k, v in lines]
    for prot, want in (("content-length", str(body_len)), ("content-type", cfg.content_type)):
        got = [v for k, v in low if k == prot]
        if got != [want]:
            return "%s emitted as %r, expected exactly [%r]" % (prot, got, want)
    expected = {}
    for k, v in extra:
        expected[k.lower()] = str(v)
    for d in stack:
        for k, v in d.items():
            expected[k.lower()] = str(v)
    for name, val in expected.items():
        if name in PROTECTED:
            continue
        got = [v for k, v in low if k == name]
        if got != [val]:
            return "header %r sent as %r, the most recently pushed value is %r" % (name, got, val)
    if UA not in expected:
        got = [v for k, v in low if k == UA]
        if got != [cfg.user_agent]:
            return "User-Agent sent as %r, configured %r" % (got, cfg.user_agent)
    custom = [k for k, _ in low if k not in PROTECTED and k != UA]
    for k in custom:
        if k not in expected:
            return "header %r sent but never pushed" % k
    return None


def gen_dict(rng, allow_protected=True):
    d = {}
    pool = NAMES + ([UA] if rng.random() < 0.4 else []) + (PROTECTED if allow_protected and rng.random() < 0.3 else [])
    for _ in range(rng.randint(0, 3)):
        n = rng.choice(pool)
        k = rng.choice(casings(n))
        if rng.random() < 0.93 and any(x.lower() == k.lower() for x in d):
            continue  # mostly inside the domain: no two spellings of one name in one dictionary
        d[k] = rng.choice(VALUES)
    return d


def systematic_stacks():
    """Exhaustive stacks of 0-3 single-entry dictionaries over 3 names x 3 casings x 3 values (+ protected, UA)."""
    entries = [{c: v} for n in ["x-test", "x-other"] for c in casings(n) for v in ("1", "2", "3")]
    entries += [{c: "p"} for n in PROTECTED + [UA] for c in casings(n)]
    yield []
    for e in entries:
        yield [e]
    for a, b in itertools.product(entries, repeat=2):
        yield [a, b]
    few = [{c: v} for c in casings("x-test") for v in ("1", "2", "3")]
    for a, b, c in itertools.product(few, repeat=3):
        yield [a, b, c]


# ---------------------------------------------------------------------------------------------
# Leaving a block through an exception: four kinds, numbered as in lean/JRV/Driver/Headers.lean (`r0` … `r3`)


class Leave(Exception):
    """kind 0: an Exception subclass."""


class Interrupt(BaseException):
    """kind 1: derives directly from BaseException, as KeyboardInterrupt does (the harness never raises a real
    KeyboardInterrupt, so that one coming from the operator is never mistaken for it)."""


EXIT_KINDS = [Leave, Interrupt, GeneratorExit, SystemExit]
KIND_NAMES = ["Exception", "BaseException", "GeneratorExit", "SystemExit"]
ASSERTION_KIND = 4


def copy_stack(st):
    """A copy deep enough to be unaffected by later pushes/pops and by in-place changes of the dictionaries."""
    return [dict(h) for h in st]


def is_raise(it):
    return isinstance(it, str) and it.startswith("r")


def raise_kind(it):
    return int(it[1:]) if len(it) > 1 else 0   # a bare "r" (replays written before kinds existed) is kind 0


class ProxyRun(object):
    """One real ServerProxy on a recording connection.  Block trees are run on it one after the other; for every
    request the harness records the dictionaries in force (its own bookkeeping: the constructor's dictionary plus
    those of the blocks it is inside of), a copy of the transport's stack, the header lines and the body sent."""

    def __init__(self, cfg, ctor):
        J = impl.jsonrpclib.jsonrpc
        self.cfg = cfg
        self.conn = RecConn()
        self.requests = []
        run = self

        class T(J.Transport):
            def make_connection(self, host):
                return run.conn

            def send_content(self, connection, request_body):
                n0 = len(connection.lines)
                seen = copy_stack(self.additional_headers)
                extra = [tuple(x) for x in (getattr(self, "_extra_headers", None) or [])]
                J.Transport.send_content(self, connection, request_body)
                run.requests.append({
                    "in_force": copy_stack(run.in_force), "transport_stack": seen, "extra": extra,
                    "pre": list(connection.lines[:n0]), "lines": list(connection.lines[n0:]),
                    "body_len": len(connection.body),
                })

        self.transport = T(cfg)
        self.proxy = J.ServerProxy("http://localhost:1/", transport=self.transport, headers=ctor, config=cfg)
        self.base = copy_stack(self.transport.additional_headers)
        self.in_force = copy_stack(self.base)
        self.blocks = []
        self.pending = None

    def _items(self, tree, how):
        J = impl.jsonrpclib.jsonrpc
        for it in tree:
            if it == "c":
                if how == "call":
                    self.proxy.m(1)
                elif how == "notify":
                    self.proxy._notify.m(1)
                else:
                    mc = J.MultiCall(self.proxy)
                    mc.m(1)
                    mc._notify.n(2)
                    mc()
            elif is_raise(it):
                self.pending = EXIT_KINDS[raise_kind(it)]()
                raise self.pending
            else:
                before = copy_stack(self.transport.additional_headers)
                self.in_force.append(dict(it[1]))
                try:
                    with self.proxy._additional_headers(it[1]):
                        self._items(it[2], how)
                finally:
                    self.in_force.pop()
                    self.blocks.append((before, copy_stack(self.transport.additional_headers)))

    def run_tree(self, tree, how):
        """Runs one tree; returns what was observed, with the monitor hits as (key, detail) pairs."""
        first_req, first_blk = len(self.requests), len(self.blocks)
        self.pending = None
        exit_kind, error, hits = None, None, []
        try:
            self._items(tree, how)
        except BaseException as ex:  # noqa: BLE001 - only the harness's own exception object is absorbed
            if self.pending is not None and ex is self.pending:
                exit_kind = EXIT_KINDS.index(type(ex))
            elif isinstance(ex, AssertionError):
                exit_kind = ASSERTION_KIND
                hits.append(("assert", "pop_headers assertion failed: %r" % (ex,)))
            elif isinstance(ex, Exception):
                error = type(ex).__name__
            else:
                raise  # a KeyboardInterrupt / SystemExit that is not ours
        final = copy_stack(self.transport.additional_headers)
        reqs = self.requests[first_req:]
        for n, rq in enumerate(reqs):
            m = monitor_lines(rq["lines"], rq["in_force"], rq["extra"], self.cfg, rq["body_len"])
            if m:
                hits.append(("recency:" + m[:40], "request %d of the tree, dictionaries in force %r, sent %r: %s"
                             % (n + 1, rq["in_force"], rq["lines"], m)))
            got = [k.lower() for k, _ in rq["pre"] + rq["lines"]]
            if got.count("content-length") != 1 or got.count("content-type") != 1:
                hits.append(("protected", "protected header count wrong in %r" % (rq["pre"] + rq["lines"],)))
        for before, after in self.blocks[first_blk:]:
            if before != after:
                hits.append(("restore", "headers in force after a block %r differ from those before it %r" % (after, before)))
                break
        if final != self.base:
            hits.append(("restore", "stack after the code %r differs from %r" % (final, self.base)))
        return {"exit": exit_kind, "error": error, "final": final, "requests": reqs, "hits": hits}


def run_program(cfg, ctor, program):
    """`program`: list of [tree, how], run one after the other on ONE proxy (and one transport)."""
    pr = ProxyRun(cfg, ctor)
    return pr, [pr.run_tree(tree, how) for tree, how in program]


def gen_block_dict(rng, hot):
    """Dictionary of a block: sibling and nested blocks of one tree often define the same (hot) name, in any letter
    case, with different values."""
    d = gen_dict(rng)
    if rng.random() < 0.6 and not any(k.lower() == hot for k in d):
        d[rng.choice(casings(hot))] = rng.choice(VALUES)
    return d


def gen_tree(rng, depth=0, hot=None):
    if hot is None:
        hot = rng.choice(NAMES + [UA])
    items = []
    for _ in range(rng.randint(1, 3)):
        r = rng.random()
        if r < 0.45 or depth >= 3:
            items.append("c")
        elif r < 0.57:
            items.append("r%d" % rng.randrange(len(EXIT_KINDS)))
        else:
            items.append(["n", gen_block_dict(rng, hot), gen_tree(rng, depth + 1, hot)])
    return items


def systematic_programs(full):
    """Sibling / nested blocks that define one name (in every pair of letter cases) with different values, and blocks
    left through each kind of exception followed by more requests on the same proxy.  Yields (ctor, program)."""
    cs = casings("x-test")
    hows = ["call", "notify", "batch"]
    n = 0
    for c1 in cs:
        for c2 in cs:
            for how in (hows if full else [hows[n % 3]]):
                n += 1
                # two siblings; three siblings a, b, a; a request after them
                yield None, [[[["n", {c1: "a"}, ["c"]], ["n", {c2: "b"}, ["c"]]], how]]
                yield None, [[[["n", {c1: "a"}, ["c"]], ["n", {c2: "b"}, ["c"]], ["n", {c1: "a"}, ["c"]], "c"], how]]
                # siblings inside an outer block and under a constructor dictionary that define the name too
                yield {c2: "0"}, [[[["n", {c1: "o"}, [["n", {c2: "a"}, ["c"]], "c", ["n", {c1: "b"}, ["c"]], "c"]], "c"], how]]
                # the inner value must not survive the inner block
                yield None, [[[["n", {c1: "a"}, ["c", ["n", {c2: "b"}, ["c"]], "c"]], "c"], how]]
                # the siblings are in two trees run one after the other on the same proxy
                yield None, [[[["n", {c1: "a"}, ["c"]]], how], [[["n", {c2: "b"}, ["c"]], "c"], how]]
    # equal dictionaries at two depths: pop_headers must remove the top one, not the first equal one
    for how in (hows if full else hows[:1]):
        yield None, [[[["n", {"X-Test": "1"}, [["n", {"x-other": "2"}, [["n", {"X-Test": "1"}, ["c"]], "c"]], "c"]], "c"], how]]
        yield {}, [[[["n", {}, [["n", {"x-test": "1"}, [["n", {}, ["c"]], "c"]], "c"]], "c"], how]]
    for kind in range(len(EXIT_KINDS)):
        r = "r%d" % kind
        for how in (hows if full else [hows[kind % 3]]):
            yield None, [[[["n", {"X-Test": "1"}, ["c", r]]], how], [["c"], how]]
            yield {"x-test": "0"}, [[[["n", {"X-Test": "1"}, [["n", {"x-other": 2}, ["c", r, "c"]], "c"]]], how],
                                     [["c", ["n", {"X-TEST": "3"}, ["c"]], "c"], how]]
            yield None, [[[["n", {"User-Agent": "u"}, [["n", {"Accept": "a"}, [r]]]]], how], [["c"], how]]


def program_has_raise(program):
    return any(is_raise(x) for tree, _ in program for x in flat_items(tree))


def flat_items(tree):
    for it in tree:
        if isinstance(it, list):
            yield it
            for x in flat_items(it[2]):
                yield x
        else:
            yield it


def program_redefines(ctor, program):
    names = [k.lower() for k in (ctor or {})]
    for tree, _ in program:
        for it in flat_items(tree):
            if isinstance(it, list):
                names += [k.lower() for k in it[1]]
    return len(set(names)) != len(names)


def enc_tree(tree):
    parts = []
    for it in tree:
        if isinstance(it, str):
            parts.append(pyval.enc("r%d" % raise_kind(it) if is_raise(it) else it))
        else:
            parts.append("L3 %s %s %s" % (pyval.enc("n"), enc_dict(it[1]), enc_tree(it[2])))
    return "L%d %s" % (len(parts), " ".join(parts)) if parts else "L0"


def lines_tree(lines):
    return pyval.enc([[k, v] for k, v in lines], canon=False)


def after_fixed(ls):
    """What follows the two fixed headers among the lines of send_content."""
    idx = [i for i, (k, _) in enumerate(ls) if k == "Content-Length"]
    return ls[idx[0] + 1:] if idx else ls


# ---------------------------------------------------------------------------------------------
# Several sends on ONE transport with pushes / pops in between


def run_sequence(cfg, ops):
    """ops: ["push", dict] | ["pop"] | ["extra", [[name, value], …]] | ["send", body] applied to a single J.Transport.
    Returns the list of sends: the dictionaries in force (the harness's own stack), extra, body, emitted lines, monitor."""
    J = impl.jsonrpclib.jsonrpc
    t = J.Transport(cfg)
    mine, sends, hits = [], [], []
    for op in ops:
        if op[0] == "push":
            d = dict(op[1])
            mine.append(d)
            t.push_headers(d)
        elif op[0] == "pop":
            if mine:
                try:
                    t.pop_headers(mine.pop())
                except AssertionError as ex:
                    hits.append(("assert", "pop_headers assertion failed: %r" % (ex,)))
        elif op[0] == "extra":
            t._extra_headers = [tuple(x) for x in op[1]]
        else:
            conn = RecConn()
            extra = [tuple(x) for x in (t._extra_headers or [])]
            t.send_content(conn, op[1])
            blen = len(op[1].encode("utf-8"))
            m = monitor_lines(conn.lines, copy_stack(mine), extra, cfg, blen)
            if m:
                hits.append(("recency:" + m[:40], "send %d on one transport, dictionaries in force %r, sent %r: %s"
                             % (len(sends) + 1, mine, conn.lines, m)))
            sends.append({"stack": copy_stack(mine), "extra": extra, "body": op[1], "blen": blen, "lines": list(conn.lines)})
    if copy_stack(t.additional_headers) != mine:
        hits.append(("restore", "transport stack %r after the sequence, pushed and not popped: %r" % (t.additional_headers, mine)))
    return sends, hits


def gen_ops(rng):
    hot = rng.choice(NAMES + [UA])
    ops, depth = [], 0
    for _ in range(rng.randint(4, 10)):
        r = rng.random()
        if r < 0.35 and depth < 4:
            ops.append(["push", gen_block_dict(rng, hot)])
            depth += 1
        elif r < 0.55 and depth:
            ops.append(["pop"])
            depth -= 1
        elif r < 0.62:
            ops.append(["extra", [] if rng.random() < 0.3 else
                        [[rng.choice(["Authorization", "X-Test", "x-other"]), rng.choice(["Basic abc", "e"])]]])
        else:
            ops.append(["send", rng.choice(["", "{}", "é" * rng.randint(1, 4), '{"jsonrpc": "2.0"}'])])
    ops.append(["send", "{}"])
    return ops


def systematic_sequences():
    cs = casings("x-test")
    for c1 in cs:
        for c2 in cs:
            yield [["push", {c1: "a"}], ["send", "{}"], ["pop"], ["push", {c2: "b"}], ["send", "{}"], ["pop"], ["send", "{}"]]
            yield [["push", {c1: "a"}], ["send", "{}"], ["push", {c2: "b"}], ["send", "{}"], ["pop"], ["send", "{}"],
                   ["pop"], ["send", "{}"]]


def hdr_line(cfg, blen, extra, stack):
    return "hdr L5 %s I%d %s %s %s" % (pyval.enc(cfg.content_type), blen, pyval.enc(cfg.user_agent),
                                      enc_dict(dict(extra)) if extra else "L0", enc_stack(stack))


def make_cfg():
    return impl.jsonrpclib.config.Config(content_type="application/json-rpc", user_agent="ua/1.0")


def run(ctx):
    J = impl.jsonrpclib.jsonrpc
    cfg = make_cfg()
    ctx.rule = ("stacks of header dictionaries (thorough: exhaustive 0-3 single-entry dictionaries over 3 names x 3 casings x "
                "3 values plus protected names and User-Agent; always: random stacks to depth 4 with non-string values and "
                "_extra_headers) sent through Transport.send_content on a recording connection; sequences of push / pop / "
                "send on one Transport (every send checked); programs of 1-3 trees of nested _additional_headers blocks "
                "with calls / notifications / batches, left normally or through an Exception, a direct BaseException "
                "subclass, GeneratorExit or SystemExit, run one after the other on one real ServerProxy (systematic "
                "sibling / nested redefinitions of one name over every pair of letter cases, plus random trees); "
                "distinct_nontrivial = distinct stacks in which some name is defined more than once (case-insensitively), "
                "sequences with a pop between two sends, programs with an exceptional exit or a name defined by more "
                "than one dictionary")
    lines, impl_out, by_how = [], [], {}

    def one_stack(stack, extra, body):
        t = J.Transport(cfg)
        for d in stack:
            t.push_headers(d)
        t._extra_headers = list(extra)
        conn = RecConn()
        t.send_content(conn, body)
        blen = len(body.encode("utf-8"))
        m = monitor_lines(conn.lines, stack, extra, cfg, blen)
        if m:
            ctx.violate({"stack": stack, "extra": list(extra), "body": body}, m, key=m[:50])
        lines.append(hdr_line(cfg, blen, extra, stack))
        impl_out.append("ok " + lines_tree(conn.lines))
        names = [k.lower() for d in stack for k in d] + [k.lower() for k, _ in extra]
        collide = len(set(names)) != len(names)
        ctx.count(case_repr={"stack": stack, "extra": list(extra), "sent": conn.lines},
                  nontrivial_key=json.dumps(stack, sort_keys=True, default=repr) if collide else None,
                  kind="stack%d%s" % (len(stack), "/collision" if collide else ""))

    def one_sequence(ops):
        sends, hits = run_sequence(cfg, ops)
        for key, detail in hits:
            ctx.violate({"ops": ops}, detail, key=key)
        for sd in sends:
            lines.append(hdr_line(cfg, sd["blen"], sd["extra"], sd["stack"]))
            impl_out.append("ok " + lines_tree(sd["lines"]))
        kinds = [op[0] for op in ops]
        pop_between = "pop" in kinds[kinds.index("send"):] if "send" in kinds else False
        ctx.count(case_repr={"ops": ops, "sent": [sd["lines"] for sd in sends]},
                  nontrivial_key=json.dumps(ops, default=repr) if pop_between else None,
                  kind="seq/%dsends%s" % (min(len(sends), 4), "/pop-between" if pop_between else ""))

    def one_program(ctor, program):
        pr, results = run_program(cfg, ctor, program)
        for i, (res, (tree, how)) in enumerate(zip(results, program)):
            for key, detail in res["hits"]:
                ctx.violate({"ctor": ctor, "program": program, "failing_tree": i}, detail, key=key)
            # the model starts every tree from the proxy's base stack: blocks of an earlier tree have all been left
            lines.append("blocks L3 %s %s %s" % (pyval.enc(cfg.user_agent), enc_stack(pr.base), enc_tree(tree)))
            if res["error"] is not None:
                impl_out.append("err %s N" % res["error"])
            else:
                per_call = [[[k, v] for k, v in after_fixed(rq["lines"])] for rq in res["requests"]]
                impl_out.append("ok " + pyval.enc([res["exit"], res["exit"] == ASSERTION_KIND,
                                                   [[[k, v] for k, v in d.items()] for d in res["final"]], per_call]))
        exits = [KIND_NAMES[r["exit"]] if r["exit"] is not None and r["exit"] < len(KIND_NAMES) else
                 ("normal" if r["exit"] is None else "assert") for r in results]
        interesting = program_has_raise(program) or program_redefines(ctor, program)
        ctx.count(case_repr={"program": program, "ctor": ctor, "exits": exits},
                  nontrivial_key=json.dumps([ctor, program], default=repr) if interesting else None,
                  kind="trees%d/%s" % (len(program), next((e for e in exits if e != "normal"), "normal")))
        for res, (tree, how) in zip(results, program):
            by_how[how] = by_how.get(how, 0) + len(res["requests"])

    # the stack of the original defect, always
    one_stack([{"x-test": "1"}, {"X-Test": "2"}, {"x-test": "3"}], [], "{}")
    if ctx.thorough:
        for st in systematic_stacks():
            one_stack(st, [], "{}")
        ctx.exhaustive = not ctx.searching
    else:
        few = [{c: v} for c in casings("x-test") for v in ("1", "2", "3")]
        for a, b, c in itertools.product(few, repeat=3):
            if ctx.rng.random() < 0.35:
                one_stack([a, b, c], [], "{}")
    for _ in range(ctx.budget(400, 6000)):
        stack = [gen_dict(ctx.rng) for _ in range(ctx.rng.randint(0, 4))]
        extra = []
        if ctx.rng.random() < 0.3:
            extra = [(ctx.rng.choice(["Authorization", "X-Test", "x-other"]), ctx.rng.choice(["Basic abc", "e"]))]
        body = ctx.rng.choice(["", "{}", "é" * ctx.rng.randint(1, 4), '{"jsonrpc": "2.0"}'])
        one_stack(stack, extra, body)

    # block trees through a real ServerProxy
    for ctor, program in systematic_programs(full=ctx.thorough):
        one_program(ctor, program)
    for i in range(ctx.budget(150, 2500)):
        hot = ctx.rng.choice(NAMES + [UA])
        ntrees = 1 if ctx.rng.random() < 0.65 else ctx.rng.randint(2, 3)
        program = [[gen_tree(ctx.rng, hot=hot), ctx.rng.choice(["call", "notify", "batch"])] for _ in range(ntrees)]
        ctor = None
        if ctx.rng.random() < 0.5:
            ctor = gen_dict(ctx.rng, allow_protected=False)
            if ctx.rng.random() < 0.4 and not any(k.lower() == hot for k in ctor):
                ctor[ctx.rng.choice(casings(hot))] = ctx.rng.choice(VALUES)
        one_program(ctor, program)

    # several sends on one transport
    for ops in systematic_sequences():
        one_sequence(ops)
    for _ in range(ctx.budget(150, 2500)):
        one_sequence(gen_ops(ctx.rng))

    outs = ctx.lean(lines)
    unmodelled = 0
    for ln, mo, io in zip(lines, outs, impl_out):
        if mo.startswith("err Unmodelled"):
            unmodelled += 1
            continue
        if mo != io:
            ctx.disagree(ln, io, mo, component=ln.split(" ")[0])
    ctx.traces_validated += len(lines) - unmodelled
    ctx.extra["unmodelled_cases"] = unmodelled
    ctx.extra["tree_requests_monitored_by_kind"] = dict(sorted(by_how.items()))
    ctx.assumptions.append("header names are ASCII (str.lower == String.toLower); str(value) modelled for str/int/bool/None values")
    ctx.assumptions.append("exceptions that leave a block: an Exception subclass, a direct BaseException subclass, GeneratorExit "
                           "and SystemExit raised by the block's own code (asynchronous exceptions delivered between "
                           "push_headers and the try statement are outside the model)")


def replay(payload):
    J = impl.jsonrpclib.jsonrpc
    cfg = make_cfg()
    case = payload.get("case", {})
    print(json.dumps(case, indent=1, default=repr))
    found = []
    if "stack" in case:
        t = J.Transport(cfg)
        for d in case["stack"]:
            t.push_headers(d)
        t._extra_headers = [tuple(x) for x in case.get("extra", [])]
        conn = RecConn()
        t.send_content(conn, case.get("body", "{}"))
        print("sent:", conn.lines)
        m = monitor_lines(conn.lines, case["stack"], t._extra_headers, cfg, len(case.get("body", "{}").encode("utf-8")))
        if m:
            found.append(m)
    elif "ops" in case:
        sends, hits = run_sequence(cfg, case["ops"])
        for n, sd in enumerate(sends):
            print("send %d: in force %r extra %r sent %r" % (n + 1, sd["stack"], sd["extra"], sd["lines"]))
        found += [detail for _, detail in hits]
    else:
        program = case.get("program")
        if program is None:  # replay files written before programs of several trees existed
            program = [[case["tree"], case.get("how", "call")]]
        pr, results = run_program(cfg, case.get("ctor"), program)
        print("stack of the new proxy:", pr.base)
        for i, res in enumerate(results):
            print("tree %d (%s): exit=%s stack afterwards=%r" % (
                i, program[i][1], "normal" if res["exit"] is None else (KIND_NAMES + ["AssertionError"])[res["exit"]],
                res["final"]))
            for n, rq in enumerate(res["requests"]):
                print("  request %d: in force %r transport stack %r sent %r" % (n + 1, rq["in_force"], rq["transport_stack"], rq["lines"]))
            if res["error"]:
                print("  unexpected exception:", res["error"])
            found += ["tree %d: %s" % (i, detail) for _, detail in res["hits"]]
    if found:
        for m in found:
            print("VIOLATION reproduced:", m)
        return 1
    print("no violation")
    return 0
