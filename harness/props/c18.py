"""
C18 — Custom headers compose by recency and are restored after a block.

Model   : lean/JRV/Model/Headers.lean
Theorems: lean/JRV/Properties/C18.lean; companions of the extracted facts: lean/JRV/Properties/C18Gen.lean
Tie     : extracted readonly_headers / merge normalisation / try-finally (tools/extractors/headers.py) +
          differential correspondence of the header lines a real Transport puts on a recording connection:
          * direct send_content on a fresh Transport (one stack, one send),
          * sequences of push / pop / send on ONE Transport (every send compared),
          * programs of one to three block trees run one after the other on ONE real ServerProxy: nested
            _additional_headers blocks with calls / notifications / batches, left normally or through an exception
            that is an Exception subclass, a direct BaseException subclass, GeneratorExit or SystemExit.
          * the configured User-Agent: Config(user_agent=None | "" | blanks | odd / very long strings | non-strings),
            given by keyword / by position / omitted, then copy() and attribute stores, handed to Transport,
            SafeTransport, UnixTransport directly and to ServerProxy(uri, config=...) for http / https / unix+http
            (the transport the proxy builds itself), with and without pushed 'User-Agent' / 'user-agent' /
            'USER-AGENT' entries that are empty or not; also the configuration of the block-tree programs.
Monitor : the property statement, evaluated on the header lines of EVERY request (those of the block trees too: the
          dictionaries in force at that moment are the constructor's plus those of the blocks the harness is inside
          of), on the transport's stack around each block, and after each tree.  "The configured one" is what the
          HARNESS configured (its own bookkeeping: the constructor argument or the latest attribute store; None asks
          for the library default) -- never what the library's Config / transport objects report.
"""
import contextlib
import itertools
import json

import impl
import pyval

REQUIRED_THEOREMS = [
    "C18_recency", "C18_protected", "C18_user_agent", "C18_restore", "C18_restore_body", "C18_exit_kind",
    "C18_block_scope", "C18_configured_agent", "C18_user_agent_configured",
    # in lean/JRV/Properties/C18Gen.lean (built and audited separately by harness/core.py)
    "C18_gen_readonly", "C18_gen_mergeLowercases", "C18_gen_blockFinally",
    "C18_gen_configAgentDefaulting", "C18_gen_configCopyAgent", "C18_gen_transportAgent", "C18_gen_sendsTransportAgent",
    "C18_gen_transportsForwardConfig", "C18_gen_proxyTransportsGetConfig",
]

NAMES = ["x-test", "x-other", "accept"]
PROTECTED = ["content-length", "content-type"]
UA = "user-agent"
VALUES = ["1", "2", "3", "", 5, True, None, "v w", "é"]


def casings(n):
    return [n, n.upper(), n.title()]


class RecConn(object):
    """A connection object recording what the transport puts on the wire."""

    def __init__(self, reply=b""):
        self.lines = []
        self.body = b""
        self.reply = reply
        self.requests = []

    def putrequest(self, method, url, **kw):
        self.requests.append((method, url))
        self.lines = []
        self.body = b""

    def putheader(self, k, v):
        self.lines.append((k, v))

    def endheaders(self, *a):
        pass

    def send(self, b):
        self.body = b

    def set_debuglevel(self, x):
        pass

    def close(self):
        pass

    def getresponse(self):
        conn = self

        class Resp(object):
            status = 200
            reason = "OK"
            msg = None

            def __init__(self):
                self.data = conn.make_reply()

            def getheader(self, name, default=None):
                return default

            def read(self, n=-1):
                d, self.data = self.data, b""
                return d

            def close(self):
                pass

        return Resp()

    def make_reply(self):
        try:
            req = json.loads(self.body.decode("utf-8"))
        except ValueError:
            return b""
        if isinstance(req, list):
            out = [{"jsonrpc": "2.0", "id": r["id"], "result": 1} for r in req if "id" in r]
            return json.dumps(out).encode() if out else b""
        if "id" not in req or req["id"] is None:
            return b""
        return json.dumps({"jsonrpc": "2.0", "id": req["id"], "result": 1}).encode()


def enc_dict(d):
    return "L%d %s" % (len(d), " ".join("L2 %s %s" % (pyval.enc(k), pyval.enc(v)) for k, v in d.items())) if d else "L0"


def enc_stack(st):
    return "L%d %s" % (len(st), " ".join(enc_dict(d) for d in st)) if st else "L0"


def in_domain_stack(stack):
    for d in stack:
        low = [k.lower() for k in d]
        if len(set(low)) != len(low):
            return False
    return True


class Want(object):
    """What the HARNESS configured: the content type and the user agent the requests must carry ("the configured
    one").  Never read back from the library's Config / transport objects: a Config that silently replaces a
    configured value must not be able to move the expectation along with it."""

    def __init__(self, content_type, user_agent):
        self.content_type = content_type
        self.user_agent = user_agent


def same_value(a, b):
    """Equality that does not confuse 0 / False / 0.0 or "" / other empties."""
    return type(a) is type(b) and a == b


def monitor_lines(lines, stack, extra, cfg, body_len):
    """Property statement on the emitted header lines of one request; `cfg` is a Want."""
    if not in_domain_stack(stack + [dict(extra)]):
        return None
    low = [(k.lower(), v) for k, v in lines]
    for prot, want in (("content-length", str(body_len)), ("content-type", cfg.content_type)):
        got = [v for k, v in low if k == prot]
        if got != [want]:
            return "%s emitted as %r, expected exactly [%r]" % (prot, got, want)
    expected = {}
    for k, v in extra:
        expected[k.lower()] = str(v)
    for d in stack:
        for k, v in d.items():
            expected[k.lower()] = str(v)
    for name, val in expected.items():
        if name in PROTECTED:
            continue
        got = [v for k, v in low if k == name]
        if got != [val]:
            return "header %r sent as %r, the most recently pushed value is %r" % (name, got, val)
    if UA not in expected:
        got = [v for k, v in low if k == UA]
        if len(got) != 1 or not same_value(got[0], cfg.user_agent):
            return "User-Agent sent as %r, configured %r" % (got, cfg.user_agent)
    custom = [k for k, _ in low if k not in PROTECTED and k != UA]
    for k in custom:
        if k not in expected:
            return "header %r sent but never pushed" % k
    return None


def gen_dict(rng, allow_protected=True):
    d = {}
    pool = NAMES + ([UA] if rng.random() < 0.4 else []) + (PROTECTED if allow_protected and rng.random() < 0.3 else [])
    for _ in range(rng.randint(0, 3)):
        n = rng.choice(pool)
        k = rng.choice(casings(n))
        if rng.random() < 0.93 and any(x.lower() == k.lower() for x in d):
            continue  # mostly inside the domain: no two spellings of one name in one dictionary
        d[k] = rng.choice(VALUES)
    return d


def systematic_stacks():
    """Exhaustive stacks of 0-3 single-entry dictionaries over 3 names x 3 casings x 3 values (+ protected, UA)."""
    entries = [{c: v} for n in ["x-test", "x-other"] for c in casings(n) for v in ("1", "2", "3")]
    entries += [{c: "p"} for n in PROTECTED + [UA] for c in casings(n)]
    yield []
    for e in entries:
        yield [e]
    for a, b in itertools.product(entries, repeat=2):
        yield [a, b]
    few = [{c: v} for c in casings("x-test") for v in ("1", "2", "3")]
    for a, b, c in itertools.product(few, repeat=3):
        yield [a, b, c]


# ---------------------------------------------------------------------------------------------
# Leaving a block through an exception: four kinds, numbered as in lean/JRV/Driver/Headers.lean (`r0` … `r3`)


class Leave(Exception):
    """kind 0: an Exception subclass."""


class Interrupt(BaseException):
    """kind 1: derives directly from BaseException, as KeyboardInterrupt does (the harness never raises a real
    KeyboardInterrupt, so that one coming from the operator is never mistaken for it)."""


EXIT_KINDS = [Leave, Interrupt, GeneratorExit, SystemExit]
KIND_NAMES = ["Exception", "BaseException", "GeneratorExit", "SystemExit"]
ASSERTION_KIND = 4


def copy_stack(st):
    """A copy deep enough to be unaffected by later pushes/pops and by in-place changes of the dictionaries."""
    return [dict(h) for h in st]


def is_raise(it):
    return isinstance(it, str) and it.startswith("r")


def raise_kind(it):
    return int(it[1:]) if len(it) > 1 else 0   # a bare "r" (replays written before kinds existed) is kind 0


class ProxyRun(object):
    """One real ServerProxy on a recording connection.  Block trees are run on it one after the other; for every
    request the harness records the dictionaries in force (its own bookkeeping: the constructor's dictionary plus
    those of the blocks it is inside of), a copy of the transport's stack, the header lines and the body sent."""

    def __init__(self, cfg, ctor, want=None):
        J = impl.jsonrpclib.jsonrpc
        self.cfg = cfg
        self.want = want or WANT
        self.conn = RecConn()
        self.requests = []
        run = self

        class T(J.Transport):
            def make_connection(self, host):
                return run.conn

            def send_content(self, connection, request_body):
                n0 = len(connection.lines)
                seen = copy_stack(self.additional_headers)
                extra = [tuple(x) for x in (getattr(self, "_extra_headers", None) or [])]
                J.Transport.send_content(self, connection, request_body)
                run.requests.append({
                    "in_force": copy_stack(run.in_force), "transport_stack": seen, "extra": extra,
                    "pre": list(connection.lines[:n0]), "lines": list(connection.lines[n0:]),
                    "body_len": len(connection.body),
                })

        self.transport = T(cfg)
        self.proxy = J.ServerProxy("http://localhost:1/", transport=self.transport, headers=ctor, config=cfg)
        self.base = copy_stack(self.transport.additional_headers)
        self.in_force = copy_stack(self.base)
        self.blocks = []
        self.pending = None

    def _items(self, tree, how):
        J = impl.jsonrpclib.jsonrpc
        for it in tree:
            if it == "c":
                if how == "call":
                    self.proxy.m(1)
                elif how == "notify":
                    self.proxy._notify.m(1)
                else:
                    mc = J.MultiCall(self.proxy)
                    mc.m(1)
                    mc._notify.n(2)
                    mc()
            elif is_raise(it):
                self.pending = EXIT_KINDS[raise_kind(it)]()
                raise self.pending
            else:
                before = copy_stack(self.transport.additional_headers)
                self.in_force.append(dict(it[1]))
                try:
                    with self.proxy._additional_headers(it[1]):
                        self._items(it[2], how)
                finally:
                    self.in_force.pop()
                    self.blocks.append((before, copy_stack(self.transport.additional_headers)))

    def run_tree(self, tree, how):
        """Runs one tree; returns what was observed, with the monitor hits as (key, detail) pairs."""
        first_req, first_blk = len(self.requests), len(self.blocks)
        self.pending = None
        exit_kind, error, hits = None, None, []
        try:
            self._items(tree, how)
        except BaseException as ex:  # noqa: BLE001 - only the harness's own exception object is absorbed
            if self.pending is not None and ex is self.pending:
                exit_kind = EXIT_KINDS.index(type(ex))
            elif isinstance(ex, AssertionError):
                exit_kind = ASSERTION_KIND
                hits.append(("assert", "pop_headers assertion failed: %r" % (ex,)))
            elif isinstance(ex, Exception):
                error = type(ex).__name__
            else:
                raise  # a KeyboardInterrupt / SystemExit that is not ours
        final = copy_stack(self.transport.additional_headers)
        reqs = self.requests[first_req:]
        for n, rq in enumerate(reqs):
            m = monitor_lines(rq["lines"], rq["in_force"], rq["extra"], self.want, rq["body_len"])
            if m:
                hits.append(("recency:" + m[:40], "request %d of the tree, dictionaries in force %r, sent %r: %s"
                             % (n + 1, rq["in_force"], rq["lines"], m)))
            got = [k.lower() for k, _ in rq["pre"] + rq["lines"]]
            if got.count("content-length") != 1 or got.count("content-type") != 1:
                hits.append(("protected", "protected header count wrong in %r" % (rq["pre"] + rq["lines"],)))
        for before, after in self.blocks[first_blk:]:
            if before != after:
                hits.append(("restore", "headers in force after a block %r differ from those before it %r" % (after, before)))
                break
        if final != self.base:
            hits.append(("restore", "stack after the code %r differs from %r" % (final, self.base)))
        return {"exit": exit_kind, "error": error, "final": final, "requests": reqs, "hits": hits}


def run_program(cfg, ctor, program, want=None):
    """`program`: list of [tree, how], run one after the other on ONE proxy (and one transport)."""
    pr = ProxyRun(cfg, ctor, want)
    return pr, [pr.run_tree(tree, how) for tree, how in program]


def gen_block_dict(rng, hot):
    """Dictionary of a block: sibling and nested blocks of one tree often define the same (hot) name, in any letter
    case, with different values."""
    d = gen_dict(rng)
    if rng.random() < 0.6 and not any(k.lower() == hot for k in d):
        d[rng.choice(casings(hot))] = rng.choice(VALUES)
    return d


def gen_tree(rng, depth=0, hot=None):
    if hot is None:
        hot = rng.choice(NAMES + [UA])
    items = []
    for _ in range(rng.randint(1, 3)):
        r = rng.random()
        if r < 0.45 or depth >= 3:
            items.append("c")
        elif r < 0.57:
            items.append("r%d" % rng.randrange(len(EXIT_KINDS)))
        else:
            items.append(["n", gen_block_dict(rng, hot), gen_tree(rng, depth + 1, hot)])
    return items


def systematic_programs(full):
    """Sibling / nested blocks that define one name (in every pair of letter cases) with different values, and blocks
    left through each kind of exception followed by more requests on the same proxy.  Yields (ctor, program)."""
    cs = casings("x-test")
    hows = ["call", "notify", "batch"]
    n = 0
    for c1 in cs:
        for c2 in cs:
            for how in (hows if full else [hows[n % 3]]):
                n += 1
                # two siblings; three siblings a, b, a; a request after them
                yield None, [[[["n", {c1: "a"}, ["c"]], ["n", {c2: "b"}, ["c"]]], how]]
                yield None, [[[["n", {c1: "a"}, ["c"]], ["n", {c2: "b"}, ["c"]], ["n", {c1: "a"}, ["c"]], "c"], how]]
                # siblings inside an outer block and under a constructor dictionary that define the name too
                yield {c2: "0"}, [[[["n", {c1: "o"}, [["n", {c2: "a"}, ["c"]], "c", ["n", {c1: "b"}, ["c"]], "c"]], "c"], how]]
                # the inner value must not survive the inner block
                yield None, [[[["n", {c1: "a"}, ["c", ["n", {c2: "b"}, ["c"]], "c"]], "c"], how]]
                # the siblings are in two trees run one after the other on the same proxy
                yield None, [[[["n", {c1: "a"}, ["c"]]], how], [[["n", {c2: "b"}, ["c"]], "c"], how]]
    # equal dictionaries at two depths: pop_headers must remove the top one, not the first equal one
    for how in (hows if full else hows[:1]):
        yield None, [[[["n", {"X-Test": "1"}, [["n", {"x-other": "2"}, [["n", {"X-Test": "1"}, ["c"]], "c"]], "c"]], "c"], how]]
        yield {}, [[[["n", {}, [["n", {"x-test": "1"}, [["n", {}, ["c"]], "c"]], "c"]], "c"], how]]
    for kind in range(len(EXIT_KINDS)):
        r = "r%d" % kind
        for how in (hows if full else [hows[kind % 3]]):
            yield None, [[[["n", {"X-Test": "1"}, ["c", r]]], how], [["c"], how]]
            yield {"x-test": "0"}, [[[["n", {"X-Test": "1"}, [["n", {"x-other": 2}, ["c", r, "c"]], "c"]]], how],
                                     [["c", ["n", {"X-TEST": "3"}, ["c"]], "c"], how]]
            yield None, [[[["n", {"User-Agent": "u"}, [["n", {"Accept": "a"}, [r]]]]], how], [["c"], how]]


def program_has_raise(program):
    return any(is_raise(x) for tree, _ in program for x in flat_items(tree))


def flat_items(tree):
    for it in tree:
        if isinstance(it, list):
            yield it
            for x in flat_items(it[2]):
                yield x
        else:
            yield it


def program_redefines(ctor, program):
    names = [k.lower() for k in (ctor or {})]
    for tree, _ in program:
        for it in flat_items(tree):
            if isinstance(it, list):
                names += [k.lower() for k in it[1]]
    return len(set(names)) != len(names)


def enc_tree(tree):
    parts = []
    for it in tree:
        if isinstance(it, str):
            parts.append(pyval.enc("r%d" % raise_kind(it) if is_raise(it) else it))
        else:
            parts.append("L3 %s %s %s" % (pyval.enc("n"), enc_dict(it[1]), enc_tree(it[2])))
    return "L%d %s" % (len(parts), " ".join(parts)) if parts else "L0"


def lines_tree(lines):
    return pyval.enc([[k, v] for k, v in lines], canon=False)


def after_fixed(ls):
    """What follows the two fixed headers among the lines of send_content."""
    idx = [i for i, (k, _) in enumerate(ls) if k == "Content-Length"]
    return ls[idx[0] + 1:] if idx else ls


# ---------------------------------------------------------------------------------------------
# Several sends on ONE transport with pushes / pops in between


def run_sequence(cfg, ops):
    """ops: ["push", dict] | ["pop"] | ["extra", [[name, value], …]] | ["send", body] applied to a single J.Transport.
    Returns the list of sends: the dictionaries in force (the harness's own stack), extra, body, emitted lines, monitor."""
    J = impl.jsonrpclib.jsonrpc
    t = J.Transport(cfg)
    mine, sends, hits = [], [], []
    for op in ops:
        if op[0] == "push":
            d = dict(op[1])
            mine.append(d)
            t.push_headers(d)
        elif op[0] == "pop":
            if mine:
                try:
                    t.pop_headers(mine.pop())
                except AssertionError as ex:
                    hits.append(("assert", "pop_headers assertion failed: %r" % (ex,)))
        elif op[0] == "extra":
            t._extra_headers = [tuple(x) for x in op[1]]
        else:
            conn = RecConn()
            extra = [tuple(x) for x in (t._extra_headers or [])]
            t.send_content(conn, op[1])
            blen = len(op[1].encode("utf-8"))
            m = monitor_lines(conn.lines, copy_stack(mine), extra, WANT, blen)
            if m:
                hits.append(("recency:" + m[:40], "send %d on one transport, dictionaries in force %r, sent %r: %s"
                             % (len(sends) + 1, mine, conn.lines, m)))
            sends.append({"stack": copy_stack(mine), "extra": extra, "body": op[1], "blen": blen, "lines": list(conn.lines)})
    if copy_stack(t.additional_headers) != mine:
        hits.append(("restore", "transport stack %r after the sequence, pushed and not popped: %r" % (t.additional_headers, mine)))
    return sends, hits


def gen_ops(rng):
    hot = rng.choice(NAMES + [UA])
    ops, depth = [], 0
    for _ in range(rng.randint(4, 10)):
        r = rng.random()
        if r < 0.35 and depth < 4:
            ops.append(["push", gen_block_dict(rng, hot)])
            depth += 1
        elif r < 0.55 and depth:
            ops.append(["pop"])
            depth -= 1
        elif r < 0.62:
            ops.append(["extra", [] if rng.random() < 0.3 else
                        [[rng.choice(["Authorization", "X-Test", "x-other"]), rng.choice(["Basic abc", "e"])]]])
        else:
            ops.append(["send", rng.choice(["", "{}", "é" * rng.randint(1, 4), '{"jsonrpc": "2.0"}'])])
    ops.append(["send", "{}"])
    return ops


def systematic_sequences():
    cs = casings("x-test")
    for c1 in cs:
        for c2 in cs:
            yield [["push", {c1: "a"}], ["send", "{}"], ["pop"], ["push", {c2: "b"}], ["send", "{}"], ["pop"], ["send", "{}"]]
            yield [["push", {c1: "a"}], ["send", "{}"], ["push", {c2: "b"}], ["send", "{}"], ["pop"], ["send", "{}"],
                   ["pop"], ["send", "{}"]]


def hdr_line(cfg, blen, extra, stack):
    """`cfg` is a Want (the harness's own bookkeeping)."""
    return "hdr L5 %s I%d %s %s %s" % (pyval.enc(cfg.content_type), blen, pyval.enc(cfg.user_agent),
                                      enc_dict(dict(extra)) if extra else "L0", enc_stack(stack))


WANT = Want("application/json-rpc", "ua/1.0")


def make_cfg():
    return impl.jsonrpclib.config.Config(content_type=WANT.content_type, user_agent=WANT.user_agent)


# ---------------------------------------------------------------------------------------------
# "User-Agent is the configured one unless overridden": from Config(user_agent=...) to the header line
#
# A route says how the program configured the user agent and which transport carries the request:
#   {"arg": <value>, "how": "kw" | "pos" | "omitted", "steps": ["copy" | ["store", <value>] ...], "via": <VIAS>}
# Values are JSON values (None, strings, 0 / False / 7) or ["repeat", <piece>, <n>] for a very long string.

UA_CLASSES = [
    ("none", [None]),
    ("empty", [""]),
    ("blank", [" ", "\t", "   "]),
    ("odd", ["0", "None", "False", "  padded  ", "a;b=c, (d) \"q\"", "tab\tinside", "user-agent", ":",
             "jsonrpclib/0 (Python 0)", "Content-Length: 0"]),
    ("long", [["repeat", "Mozilla/5.0 (X11; Linux) ", 300], ["repeat", "x", 9000]]),
    ("plain", ["ua/1.0", "my-agent/2"]),
    ("nonstr", [0, False, 7]),
]
DIRECT_VIAS = ["Transport", "SafeTransport", "UnixTransport"]
PROXY_VIAS = ["proxy-http", "proxy-https", "proxy-unix"]
VIAS = DIRECT_VIAS + PROXY_VIAS
PROXY_URI = {"proxy-http": "http://localhost:1/rpc", "proxy-https": "https://localhost:1/rpc",
             "proxy-unix": "unix+http:///nonexistent/jrv-c18.sock"}
PROXY_CLASS = {"proxy-http": "Transport", "proxy-https": "SafeTransport", "proxy-unix": "UnixTransport"}
UA_OVERRIDES = [None, {"User-Agent": ""}, {"user-agent": "o1"}, {"USER-AGENT": "o2"}, {"user-agent": ""}, {"User-Agent": 0}]


def thaw(v):
    if isinstance(v, list) and len(v) == 3 and v[0] == "repeat":
        return v[1] * v[2]
    return v


def ua_class(v):
    v = thaw(v)
    if v is None:
        return "none"
    if not isinstance(v, str):
        return "nonstr"
    if v == "":
        return "empty"
    if not v.strip():
        return "blank"
    if len(v) > 1000:
        return "long"
    return "plain" if v in ("ua/1.0", "my-agent/2") else "odd"


def default_agent():
    """The library default: the user agent of a configuration nobody configured."""
    return impl.jsonrpclib.config.Config().user_agent


def build_config(route):
    """The program's side: builds the configuration object as the route says.  Returns (cfg, configured) where
    `configured` is the harness's own record of the value configured last (None: the library default was asked for)."""
    C = impl.jsonrpclib.config.Config
    arg = thaw(route.get("arg"))
    how = route.get("how", "kw")
    if how == "omitted":
        cfg, configured = C(), None
    elif how == "pos":
        cfg, configured = C(2.0, WANT.content_type, arg), arg
    else:
        cfg, configured = C(content_type=WANT.content_type, user_agent=arg), arg
    for st in route.get("steps", []):
        if st == "copy":
            cfg = cfg.copy()
        else:
            configured = thaw(st[1])
            cfg.user_agent = configured
    return cfg, configured


def want_of(configured):
    return Want(WANT.content_type, default_agent() if configured is None else configured)


def run_route(route, stack, extra, body, how="call"):
    """run_route_raw, with what the library raises turned into an outcome: an AssertionError (pop_headers) is a monitor
    hit; any other exception is reported as `error` (the model expects none: a disagreement)."""
    try:
        return run_route_raw(route, stack, extra, body, how)
    except AssertionError as ex:
        return {"error": "AssertionError", "hits": [("assert", "pop_headers assertion failed: %r" % (ex,))]}
    except Exception as ex:  # noqa: BLE001
        return {"error": type(ex).__name__, "hits": []}


def run_route_raw(route, stack, extra, body, how="call"):
    """One request of a transport that got the route's configuration.  Direct vias: push `stack`, send `body` with
    send_content.  Proxy vias: ServerProxy(uri, config=cfg, headers=stack[0]) builds its own transport; stack[1:] are
    nested _additional_headers blocks; the request is a call / notification / batch.
    Returns {"lines", "blen", "in_force", "extra", "agent" (the transport's attribute), "class", "hits"}."""
    J = impl.jsonrpclib.jsonrpc
    cfg, configured = build_config(route)
    want = want_of(configured)
    via = route["via"]
    stack = [dict(d) for d in stack]
    hits = []
    if via in DIRECT_VIAS:
        if via == "Transport":
            t = J.Transport(cfg)
        elif via == "SafeTransport":
            t = J.SafeTransport(cfg, None)
        else:
            t = J.UnixTransport(cfg, path="/nonexistent/jrv-c18.sock")
        for d in stack:
            t.push_headers(d)
        t._extra_headers = [tuple(x) for x in extra]
        conn = RecConn()
        t.send_content(conn, body)
        sent, blen, in_force, extra_seen = list(conn.lines), len(body.encode("utf-8")), stack, [tuple(x) for x in extra]
    else:
        ctor = stack[0] if stack else None
        proxy = J.ServerProxy(PROXY_URI[via], config=cfg, headers=ctor)
        t = proxy("transport")
        conn = RecConn()
        rec = []
        real_send = t.send_content

        def send_content(connection, request_body):
            n0 = len(connection.lines)
            real_send(connection, request_body)
            rec.append((list(connection.lines[n0:]), len(connection.body)))

        t.make_connection = lambda host: conn      # nothing is connected: the lines go to the recorder
        t.send_content = send_content
        in_force = [dict(ctor or {})] + stack[1:]
        with contextlib.ExitStack() as blocks:
            for d in stack[1:]:
                blocks.enter_context(proxy._additional_headers(d))
            if how == "notify":
                proxy._notify.m(1)
            elif how == "batch":
                mc = J.MultiCall(proxy)
                mc.m(1)
                mc._notify.n(2)
                mc()
            else:
                proxy.m(1)
        if len(rec) != 1:
            hits.append(("requests", "%d requests sent for one %s" % (len(rec), how)))
        sent, blen = rec[0] if rec else ([], 0)
        extra_seen = [tuple(x) for x in (getattr(t, "_extra_headers", None) or [])]
        if type(t).__name__ != PROXY_CLASS[via]:
            hits.append(("transport-class", "ServerProxy(%r) built a %s" % (PROXY_URI[via], type(t).__name__)))
    m = monitor_lines(sent, in_force, extra_seen, want, blen)
    if m:
        hits.append(("user-agent:" + m[:32] if m.startswith("User-Agent") else "recency:" + m[:40],
                     "configuration %r (configured user agent %r) through %s, dictionaries in force %r, sent %r: %s"
                     % (route, _short(configured), via, in_force, _short_lines(sent), m)))
    return {"lines": sent, "blen": blen, "in_force": in_force, "extra": extra_seen, "agent": t.user_agent,
            "configured": configured, "want": want, "hits": hits}


def _short(v):
    return v if not isinstance(v, str) or len(v) < 80 else v[:40] + "...(%d characters)" % len(v)


def _short_lines(ls):
    return [(k, _short(v)) for k, v in ls]


def enc_steps(steps):
    parts = [pyval.enc("copy") if st == "copy" else "L2 %s %s" % (pyval.enc("store"), pyval.enc(thaw(st[1]))) for st in steps]
    return "L%d %s" % (len(parts), " ".join(parts)) if parts else "L0"


def route_lines(route, res):
    """(model input line, implementation outcome) pairs for one run of a route."""
    arg = None if route.get("how") == "omitted" else thaw(route.get("arg"))
    steps = route.get("steps", [])
    dflt = default_agent()
    out = [("cfgua L3 %s %s %s" % (pyval.enc(dflt), pyval.enc(arg), enc_steps(steps)), "ok " + pyval.enc(res["agent"]))]
    if isinstance(res["want"].user_agent, str) and isinstance(dflt, str) and \
            all(isinstance(v, str) for _, v in res["lines"]):
        out.append(("hdrcfg L7 %s I%d %s %s %s %s %s" % (
            pyval.enc(WANT.content_type), res["blen"], pyval.enc(dflt), pyval.enc(arg), enc_steps(steps),
            enc_dict(dict(res["extra"])) if res["extra"] else "L0", enc_stack(res["in_force"])),
            "ok " + lines_tree(res["lines"])))
    return out


def systematic_routes(full):
    """Every class of configured value x every way to give it x no step / copy / copy copy / a store over it, x every
    transport, without and with an overriding pushed dictionary.  Yields (route, stack).  `full` (thorough tier): the
    whole product; otherwise every value meets every via and every step shape, overrides rotate."""
    step_shapes = [[], ["copy"], ["copy", "copy"]]
    n = 0
    for cls, values in UA_CLASSES:
        for v in values:
            hows = ["kw", "pos"] + (["omitted"] if v is None else [])
            for via in VIAS:
                for how in hows:
                    for steps in step_shapes:
                        n += 1
                        ovs = UA_OVERRIDES if full else [None, UA_OVERRIDES[1 + n % (len(UA_OVERRIDES) - 1)]]
                        for ov in ovs:
                            route = {"arg": v, "how": how, "steps": steps, "via": via}
                            yield route, ([{"x-test": "1"}, ov] if ov is not None else ([] if n % 2 else [{"Accept": "a"}]))
            # a later store wins over the constructor argument, and survives a copy
            for other in ("", "first/1", None):
                if v is None:
                    continue
                for k, via in enumerate(VIAS if full else [VIAS[n % 6], VIAS[(n + 3) % 6]]):
                    n += 1
                    yield {"arg": other, "how": "kw", "steps": [["store", v]], "via": via}, []
                    yield {"arg": other, "how": "kw", "steps": ["copy", ["store", v], "copy"], "via": via}, [{"X-Other": 2}]


def gen_ua(rng, allow_none=True):
    cls, values = rng.choice(UA_CLASSES)
    if cls == "none" and not allow_none:
        return ""
    if cls == "long" and rng.random() < 0.5:
        return ["repeat", rng.choice(["ab ", "x", "agent/1 "]), rng.randint(400, 5000)]
    return rng.choice(values)


def gen_route(rng, strings_only=False, vias=VIAS):
    while True:
        arg = gen_ua(rng)
        how = rng.choice(["kw", "kw", "pos"]) if arg is not None else rng.choice(["kw", "pos", "omitted"])
        steps = []
        for _ in range(rng.choice([0, 0, 1, 1, 2, 3])):
            steps.append("copy" if rng.random() < 0.6 else ["store", gen_ua(rng, allow_none=False)])
        route = {"arg": arg, "how": how, "steps": steps, "via": rng.choice(vias)}
        last = [arg] + [st[1] for st in steps if st != "copy"]
        if not strings_only or last[-1] is None or isinstance(thaw(last[-1]), str):
            return route


def gen_ua_stack(rng):
    """Pushed dictionaries in which a User-Agent entry, in any letter case, empty or not, is frequent."""
    stack = [gen_dict(rng) for _ in range(rng.randint(0, 3))]
    if rng.random() < 0.5:
        d = {rng.choice(casings(UA) + ["user-Agent"]): rng.choice(["", "", "o", " ", 0, None, "ua/1.0"])}
        if rng.random() < 0.5:
            d[rng.choice(casings("x-test"))] = rng.choice(VALUES)
        stack.insert(rng.randint(0, len(stack)), d)
    return stack


def run(ctx):
    J = impl.jsonrpclib.jsonrpc
    cfg = make_cfg()
    ctx.rule = ("stacks of header dictionaries (thorough: exhaustive 0-3 single-entry dictionaries over 3 names x 3 casings x "
                "3 values plus protected names and User-Agent; always: random stacks to depth 4 with non-string values and "
                "_extra_headers) sent through Transport.send_content on a recording connection; sequences of push / pop / "
                "send on one Transport (every send checked); programs of 1-3 trees of nested _additional_headers blocks "
                "with calls / notifications / batches, left normally or through an Exception, a direct BaseException "
                "subclass, GeneratorExit or SystemExit, run one after the other on one real ServerProxy (systematic "
                "sibling / nested redefinitions of one name over every pair of letter cases, plus random trees); "
                "configured user agents (None, empty, blank, odd, very long, non-string; by keyword / position / omitted; "
                "then copy() / attribute stores) through Transport, SafeTransport, UnixTransport and through the transport "
                "ServerProxy(uri, config=...) builds for http / https / unix+http, with and without pushed User-Agent "
                "entries (systematic product + random), and as the configuration of the block-tree programs; "
                "distinct_nontrivial = distinct stacks in which some name is defined more than once (case-insensitively), "
                "sequences with a pop between two sends, programs with an exceptional exit or a name defined by more "
                "than one dictionary, configured-user-agent cases whose configured value is not a plain token")
    lines, impl_out, by_how = [], [], {}

    def one_stack(stack, extra, body):
        t = J.Transport(cfg)
        for d in stack:
            t.push_headers(d)
        t._extra_headers = list(extra)
        conn = RecConn()
        t.send_content(conn, body)
        blen = len(body.encode("utf-8"))
        m = monitor_lines(conn.lines, stack, extra, WANT, blen)
        if m:
            ctx.violate({"stack": stack, "extra": list(extra), "body": body}, m, key=m[:50])
        lines.append(hdr_line(WANT, blen, extra, stack))
        impl_out.append("ok " + lines_tree(conn.lines))
        names = [k.lower() for d in stack for k in d] + [k.lower() for k, _ in extra]
        collide = len(set(names)) != len(names)
        ctx.count(case_repr={"stack": stack, "extra": list(extra), "sent": conn.lines},
                  nontrivial_key=json.dumps(stack, sort_keys=True, default=repr) if collide else None,
                  kind="stack%d%s" % (len(stack), "/collision" if collide else ""))

    def one_sequence(ops):
        sends, hits = run_sequence(cfg, ops)
        for key, detail in hits:
            ctx.violate({"ops": ops}, detail, key=key)
        for sd in sends:
            lines.append(hdr_line(WANT, sd["blen"], sd["extra"], sd["stack"]))
            impl_out.append("ok " + lines_tree(sd["lines"]))
        kinds = [op[0] for op in ops]
        pop_between = "pop" in kinds[kinds.index("send"):] if "send" in kinds else False
        ctx.count(case_repr={"ops": ops, "sent": [sd["lines"] for sd in sends]},
                  nontrivial_key=json.dumps(ops, default=repr) if pop_between else None,
                  kind="seq/%dsends%s" % (min(len(sends), 4), "/pop-between" if pop_between else ""))

    def one_program(ctor, program, route=None):
        if route is None:
            pcfg, want, case = cfg, WANT, {"ctor": ctor, "program": program}
        else:   # the proxy's configuration is built the way the route says (string or default user agents)
            pcfg, configured = build_config(route)
            want, case = want_of(configured), {"ctor": ctor, "program": program, "route": route}
            ctx.hist["ua-config/%s/trees" % ua_class(configured)] += 1
        pr, results = run_program(pcfg, ctor, program, want)
        for i, (res, (tree, how)) in enumerate(zip(results, program)):
            for key, detail in res["hits"]:
                ctx.violate(dict(case, failing_tree=i), detail, key=key)
            # the model starts every tree from the proxy's base stack: blocks of an earlier tree have all been left
            lines.append("blocks L3 %s %s %s" % (pyval.enc(want.user_agent), enc_stack(pr.base), enc_tree(tree)))
            if res["error"] is not None:
                impl_out.append("err %s N" % res["error"])
            else:
                per_call = [[[k, v] for k, v in after_fixed(rq["lines"])] for rq in res["requests"]]
                impl_out.append("ok " + pyval.enc([res["exit"], res["exit"] == ASSERTION_KIND,
                                                   [[[k, v] for k, v in d.items()] for d in res["final"]], per_call]))
        exits = [KIND_NAMES[r["exit"]] if r["exit"] is not None and r["exit"] < len(KIND_NAMES) else
                 ("normal" if r["exit"] is None else "assert") for r in results]
        interesting = program_has_raise(program) or program_redefines(ctor, program)
        ctx.count(case_repr={"program": program, "ctor": ctor, "exits": exits},
                  nontrivial_key=json.dumps([ctor, program], default=repr) if interesting else None,
                  kind="trees%d/%s" % (len(program), next((e for e in exits if e != "normal"), "normal")))
        for res, (tree, how) in zip(results, program):
            by_how[how] = by_how.get(how, 0) + len(res["requests"])

    def one_route(route, stack, extra=(), body="{}", how="call"):
        res = run_route(route, stack, extra, body, how)
        case = {"route": route, "stack": stack, "extra": [list(x) for x in extra], "body": body, "how": how}
        for key, detail in res["hits"]:
            ctx.violate(case, detail, key=key)
        if res.get("error"):
            ctx.disagree(case, "err %s" % res["error"], "ok (no exception expected)", component="route")
            ctx.count(kind="ua-config/raised/" + res["error"])
            return
        for ln, io in route_lines(route, res):
            lines.append(ln)
            impl_out.append(io)
        cls = ua_class(res["configured"])
        overridden = any(k.lower() == UA for d in res["in_force"] for k in d)
        ctx.hist["ua-via/" + route["via"]] += 1
        ctx.hist["ua-steps/" + ("none" if not route["steps"] else
                                "+".join("copy" if st == "copy" else "store" for st in route["steps"]))] += 1
        ctx.count(case_repr={"route": route, "stack": stack, "sent": _short_lines(res["lines"])},
                  nontrivial_key=json.dumps([route, stack, how], default=repr) if cls != "plain" else None,
                  kind="ua-config/%s/%s/%s" % (cls, route.get("how", "kw"), "overridden" if overridden else "not-overridden"))

    # the stack of the original defect, always
    one_stack([{"x-test": "1"}, {"X-Test": "2"}, {"x-test": "3"}], [], "{}")
    if ctx.thorough:
        for st in systematic_stacks():
            one_stack(st, [], "{}")
        ctx.exhaustive = not ctx.searching
    else:
        few = [{c: v} for c in casings("x-test") for v in ("1", "2", "3")]
        for a, b, c in itertools.product(few, repeat=3):
            if ctx.rng.random() < 0.35:
                one_stack([a, b, c], [], "{}")
    for _ in range(ctx.budget(400, 6000)):
        stack = [gen_dict(ctx.rng) for _ in range(ctx.rng.randint(0, 4))]
        extra = []
        if ctx.rng.random() < 0.3:
            extra = [(ctx.rng.choice(["Authorization", "X-Test", "x-other"]), ctx.rng.choice(["Basic abc", "e"]))]
        body = ctx.rng.choice(["", "{}", "é" * ctx.rng.randint(1, 4), '{"jsonrpc": "2.0"}'])
        one_stack(stack, extra, body)

    # the configured User-Agent: every class of value through every transport
    for route, stack in systematic_routes(full=ctx.thorough):
        one_route(route, stack)
    for _ in range(ctx.budget(300, 5000)):
        route = gen_route(ctx.rng)
        if route["via"] in DIRECT_VIAS:
            extra = [] if ctx.rng.random() < 0.7 else [(ctx.rng.choice(["Authorization", "User-Agent", "user-agent"]),
                                                        ctx.rng.choice(["Basic abc", ""]))]
            one_route(route, gen_ua_stack(ctx.rng), extra, ctx.rng.choice(["", "{}", "é" * ctx.rng.randint(1, 4)]))
        else:
            stack = [gen_dict(ctx.rng, allow_protected=False)] + gen_ua_stack(ctx.rng) if ctx.rng.random() < 0.7 else []
            one_route(route, stack, how=ctx.rng.choice(["call", "notify", "batch"]))

    # block trees through a real ServerProxy
    for n, (ctor, program) in enumerate(systematic_programs(full=ctx.thorough)):
        one_program(ctor, program)
        if n % 7 == 0:   # … and under a configured empty / blank / default user agent
            one_program(ctor, program, {"arg": ["", " ", None][n // 7 % 3], "how": "kw", "steps": [["copy"], []][n // 7 % 2],
                                        "via": "given"})
    for i in range(ctx.budget(150, 2500)):
        hot = ctx.rng.choice(NAMES + [UA])
        ntrees = 1 if ctx.rng.random() < 0.65 else ctx.rng.randint(2, 3)
        program = [[gen_tree(ctx.rng, hot=hot), ctx.rng.choice(["call", "notify", "batch"])] for _ in range(ntrees)]
        ctor = None
        if ctx.rng.random() < 0.5:
            ctor = gen_dict(ctx.rng, allow_protected=False)
            if ctx.rng.random() < 0.4 and not any(k.lower() == hot for k in ctor):
                ctor[ctx.rng.choice(casings(hot))] = ctx.rng.choice(VALUES)
        one_program(ctor, program, gen_route(ctx.rng, strings_only=True, vias=["given"]) if ctx.rng.random() < 0.5 else None)

    # several sends on one transport
    for ops in systematic_sequences():
        one_sequence(ops)
    for _ in range(ctx.budget(150, 2500)):
        one_sequence(gen_ops(ctx.rng))

    outs = ctx.lean(lines)
    unmodelled = 0
    for ln, mo, io in zip(lines, outs, impl_out):
        if mo.startswith("err Unmodelled"):
            unmodelled += 1
            continue
        if mo != io:
            ctx.disagree(ln, io, mo, component=ln.split(" ")[0])
    ctx.traces_validated += len(lines) - unmodelled
    ctx.extra["unmodelled_cases"] = unmodelled
    ctx.extra["tree_requests_monitored_by_kind"] = dict(sorted(by_how.items()))
    ctx.assumptions.append("the configured user agent is the `user_agent` argument of Config(...) or the latest value stored into "
                           "the attribute before the configuration is handed to a transport / ServerProxy; None asks for the "
                           "library default (the user agent of Config()); a None stored into the attribute afterwards is "
                           "outside the property (not generated)")
    ctx.assumptions.append("header names are ASCII (str.lower == String.toLower); str(value) modelled for str/int/bool/None values")
    ctx.assumptions.append("exceptions that leave a block: an Exception subclass, a direct BaseException subclass, GeneratorExit "
                           "and SystemExit raised by the block's own code (asynchronous exceptions delivered between "
                           "push_headers and the try statement are outside the model)")


def replay(payload):
    J = impl.jsonrpclib.jsonrpc
    cfg = make_cfg()
    case = payload.get("case", {})
    print(json.dumps(case, indent=1, default=repr))
    found = []
    if "route" in case and "stack" in case:
        res = run_route(case["route"], case["stack"], [tuple(x) for x in case.get("extra", [])], case.get("body", "{}"),
                        case.get("how", "call"))
        if res.get("error"):
            print("the library raised", res["error"])
        else:
            print("configured user agent: %r (None asks for the library default %r)" % (_short(res["configured"]), default_agent()))
            print("user_agent attribute of the transport: %r" % (_short(res["agent"]),))
            print("dictionaries in force:", res["in_force"], "extra:", res["extra"])
            print("sent:", _short_lines(res["lines"]))
        found += [detail for _, detail in res["hits"]]
    elif "stack" in case:
        t = J.Transport(cfg)
        for d in case["stack"]:
            t.push_headers(d)
        t._extra_headers = [tuple(x) for x in case.get("extra", [])]
        conn = RecConn()
        t.send_content(conn, case.get("body", "{}"))
        print("sent:", conn.lines)
        m = monitor_lines(conn.lines, case["stack"], t._extra_headers, WANT, len(case.get("body", "{}").encode("utf-8")))
        if m:
            found.append(m)
    elif "ops" in case:
        sends, hits = run_sequence(cfg, case["ops"])
        for n, sd in enumerate(sends):
            print("send %d: in force %r extra %r sent %r" % (n + 1, sd["stack"], sd["extra"], sd["lines"]))
        found += [detail for _, detail in hits]
    else:
        program = case.get("program")
        if program is None:  # replay files written before programs of several trees existed
            program = [[case["tree"], case.get("how", "call")]]
        want = None
        if case.get("route") is not None:
            cfg, configured = build_config(case["route"])
            want = want_of(configured)
            print("configured user agent: %r (None asks for the library default %r)" % (_short(configured), default_agent()))
        pr, results = run_program(cfg, case.get("ctor"), program, want)
        print("stack of the new proxy:", pr.base)
        for i, res in enumerate(results):
            print("tree %d (%s): exit=%s stack afterwards=%r" % (
                i, program[i][1], "normal" if res["exit"] is None else (KIND_NAMES + ["AssertionError"])[res["exit"]],
                res["final"]))
            for n, rq in enumerate(res["requests"]):
                print("  request %d: in force %r transport stack %r sent %r" % (n + 1, rq["in_force"], rq["transport_stack"], rq["lines"]))
            if res["error"]:
                print("  unexpected exception:", res["error"])
            found += ["tree %d: %s" % (i, detail) for _, detail in res["hits"]]
    if found:
        for m in found:
            print("VIOLATION reproduced:", m)
        return 1
    print("no violation")
    return 0
