"""
C19 — Transport faults are contained: no foreign results, and the proxy recovers.

Model   : lean/JRV/Model/Transport.lean (library logic + environment model of http.client / peer)
Theorems: lean/JRV/Properties/C19.lean
Tie     : extracted facts (tools/extractors/transport.py) + correspondence: fault scripts run against a scripted
          raw-socket peer (harness/peer.py) over TCP and Unix sockets with a real ServerProxy; per-call outcome
          classes {own result, TransportError(code), exception family} compared with the model on the same script.
Monitor : the property statement: own token or an exception; TransportError carries URL and status; never a foreign
          token; after the faults stop at most one further call fails before healthy calls succeed.
"""
import http.client
import itertools
import json
import shutil
import socket
import tempfile

import impl
import peer as peermod

REQUIRED_THEOREMS = [
    "C19_own_or_raise", "C19_session_own", "C19_transport_error", "C19_recovery", "C19_healthy_stays",
    "C19_recovery_tight", "C19_gen_closeOnError", "C19_gen_drainWhenLength", "C19_gen_emptyBodyNone",
]

ALPHABET = ["ok", "okc", "down", "cbr", "rst", "sl404", "sl500", "snl500", "bl204", "trunc", "empty", "nonjson"]
TAIL = 3  # healthy calls appended to every script


def classify(kind, val, J):
    if kind == "ok":
        return "r%s" % (val,)
    if isinstance(val, J.TransportError):
        return "te%s" % (val.errcode,)
    if isinstance(val, ConnectionRefusedError) or isinstance(val, FileNotFoundError):
        return "o:refused"
    if isinstance(val, (http.client.RemoteDisconnected, ConnectionResetError, BrokenPipeError, ConnectionAbortedError)):
        return "o:disconnected"
    if isinstance(val, (http.client.ResponseNotReady, http.client.CannotSendRequest)):
        return "o:http-state"
    if isinstance(val, http.client.IncompleteRead):
        return "o:incomplete"
    if isinstance(val, TypeError):
        return "o:empty"
    if isinstance(val, ValueError):
        return "o:decode"
    return "o:%s" % type(val).__name__


def run_script(kind, scripts, tmpdir, J, cfg):
    """Runs one session (fresh peer, fresh proxy).  Returns (outcome classes, violations)."""
    p = peermod.Peer(kind, tmpdir)
    outs, viol = [], []
    try:
        proxy = J.ServerProxy(p.url(), config=cfg)
        url_part = ("127.0.0.1:%d/rpc" % p.port) if kind == "tcp" else "/"
        for i, script in enumerate(scripts):
            p.begin_call(i, script)
            try:
                k, v = impl.outcome(proxy.echo, i)
            finally:
                p.end_call()
            c = classify(k, v, J)
            outs.append(c)
            if k == "ok" and v != i:
                viol.append("call %d returned %r: a stale or foreign response" % (i, v))
            if k == "err" and isinstance(v, J.TransportError):
                if v.url != url_part or not isinstance(v.errcode, int) or v.errcode == 200:
                    viol.append("TransportError of call %d carries url %r status %r" % (i, v.url, v.errcode))
            # the reply the client actually received for this call: the last request of this call the peer answered
            p.quiesce()
            mine = [b for (t, b) in list(p.seen) if t == i]
            if mine and mine[-1].startswith(("sl", "snl", "bl")) and c != "o:http-state":
                code = int(mine[-1].lstrip("snlb"))
                if c != "te%d" % code:
                    viol.append("call %d was answered with status %d but %s instead of TransportError(%d)"
                                % (i, code, ("returned %r" % (v,)) if k == "ok" else ("raised %s" % type(v).__name__), code))
        try:
            proxy("close")()
        except Exception:
            pass
    finally:
        p.stop()
    # recovery over the healthy tail
    tail = outs[len(scripts) - TAIL:]
    fails = [o for o in tail if not o.startswith("r")]
    if len(fails) > 1 or (tail and not tail[-1].startswith("r")) or (len(tail) >= 2 and tail[0].startswith("r") and fails):
        viol.append("no recovery once faults stopped: healthy tail outcomes %r" % (tail,))
    return outs, viol


def run(ctx):
    J = impl.jsonrpclib.jsonrpc
    cfg = impl.jsonrpclib.config.Config()
    ctx.rule = ("fault scripts over the alphabet %s (one behaviour list per call: first attempt, retry), followed by %d healthy "
                "calls, on a fresh scripted peer + fresh ServerProxy per script, over TCP and over a Unix socket; quick: every "
                "single fault followed by every second fault (pairs) plus random scripts of length <= 8; thorough: all scripts of "
                "length 3 plus random to length 12; distinct_nontrivial = distinct scripts in which a fault is followed by a healthy call"
                % (ALPHABET, TAIL))
    old_to = socket.getdefaulttimeout()
    socket.setdefaulttimeout(10)
    tmpdir = tempfile.mkdtemp(prefix="jrv-c19-")
    lines, impl_out = [], []
    try:
        scripts = []
        single = [[b] for b in ALPHABET] + [[b, "ok"] for b in ("cbr", "rst")] + [["cbr", "cbr"], ["rst", "cbr"], ["cbr", "down"],
                                                                                    ["cbr", "sl500"], ["rst", "trunc"], ["cbr", "bl204"]]
        if ctx.thorough:
            for a, b, c in itertools.product(range(len(ALPHABET)), repeat=3):
                scripts.append([[ALPHABET[a]], [ALPHABET[b]], [ALPHABET[c]]])
            ctx.exhaustive = not ctx.searching
        else:
            for a, b in itertools.product(range(len(ALPHABET)), repeat=2):
                scripts.append([[ALPHABET[a]], [ALPHABET[b]]])
        for s in single:
            scripts.append([s])
            scripts.append([["okc"], s])
            scripts.append([["bl204"], s])
        for _ in range(ctx.budget(60, 600)):
            n = ctx.rng.randint(1, 8 if not ctx.thorough else 12)
            sc = []
            for _i in range(n):
                if ctx.rng.random() < 0.35:
                    sc.append(["ok"])
                else:
                    first = ctx.rng.choice(ALPHABET)
                    call = [first]
                    if first in ("cbr", "rst") and ctx.rng.random() < 0.7:
                        call.append(ctx.rng.choice(ALPHABET))
                    sc.append(call)
            scripts.append(sc)
        # a bodiless status immediately followed by a peer that is down leaves the connection both unread and
        # dead: whether the dead socket (EPIPE on the second send) or the unread response (ResponseNotReady) is
        # noticed first depends on kernel timing; both are exceptions and both recover - not generated
        scripts = [sc for sc in scripts
                   if not any(a and b and a[-1].startswith("bl") and b[0] == "down" for a, b in zip(sc, sc[1:]))]
        kinds = ["tcp", "unix"]
        for si, sc in enumerate(scripts):
            full = sc + [[] for _ in range(TAIL)]
            for kind in (kinds if (ctx.thorough or si % 2 == 0) else [kinds[si % 4 // 2]]):
                outs, viol = run_script(kind, full, tmpdir, J, cfg)
                for m in viol:
                    ctx.violate({"transport": kind, "script": full}, m, key=m.split(":")[0][:40])
                lines.append("net " + " / ".join(" ".join(c) for c in full))
                impl_out.append(" ".join(outs))
                fault_then_ok = any((c and c[0] not in ("ok",)) for c in sc)
                ctx.count(case_repr={"transport": kind, "script": full, "outcomes": outs},
                          nontrivial_key=(json.dumps(sc)) if fault_then_ok else None,
                          kind="%s/len%d" % (kind, len(sc)))
    finally:
        socket.setdefaulttimeout(old_to)
        shutil.rmtree(tmpdir, ignore_errors=True)
    outs = ctx.lean(lines)
    for ln, mo, io_ in zip(lines, outs, impl_out):
        if mo != io_:
            ctx.disagree(ln, io_, mo, component="net")
    ctx.traces_validated += len(lines)
    ctx.assumptions.append("environment model of http.client, the scripted peer and the kernel's TCP/Unix sockets (stale connection => "
                           "disconnect-class error on first use; unread bodiless response => ResponseNotReady) is assumed by the theorems "
                           "and validated by this correspondence; RST/FIN timing inside the kernel cannot be exhibited by the model")


def search(ctx):
    # one more pass with the thorough budget (each session needs real sockets: keep the search bounded)
    run(ctx)


def replay(payload):
    J = impl.jsonrpclib.jsonrpc
    cfg = impl.jsonrpclib.config.Config()
    case = payload.get("case", {})
    print(json.dumps(case, indent=1))
    tmpdir = tempfile.mkdtemp(prefix="jrv-c19-")
    socket.setdefaulttimeout(10)
    try:
        outs, viol = run_script(case.get("transport", "tcp"), case["script"], tmpdir, J, cfg)
    finally:
        shutil.rmtree(tmpdir, ignore_errors=True)
    print("outcomes:", outs)
    for v in viol:
        print("VIOLATION reproduced:", v)
    return 1 if viol else 0
