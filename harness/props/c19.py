"""
C19 — Transport faults are contained: no foreign results, and the proxy recovers.

Model   : lean/JRV/Model/Transport.lean (library logic + environment model of http.client / peer / kernel)
Theorems: lean/JRV/Properties/C19.lean, companions of the extracted facts in C19Gen.lean
Tie     : extracted facts (tools/extractors/transport.py; the two `Lib` switches of the model are *inputs* taken from
          the facts) + correspondence: fault scripts run against a scripted raw-socket peer (harness/peer.py) over TCP
          and Unix sockets with a real ServerProxy; per-call outcome classes {own result, TransportError(code),
          exception family} compared with the model on the same script.
Monitor : the property statement: own token or an exception; TransportError carries URL and status and is raised for
          EVERY non-200 reply the call actually received (whatever its code in {201 … 503}, with or without a length,
          whatever its body looks like: text, a JSON-RPC result for this call, for another call, an error object);
          never a foreign token; after the faults stop at most one further call — the first — fails.
          Error-reply BODIES of every kind (family `sb`, see harness/peer.py): empty, tens of KiB, HTML in UTF-8 and in
          ISO-8859-1, gzip bytes with and without `Content-Encoding`, arbitrary bytes, text cut inside a character, UTF-16,
          JSON-RPC look-alikes - with a Content-Length (keep-alive / `Connection: close`), without one, in chunked transfer
          encoding; each followed by healthy calls, each also on a kept-alive connection.
          200-reply BODIES of every kind (families `hb` and `nb`, see harness/peer.py).  HEALTHY replies are not only the
          7-bit documents of the bundled server: raw multi-byte UTF-8 (bytes != characters), \\u escapes, both, indented,
          tens of KiB, gzip-coded; in every framing - a call answered by one returns ITS OWN result `[token, text]`, and
          such replies make up healthy tails (recovery).  Bodies that are NOT JSON text (ISO-8859-1, a character cut in
          half, lone / over-long bytes, binary, undeclared gzip, bytes behind the document): the call must RAISE - the
          damage sits inside the result, whatever is returned is made up - and later calls recover.
          Replies are also delivered IN PIECES (family `q`, see harness/peer.py): the peer pauses after the status line, after
          the header block, inside the body, before surplus bytes and after informational 1xx responses, each pause lasting
          until the client has acted (returned, or blocked reading) — so bytes of an exchange can reach the connection after
          the client has finished with it.  Every healthy call after such a fault must still return its own token.
"""
import http.client
import itertools
import json
import re
import select
import shutil
import socket
import tempfile

import core
import impl
import peer as peermod

REQUIRED_THEOREMS = [
    "C19_own_or_raise_partial", "C19_session_own_partial", "C19_unsolicited_reply_is_returned", "C19_hidden_reply_is_dropped",
    "C19_transport_error", "C19_error_codes_not_success", "C19_healthy_stays", "C19_first_after_faults", "C19_recovery",
    "C19_recovery_after_faults_partial", "C19_recovery_tight",
    "C19_gen_closeOnError", "C19_gen_successStatus", "C19_gen_raisesTransportError", "C19_gen_libSwitches", "C19_gen_emptyBodyNone",
    "C19_gen_responseNotClosedUnread", "C19_split_transport_error", "C19_split_informational", "C19_split_cut_short_raises_incomplete",
    "C19_split_late_body_is_consumed", "C19_split_early_hints_then_final", "C19_split_extends",
    "C19_error_body_transport_error", "C19_error_body_irrelevant", "C19_error_body_recovery", "C19_gen_errorBodyUnused",
    "C19_ok_body_own_result", "C19_ok_body_irrelevant", "C19_bad_body_raises", "C19_bad_body_recovery", "C19_bad_body_extends",
    "C19_gen_replyDecodingStrict", "C19_gen_successReturnsParsed",
]

# status codes of replies with a body (the property: "non-200 status with or without a body"); 204/304 are bodiless
ERR_CODES = [201, 202, 206, 301, 302, 400, 401, 403, 404, 500, 502, 503]
BODY_KINDS = ["", "o", "f", "e"]  # text / own result / another token's result / error object
BODILESS = [204, 304]
# behaviour families of the property's alphabet (+ surplus bytes and hidden replies); instantiated per use
FAMILIES = ["ok", "okc", "down", "cbr", "rst", "sl", "snl", "bl", "blz", "trunc", "empty", "nonjson", "xn", "sx", "sy", "sz", "q", "sb", "hb", "nb"]
UNREAD = ("bl", "sy", "sz", "xl")  # families that leave something unread (or an unread response) on a kept-alive connection
TAIL = 3  # healthy calls appended to every script
FRAMING_NAMES = {"l": "content-length", "n": "no-length-close", "c": "chunked", "k": "content-length+connection-close"}
NON200 = re.compile(r"^(snl|sl|blz|bl|sx|sy|sz|sb)(\d+)")


# healthy exchanges delivered in pieces (after `100 Continue`, cut after the status line / the headers / inside the body)
HEALTHY_SPLIT = ["q_ok_=_h", "q_ok_=_lb", "qC_ok_=_", "qc_ok_=_lhb", "q_ok_=_b"]
Q_BODY_KINDS = ["", "o", "f", "e", "h"]  # h: the body of the non-200 reply is itself a complete HTTP 200 reply (another token)
Q_CUTS = ["", "l", "h", "b", "lh", "lb", "hb", "lhb"]
Q_INFOS = ["", "c", "C", "e", "E", "p", "P"]


def family(beh):
    if peermod.parse_q(beh) is not None:
        return "q"
    if peermod.parse_sb(beh) is not None:
        return "sb"
    if peermod.parse_hb(beh) is not None:
        return "hb"
    if peermod.parse_nb(beh) is not None:
        return "nb"
    m = re.match(r"^(snl|sl|blz|bl|xn|xl|sx|sy|sz)\d", beh)
    return m.group(1) if m else beh


def q_facts(beh):
    """What a reply delivered in pieces shows the client, from its description alone (HTTP semantics, not the model):
    codes   : the non-200 statuses the client may report (the first informational response that is not `100 Continue` -
              http.client hands it to the caller - and the final status when it is not 200);
    cut_short: the body is shorter than the announced length and the peer closes (the reply is ALSO a truncated one);
    unread  : what the reply leaves on a kept-alive connection once the client has finished with the exchange
              ("pending": an unread bodiless/informational response, "junk": surplus bytes sent after a pause), or None;
    classes : histogram keys of the input classes the reply belongs to."""
    q = peermod.parse_q(beh)
    if q is None:
        return None
    kind, code, bk = q["final"]
    other = [c for (c, _r, _cut) in q["infos"] if c != 100]
    codes = ([other[0]] if other else []) + ([code] if code != 200 else [])
    unread = None
    if other or (kind == "b" and q["delta"] == "n"):
        unread = "pending"
    elif q["delta"] == "~":
        unread = "junk"
    classes = []
    if kind == "s" and ("h" in q["cuts"] or "b" in q["cuts"]):
        classes.append("non200-body-after-headers")
    if q["infos"]:
        classes.append("informational-then-final" + ("-late" if any(cut for (_c, _r, cut) in q["infos"]) else ""))
    if q["delta"] in "+~":
        classes.append("body-longer-than-length" + ("-late" if q["delta"] == "~" else ""))
    if q["delta"] == "-":
        classes.append("body-shorter-than-length")
    if "l" in q["cuts"]:
        classes.append("cut-after-status-line")
    if "h" in q["cuts"]:
        classes.append("cut-after-headers")
    if "b" in q["cuts"]:
        classes.append("cut-inside-body")
    if bk == "h":
        classes.append("body-looks-like-http-reply")
    if kind == "ok":
        classes.append("final-200")
    closes = q["delta"] == "-" or (q["delta"] == "n" and kind == "s")
    return {"codes": codes, "final200": code == 200, "cut_short": q["delta"] == "-" and not other, "unread": unread,
            "classes": classes, "healthy": kind == "ok" and q["delta"] == "=" and not other,
            # an unread response on a connection the peer then closes: whether the next call notices the dead socket
            # (while sending: retried) or the unread response (ResponseNotReady) first is kernel timing - not generated
            "dead_and_unread": unread == "pending" and closes}


def instantiate_q(rng):
    while True:
        b = _instantiate_q(rng)
        if not q_facts(b)["dead_and_unread"]:
            return b


def _instantiate_q(rng):
    infos = "" if rng.random() < 0.5 else "".join(rng.choice("cCpPeE") for _ in range(rng.randint(1, 2)))
    r = rng.random()
    if r < 0.2:
        final, delta = "ok", rng.choice("==+~-")
    elif r < 0.85:
        final, delta = "s%d%s" % (rng.choice(ERR_CODES), rng.choice(Q_BODY_KINDS)), rng.choice("===+~-n")
    else:
        final, delta = "b%d" % rng.choice(BODILESS), rng.choice("=n")
    cuts = rng.choice(Q_CUTS + ["h", "h", "hb"])
    return "q%s_%s_%s_%s" % (infos, final, delta, cuts)


def instantiate(fam, rng, i):
    """A concrete behaviour of the family for call number i (codes and body kinds drawn per use)."""
    if fam in ("sl", "snl"):
        return "%s%d%s" % (fam, rng.choice(ERR_CODES), rng.choice(BODY_KINDS))
    if fam in ("bl", "blz"):
        return "%s%d" % (fam, rng.choice(BODILESS))
    if fam in ("xn", "xl"):
        return "%s%d" % (fam, peermod.FOREIGN + i)
    if fam in ("sx", "sy"):
        return "%s%d" % (fam, rng.choice(ERR_CODES))
    if fam == "sz":
        return "sz%d_%d" % (rng.choice(ERR_CODES), peermod.FOREIGN + i)
    if fam == "q":
        return instantiate_q(rng)
    if fam == "sb":
        return "sb%d_%s_%s" % (rng.choice(ERR_CODES), rng.choice(peermod.ERROR_BODY_KINDS), rng.choice(peermod.ERROR_FRAMINGS))
    if fam == "hb":
        return hb_draw(rng)
    if fam == "nb":
        return "nb_%s_%s" % (rng.choice(peermod.BAD_BODY_KINDS), rng.choice(peermod.ERROR_FRAMINGS))
    return fam


def hb_draw(rng):
    """A healthy reply of a drawn kind and framing (raw multi-byte text with a Content-Length twice as likely)."""
    return "hb_%s_%s" % (rng.choice(peermod.OK_BODY_KINDS + ["raw", "mix"]), rng.choice(peermod.ERROR_FRAMINGS + ["l"]))


def own_value(v, i, mine):
    """The value is the result of call i's own request: its token (plain healthy replies) or the `[token, text]` of a
    healthy `hb` reply the peer sent in answer to a request of this call."""
    if type(v) is int and v == i:
        return True
    return any(peermod.parse_hb(b) is not None and v == peermod.ok_result(peermod.parse_hb(b)[0], i) for (b, _sh) in mine)


def leaves_unread(beh):
    """The reply leaves something unread (or an unread response) on a kept-alive connection."""
    sb = peermod.parse_sb(beh)
    if sb is not None:
        return sb[2] == "c"   # a chunked error body: no Content-Length, nothing is read
    return family(beh) in UNREAD or bool((q_facts(beh) or {}).get("unread"))


def classify(kind, val, J):
    if kind == "ok":
        return ("r%s" % (val,)) if type(val) is int else "r?"
    if isinstance(val, J.TransportError):
        return "te%s" % (val.errcode,)
    if isinstance(val, J.ProtocolError):
        return "o:protocol"
    if isinstance(val, ConnectionRefusedError) or isinstance(val, FileNotFoundError):
        return "o:refused"
    if isinstance(val, (http.client.RemoteDisconnected, ConnectionResetError, BrokenPipeError, ConnectionAbortedError)):
        return "o:disconnected"
    if isinstance(val, http.client.BadStatusLine):
        return "o:http-garbage"
    if isinstance(val, (http.client.ResponseNotReady, http.client.CannotSendRequest)):
        return "o:http-state"
    if isinstance(val, http.client.IncompleteRead):
        return "o:incomplete"
    if isinstance(val, TypeError):
        return "o:empty"
    if isinstance(val, ValueError):
        return "o:decode"
    return "o:%s" % type(val).__name__


def client_socket(proxy):
    """The socket of the proxy's cached connection (None when there is none)."""
    try:
        conn = proxy("transport")._connection[1]
        return getattr(conn, "sock", None)
    except Exception:
        return None


def wait_late_bytes(proxy):
    """The peer has sent late bytes: wait until they sit in the client's socket (so that the next call sees them)."""
    sock = client_socket(proxy)
    if sock is None or sock.fileno() < 0:
        return
    r, _, _ = select.select([sock], [], [], peermod.QUIESCE_TIMEOUT)
    if not r:
        raise core.InfraError("late bytes of the scripted peer did not reach the client's socket within %.0f s" % peermod.QUIESCE_TIMEOUT)


def run_script(kind, scripts, tmpdir, J, cfg, tail=TAIL):
    """Runs one session (fresh peer, fresh proxy).  Returns (outcome classes, violations, notes).
    `tail`: number of trailing healthy calls the recovery monitor applies to (0: none)."""
    p = peermod.Peer(kind, tmpdir)
    outs, viol, notes = [], [], []
    unsolicited = False  # an out-of-alphabet unsolicited reply (xl) has been sent in this session
    try:
        proxy = J.ServerProxy(p.url(), config=cfg)
        p.client_sock = lambda: client_socket(proxy)
        url_part = ("127.0.0.1:%d/rpc" % p.port) if kind == "tcp" else "/"
        for i, script in enumerate(scripts):
            p.begin_call(i, script)
            late = 0
            try:
                k, v = impl.outcome(proxy.echo, i)
            finally:
                late = p.end_call()
            if late:
                wait_late_bytes(proxy)
            mine = [(b, sh) for (t, b, sh) in list(p.seen) if t == i]
            own = k == "ok" and own_value(v, i, mine)
            c = ("r%d" % i) if own else classify(k, v, J)
            outs.append(c)
            if k == "ok" and not own:
                if unsolicited:
                    notes.append("call %d returned %r after an unsolicited complete reply (outside the property's fault alphabet)" % (i, v))
                else:
                    viol.append("call %d returned %s: a stale or foreign response" % (i, repr(v)[:200]))
            if k == "err" and isinstance(v, J.TransportError):
                if v.url != url_part or not isinstance(v.errcode, int) or v.errcode == 200:
                    viol.append("TransportError of call %d carries url %r status %r" % (i, v.url, v.errcode))
            # the reply the client actually received for this call: the last request of this call the peer answered,
            # unless unread late bytes preceded that answer on the connection (shadowed) or the client refused to read
            # (an unread earlier response: http-state)
            qf = q_facts(mine[-1][0]) if mine else None
            if qf is not None and not mine[-1][1] and c != "o:http-state":
                # a reply delivered in pieces: a status other than 200 that the client was shown => TransportError with it
                how = ("returned %r" % (v,)) if k == "ok" else ("raised %s" % type(v).__name__)
                if qf["cut_short"] and qf["codes"]:
                    # the non-200 reply is also a truncated one (two faults of the alphabet at once): an exception, whichever
                    if k == "ok":
                        viol.append("call %d was answered with status %d and a body cut short (%s) but %s" % (i, qf["codes"][0], mine[-1][0], how))
                    elif not c.startswith("te"):
                        notes.append("cut-short: call %d: status %d with a body shorter than announced, then close (%s): %s, not TransportError"
                                     % (i, qf["codes"][0], mine[-1][0], how))
                elif qf["codes"] and not (c.startswith("te") and int(c[2:]) in qf["codes"]) and not (qf["final200"] and c == "r%d" % i):
                    viol.append("call %d was answered with status %s (%s) but %s instead of TransportError(%s)"
                                % (i, "/".join(map(str, qf["codes"])), mine[-1][0], how, qf["codes"][0]))
            elif mine and not mine[-1][1] and c != "o:http-state":
                m = NON200.match(mine[-1][0])
                if m:
                    code = int(m.group(2))
                    if c != "te%d" % code:
                        viol.append("call %d was answered with status %d (%s) but %s instead of TransportError(%d)"
                                    % (i, code, mine[-1][0], ("returned %r" % (v,)) if k == "ok" else ("raised %s" % type(v).__name__), code))
            if mine and not mine[-1][1] and c != "o:http-state" and peermod.parse_nb(mine[-1][0]) is not None and k == "ok":
                # the reply this call received is a 200 whose body is not JSON text: there is no result of its request
                viol.append("call %d was answered 200 with a body that is not JSON text (%s) but returned %r instead of raising"
                            % (i, mine[-1][0], v))
            if any(b.startswith("xl") for (b, _sh) in mine):
                unsolicited = True
        try:
            proxy("close")()
        except Exception:
            pass
    finally:
        p.stop()
    # recovery over the healthy tail: at most one further call fails, and only the first
    if tail and not unsolicited:
        t = outs[len(scripts) - tail:]
        if any(not o.startswith("r") for o in t[1:]):
            viol.append("no recovery once faults stopped: healthy tail outcomes %r" % (t,))
    return outs, viol, notes


def excluded(sc):
    """Sessions whose outcome depends on kernel timing (both outcomes are exceptions and both recover), not generated:
    a connection with unread bytes / an unread response whose peer then goes down (dead socket noticed while
    sending, or the unread data noticed first), and unread surplus bytes followed by a reset (TCP: ECONNRESET and a
    retry; Unix sockets know no reset: BadStatusLine); likewise a reply in pieces that leaves an unread informational
    response on a connection the peer then closes (q_facts: dead_and_unread)."""
    if any((q_facts(x) or {}).get("dead_and_unread") for call in sc for x in call):
        return True
    for a, b in zip(sc, sc[1:]):
        if not a or not b:
            continue
        if any(leaves_unread(x) for x in a) and b[0] == "down":
            return True
        if any(family(x) in ("sy", "sz") or (q_facts(x) or {}).get("unread") == "junk" for x in a) and b[0] == "rst":
            return True
    return False


def lib_flags(ctx):
    d = ctx.facts.get("singleRequestDrainsWhenLength")
    c = ctx.facts.get("singleRequestClosesWhenNoLength")
    return "lib:%d%d" % (1 if (d is None or d) else 0, 1 if c else 0)


def run(ctx):
    J = impl.jsonrpclib.jsonrpc
    cfg = impl.jsonrpclib.config.Config()
    ctx.rule = ("fault scripts over the behaviour families %s (one behaviour list per call: first attempt, retry); status codes of "
                "sl/snl/sx/sy/sz drawn per use from %s, body kinds from {text, own JSON-RPC result, another token's result, error "
                "object}, bodiless 204/304 with and without `Content-Length: 0`; family sb = error bodies of every kind %s x framing "
                "{Content-Length, no length + close, chunked transfer encoding, Content-Length + Connection: close}, every "
                "combination once; families hb = HEALTHY 200 replies whose JSON text is %s (result [token, text]) and nb = 200 "
                "replies whose body is not JSON text %s, in the same four framings: every hb combination once as a three-call "
                "healthy tail after a fault and once in first position / on a kept-alive connection, every nb combination once; "
                "both drawn in the pairs, the random scripts and (hb) the healthy tails; sb: every combination once (alone or after a healthy keep-alive call) and drawn in the pairs and random scripts; followed by %d healthy calls (keep-alive or closing), "
                "on a fresh scripted peer + fresh ServerProxy per script, over TCP and over a Unix socket; quick: every single "
                "(code, body kind, length) combination, every pair of families, random scripts of length <= 8; thorough: all "
                "triples of families plus random to length 12; a few sessions with an unsolicited complete reply (outside the "
                "alphabet) validate the unread-data part of the environment model; family q = replies delivered in pieces "
                "(informational 100/102/103 responses first; pauses after the status line, after the header block, inside the body, "
                "before surplus bytes, each lasting until the client has returned or blocks reading; body as long as / longer / "
                "shorter than the announced length, or no length; non-200 bodies that are themselves complete HTTP replies): every "
                "(final, delta) with every single cut and with every informational prefix, in first position and after a healthy "
                "call, the healthy tail itself partly delivered in pieces; distinct_nontrivial = distinct scripts in "
                "which a fault is followed by a healthy call" % (FAMILIES, ERR_CODES, peermod.ERROR_BODY_KINDS, peermod.OK_BODY_KINDS,
                                                                peermod.BAD_BODY_KINDS, TAIL))
    old_to = socket.getdefaulttimeout()
    socket.setdefaulttimeout(30)
    tmpdir = tempfile.mkdtemp(prefix="jrv-c19-")
    lines, impl_out = [], []
    lib = lib_flags(ctx)
    rng = ctx.rng

    def inst(fam_script):
        """[[family, ...], ...] -> concrete behaviours (tokens of extra replies depend on the call number)."""
        return [[instantiate(f, rng, i) if f in FAMILIES or f == "xl" else f for f in call] for i, call in enumerate(fam_script)]

    def tails():
        return [rng.choice([[], [], ["ok"], ["okc"], [rng.choice(HEALTHY_SPLIT)], [hb_draw(rng)], [hb_draw(rng)]]) for _ in range(TAIL)]

    try:
        sessions = []  # (script, tail length)
        # every non-200 reply shape once: code x body kind x length announced or not
        for code in ERR_CODES:
            for bk in BODY_KINDS:
                sessions.append(([["sl%d%s" % (code, bk)]], TAIL))
                sessions.append(([["snl%d%s" % (code, bk)]], TAIL))
        for code in BODILESS:
            sessions.append(([["bl%d" % code]], TAIL))
            sessions.append(([["blz%d" % code]], TAIL))
        # every kind of error body in every framing: alone on a new connection, and on a kept-alive one
        sbn = 0
        for kind_ in peermod.ERROR_BODY_KINDS:
            for fr in peermod.ERROR_FRAMINGS:
                b = "sb%d_%s_%s" % (ERR_CODES[sbn % len(ERR_CODES)], kind_, fr)
                sessions.append(([[b]] if sbn % 2 == 0 else [["ok"], [b]], TAIL))
                if ctx.thorough:
                    sessions.append(([["ok"], [b]] if sbn % 2 == 0 else [[b]], TAIL))
                    sessions.append(([[b], [b]], TAIL))
                sbn += 1
        # healthy 200 replies of every kind in every framing: as the healthy TAIL after a fault (recovery: at most the
        # first may fail) - the same reply three times, and mixed - and in first position / on a kept-alive connection
        hbn = 0
        faults = [["sl500"], ["cbr", "ok"], ["nonjson"], ["bl204"], ["trunc"], ["rst", "sl404"], ["okc"], ["empty"]]
        for kind_ in peermod.OK_BODY_KINDS:
            for fr in peermod.ERROR_FRAMINGS:
                b = "hb_%s_%s" % (kind_, fr)
                sessions.append(([list(faults[hbn % len(faults)])], TAIL, [[b], [b], [b]]))
                sessions.append(([[b]] if hbn % 2 == 0 else [["ok"], [b]], TAIL))
                if ctx.thorough:
                    sessions.append(([list(faults[(hbn + 3) % len(faults)])], TAIL, [[b], [hb_draw(rng)], [b]]))
                    sessions.append(([[b], ["cbr", b]], TAIL))
                hbn += 1
        # 200 replies whose body is not JSON text, every kind in every framing: alone and on a kept-alive connection
        for kind_ in peermod.BAD_BODY_KINDS:
            for fr in peermod.ERROR_FRAMINGS:
                b = "nb_%s_%s" % (kind_, fr)
                sessions.append(([[b]] if hbn % 2 == 0 else [["hb_raw_l"], [b]], TAIL))
                if ctx.thorough:
                    sessions.append(([["ok"], [b]] if hbn % 2 == 0 else [[b]], TAIL))
                    sessions.append(([[b], [b]], TAIL, [[hb_draw(rng)], [hb_draw(rng)], [hb_draw(rng)]]))
                hbn += 1
        # replies delivered in pieces: every (final, delta) x every cut set with one or all cuts x {no informational
        # response, each single one}; alone and after a healthy keep-alive call (a cached connection)
        q_finals = [("ok", "=+~-"), ("s%d" % rng.choice(ERR_CODES), "=+~-n"), ("s%dh" % rng.choice([400, 404, 500, 502, 503]), "=+~-n"),
                    ("s%d%s" % (rng.choice(ERR_CODES), rng.choice("ofe")), "=~n"), ("b%d" % rng.choice(BODILESS), "=n")]
        qn = 0
        for final, deltas in q_finals:
            for delta in deltas:
                variants = [("", cuts) for cuts in ("", "l", "h", "b", "lhb")] + [(inf, "h") for inf in Q_INFOS[1:]]
                if ctx.thorough:
                    variants = [(inf, cuts) for inf in Q_INFOS + ["cE", "Cp", "CC"] for cuts in Q_CUTS]
                for infos, cuts in variants:
                    b = "q%s_%s_%s_%s" % (infos, final, delta, cuts)
                    sessions.append(([[b]] if qn % 2 == 0 else [["ok"], [b]], TAIL))
                    qn += 1
        single = [[b] for b in FAMILIES] + [[b, "ok"] for b in ("cbr", "rst")] + [["cbr", "cbr"], ["rst", "cbr"], ["cbr", "down"],
                                                                                   ["cbr", "sl"], ["rst", "trunc"], ["cbr", "bl"],
                                                                                   ["cbr", "sy"], ["rst", "sz"], ["cbr", "xn"]]
        if ctx.thorough:
            for a, b, c in itertools.product(FAMILIES, repeat=3):
                sessions.append((inst([[a], [b], [c]]), TAIL))
            ctx.exhaustive = not ctx.searching
        else:
            for a, b in itertools.product(FAMILIES, repeat=2):
                sessions.append((inst([[a], [b]]), TAIL))
        for s in single:
            sessions.append((inst([s]), TAIL))
            sessions.append((inst([["okc"], s]), TAIL))
            sessions.append((inst([["bl"], s]), TAIL))
            sessions.append((inst([["sy"], s]), TAIL))
        for _ in range(ctx.budget(60, 600)):
            n = rng.randint(1, 8 if not ctx.thorough else 12)
            sc = []
            for _i in range(n):
                if rng.random() < 0.35:
                    sc.append(rng.choice([["ok"], ["okc"], []]))
                else:
                    first = rng.choice(FAMILIES)
                    call = [first]
                    if first in ("cbr", "rst") and rng.random() < 0.7:
                        call.append(rng.choice(FAMILIES))
                    sc.append(call)
            sessions.append((inst(sc), TAIL))
        # outside the property's alphabet: a complete unsolicited reply left unread; the next call returns it (the model says
        # so: C19_unsolicited_reply_is_returned).  What follows depends on kernel timing: the session ends there.
        for prefix in ([], [["ok"]], [["sl"]], [["okc"]], [["cbr", "ok"]], [["sy"], []]):
            sessions.append((inst(prefix + [["xl"], []]), 0))
            sessions.append((inst(prefix + [["cbr", "xl"], ["ok"]]), 0))
        sessions = [(s_[0], s_[1], (s_[2] if len(s_) > 2 else None)) for s_ in sessions if not excluded(s_[0])]
        kinds = ["tcp", "unix"]
        outside = 0
        for si, (sc, tail, fixed_tail) in enumerate(sessions):
            full = sc + ((fixed_tail if fixed_tail is not None else tails()) if tail else [])
            if excluded(full):
                full = sc + [[] for _ in range(tail)]
            for kind in (kinds if (ctx.thorough or si % 2 == 0) else [kinds[si % 4 // 2]]):
                outs, viol, notes = run_script(kind, full, tmpdir, J, cfg, tail=tail)
                for m in viol:
                    ctx.violate({"transport": kind, "script": full, "tail": tail}, m, key=m.split(":")[0][:40])
                outside += len([n for n in notes if not n.startswith("cut-short")])
                lines.append("net %s " % lib + " / ".join(" ".join(c) for c in full))
                impl_out.append(" ".join(outs))
                fault_then_ok = any((c and c[0] not in ("ok",)) for c in sc)
                ctx.count(case_repr={"transport": kind, "script": full, "outcomes": outs},
                          nontrivial_key=(json.dumps(sc)) if fault_then_ok else None,
                          kind="%s/len%d" % (kind, len(sc)))
                for call in full:
                    for b in call:
                        for cl in (q_facts(b) or {}).get("classes", []):
                            ctx.hist["q/" + cl] += 1
                for n in notes:
                    if n.startswith("cut-short"):
                        ctx.hist["q/non200-cut-short-raised-other-than-TransportError"] += 1
                for call in full[len(sc):]:
                    for b in call:
                        parsed = peermod.parse_hb(b)
                        if parsed is not None:
                            ctx.hist["healthy-tail/ok-200-body/kind/%s" % parsed[0]] += 1
                            ctx.hist["healthy-tail/ok-200-body/framing/%s" % FRAMING_NAMES[parsed[1]]] += 1
                for call in sc:
                    for b in call:
                        ctx.hist["beh/" + family(b)] += 1
                        m = NON200.match(b)
                        if m:
                            ctx.hist["status/%s" % m.group(2)] += 1
                        for tag, parsed in (("ok-200-body", peermod.parse_hb(b)), ("bad-200-body", peermod.parse_nb(b))):
                            if parsed is not None:
                                ctx.hist["%s/kind/%s" % (tag, parsed[0])] += 1
                                ctx.hist["%s/framing/%s" % (tag, FRAMING_NAMES[parsed[1]])] += 1
                        sb = peermod.parse_sb(b)
                        if sb is not None:
                            ctx.hist["error-body/kind/" + sb[1]] += 1
                            ctx.hist["error-body/framing/" + {"l": "content-length", "n": "no-length-close", "c": "chunked",
                                                              "k": "content-length+connection-close"}[sb[2]]] += 1
        ctx.extra["foreign_results_after_unsolicited_reply_outside_alphabet"] = outside
        ctx.extra["non200_replies_cut_short_raising_IncompleteRead_not_TransportError"] = ctx.hist.get(
            "q/non200-cut-short-raised-other-than-TransportError", 0)
    finally:
        socket.setdefaulttimeout(old_to)
        shutil.rmtree(tmpdir, ignore_errors=True)
    outs = ctx.lean(lines)
    for ln, mo, io_ in zip(lines, outs, impl_out):
        if mo != io_:
            ctx.disagree(ln, io_, mo, component="net")
    ctx.traces_validated += len(lines)
    ctx.assumptions.append("environment model of http.client, the scripted peer and the kernel's TCP/Unix sockets (stale connection => "
                           "disconnect-class error on first use; unread bodiless response => ResponseNotReady; read-ahead discarded with "
                           "the response; late unread bytes parsed first by the next getresponse) is assumed by the theorems and validated "
                           "by this correspondence; RST/FIN timing inside the kernel cannot be exhibited by the model (sessions whose "
                           "outcome depends on it are not generated: see c19.excluded); a pause of the scripted peer inside a reply ends "
                           "when the client's call has returned or its thread sits in socket.SocketIO.readinto on an empty socket "
                           "(three consecutive looks, 1 ms apart)")
    ctx.assumptions.append("reading of the property for a non-200 reply whose body ends before the announced Content-Length because the "
                           "peer closes (non-200 AND truncated): any exception is accepted; the code raises http.client.IncompleteRead "
                           "(from response.read(), outside the close-on-error handler), not TransportError - theorem "
                           "C19_split_cut_short_raises_incomplete; occurrences are counted in the evidence")
    ctx.assumptions.append("the peer never leaves a complete unsolicited reply at the head of a kept-alive connection (Beh.framed): the "
                           "library does not compare reply ids, such a reply is returned by the next call (shown on real sockets, "
                           "theorem C19_unsolicited_reply_is_returned); this behaviour is outside the property's fault alphabet")


def search(ctx):
    # one more pass with the thorough budget (each session needs real sockets: keep the search bounded)
    run(ctx)


def replay(payload):
    J = impl.jsonrpclib.jsonrpc
    cfg = impl.jsonrpclib.config.Config()
    case = payload.get("case", {})
    print(json.dumps(case, indent=1))
    tmpdir = tempfile.mkdtemp(prefix="jrv-c19-")
    socket.setdefaulttimeout(30)
    try:
        outs, viol, notes = run_script(case.get("transport", "tcp"), case["script"], tmpdir, J, cfg, tail=case.get("tail", TAIL))
    finally:
        shutil.rmtree(tmpdir, ignore_errors=True)
    print("outcomes:", outs)
    for i, call in enumerate(case["script"]):
        for b in call:
            if q_facts(b) is not None:
                print("call %d: reply delivered in pieces %s: %r" % (i, b, peermod.parse_q(b)))
    for n in notes:
        print("note:", n)
    for v in viol:
        print("VIOLATION reproduced:", v)
    return 1 if viol else 0
