"""
C20 — Serialisation customisation is honoured at every depth.

Model   : lean/JRV/Model/JsonClass.lean (dump, dumpBean, dumpFields, handlerFor, isKnown, dumpTop)
Theorems: lean/JRV/Properties/C20.lean
Tie     : extracted facts (handler lookup first, recursive dump calls forwarding the four arguments, handler call
          arguments, known_types, ignore-list assembly, argument defaults, attribute names consulted)
          + differential correspondence of jsonclass.dump on generated programs: class hierarchies of C07
          (harness/jcenv.py) plus library classes (datetime.date / datetime / timedelta), ignore lists per class,
          per instance and per call (names and value entries), handler tables (user classes, library classes,
          built-in types, None entries), configured and explicit method / attribute names, instances at every
          nesting position (also directly as field values).
Monitor : written from the property statement, evaluated on the real output by walking the real object graph and
          the dump in parallel (`Monitor`): a node whose exact type has a non-None handler is replaced by that
          handler's return value (the handlers echo the names and the ignore list they receive); a node of any
          other type gets the built-in form; the keys of a field-wise dumped instance are exactly the fields that
          are not named by the ignore lists, whose value is of a supported or handled type and is not `in` the
          ignore lists; an object is serialised through its method iff the method has the name in force, and then the
          attributes the method returns are emitted with the values it returned, except those *named* by the ignore
          lists; dump does not fail on programs free of the failure causes the generator knows (raising handler,
          unhashable ignore entry, unset slot, missing attribute of a serialisation method).  Handlers return a
          string, a list echoing their arguments, 7, None, [], "", a tuple or the object itself; values include
          bytes (a built-in primitive for which a handler may be registered; outside the model's universe: the model
          is consulted only where a handler replaces them).
"""
import copy
import datetime
import decimal
import enum
import json

import gen
import impl
import jcenv
import pyval

import jsonrpclib.jsonclass as JC

REQUIRED_THEOREMS = [
    "C20_handler_step", "C20_same_arguments_everywhere", "C20_handler_everywhere", "C20_handler_exact_type",
    "C20_none_entry_falls_through", "C20_builtin_when_unhandled", "C20_dumped_fields", "C20_ignore",
    "C20_ignore_fieldwise", "C20_ignore_everywhere", "C20_method_form", "C20_method_attrs_verbatim",
    "C20_names_defaults", "C20_names_frame", "C20_names_method",
    "C20_names_ignore_attribute", "C20_unsupported_omitted", "C20_unsupported_no_failure",
    "C20_handled_type_is_known", "C20_gen_handlerLookupFirst", "C20_gen_dumpCalls", "C20_gen_handlerCallArgs",
    "C20_gen_knownTypes", "C20_gen_ignoreAssembly", "C20_gen_serialIgnoreFilter", "C20_gen_dumpDefaults",
    "C20_gen_attributeNames",
]

METHOD_NAMES = ["_serialize", "to_json", "dump_me"]
IGNORE_NAMES = ["_ignore", "_skip", "hidden_"]

EXTERNALS = [
    {"id": "datetime.date", "module": "datetime", "name": "date", "bases": [], "slots": [], "kind": "bean", "own": [],
     "class_attrs": {}, "external": True},
    {"id": "datetime.datetime", "module": "datetime", "name": "datetime", "bases": ["datetime.date"], "slots": [],
     "kind": "bean", "own": [], "class_attrs": {}, "external": True},
    {"id": "datetime.timedelta", "module": "datetime", "name": "timedelta", "bases": [], "slots": [], "kind": "bean",
     "own": [], "class_attrs": {}, "external": True},
]
EXT_TYPES = {"datetime.date": datetime.date, "datetime.datetime": datetime.datetime, "datetime.timedelta": datetime.timedelta}
DATES = [datetime.date(2020, 1, 2), datetime.date(1999, 12, 31), datetime.datetime(2021, 3, 4, 5, 6, 7),
         datetime.datetime(1970, 1, 1), datetime.timedelta(days=2, seconds=3), datetime.timedelta(0)]

SUPPORTED = (dict, list, set, frozenset, tuple, bytes, str, int, float, bool, type(None))
BYTES = [b"", b"ab", b"\x00\xff", "é".encode("utf-8"), b"secret-bytes"]


class Env20(jcenv.Env):
    """Class environment with library classes: instances of those are opaque for the model (no field of theirs is
    ever read by dump: they have neither a __dict__ nor __slots__); the codec carries their value as a pseudo
    field so that distinct dates stay distinct."""

    def _build(self):
        for s in self.specs:
            if s.get("external"):
                c = EXT_TYPES[s["id"]]
            elif s["kind"] == "decimal":
                c = decimal.Decimal
            elif s["kind"] == "enum":
                c = enum.Enum(s["name"], list(s["members"]), module=s["module"])
            else:
                c = self._exec_class(s)
            self.cls[s["id"]] = c
            self.ids[c] = s["id"]

    def hook(self, v):
        t = type(v)
        if t is datetime.timedelta:
            return ("datetime.timedelta", [("value", str(v))])
        if t in (datetime.date, datetime.datetime):
            return (self.ids[t], [("value", v.isoformat())])
        return jcenv.Env.hook(self, v)

    def lean_classes(self):
        ext = [s for s in self.specs if s.get("external")]
        saved = self.specs
        self.specs = [s for s in saved if not s.get("external")]
        try:
            out = jcenv.Env.lean_classes(self)
        finally:
            self.specs = saved
        for s in reversed(ext):
            out.append([s["id"], s["module"], s["name"], list(s["bases"]), [], ["bean", {}], {}])
        return out


class ValueGen20(jcenv.ValueGen):
    """Instances at every position, also directly as field values; instance-level ignore lists."""

    def __init__(self, rng, g, env, ignore_attr, clean):
        jcenv.ValueGen.__init__(self, rng, g, env)
        self.ignore_attr = ignore_attr
        self.clean = clean
        self.missing_attr = False
        self.nonlist_ignore = False

    def value(self, depth, allow_obj=True, obj_top=True):
        # bytes: a built-in primitive type (utils.PRIMITIVE_TYPES) at any position
        if self.rng.random() < 0.04:
            return self.rng.choice(BYTES)
        return jcenv.ValueGen.value(self, depth, allow_obj, obj_top)

    def instance(self, depth, cid=None):
        rng = self.rng
        env = self.env
        if cid is None:
            cid = rng.choice([s["id"] for s in env.specs])
        s = env.by_id[cid]
        if s.get("external"):
            return rng.choice([d for d in DATES if type(d) is EXT_TYPES[cid]])
        c = env.cls[cid]
        if s["kind"] == "decimal":
            return decimal.Decimal(rng.choice(jcenv.DECIMALS))
        if s["kind"] == "enum":
            return c[rng.choice([m for m, _v in s["members"]])]
        if s["kind"] == "serial":
            inst = c(*[self.plain() for _ in s["params"]])
            for a in s["attrs"]:
                if self.clean or rng.random() < 0.95:
                    # what the method returns is emitted as it is: also a tuple, an instance or a date
                    r = rng.random()
                    setattr(inst, a, self.plain() if r < 0.8 else ((1, "t") if r < 0.9 else self.instance(0)))
                else:
                    self.missing_attr = True
            if hasattr(inst, "__dict__") and rng.random() < 0.3:
                # an instance-level ignore list on an object dumped through its method
                names = list(s["attrs"]) + list(s["params"]) + ["zz", 1]
                setattr(inst, self.ignore_attr, rng.sample(names, rng.randint(0, min(3, len(names)))))
            return inst
        inst = c()
        for n, _v in env.stored(inst):
            r = rng.random()
            if r < 0.25:
                continue
            if r < 0.45 and depth >= 0:
                # an instance directly as a field value: unsupported unless its type is handled
                setattr(inst, n, self.instance(max(depth - 1, 0)))
            else:
                setattr(inst, n, self.value(depth, True, obj_top=False))
        if hasattr(inst, "__dict__"):
            if rng.random() < 0.2:
                setattr(inst, "extra_%d" % rng.randint(0, 2), self.value(depth, True, obj_top=False))
            if rng.random() < 0.25:
                names = [n for n, _x in env.stored(inst)] + ["zz", 1, None]
                if not self.clean and rng.random() < 0.04:
                    setattr(inst, self.ignore_attr, "pub")  # not a list
                    self.nonlist_ignore = True
                else:
                    setattr(inst, self.ignore_attr, rng.sample(names, rng.randint(0, min(3, len(names)))))
        return inst


def gen_env(ctx, rng, tag, cfg_names, clean):
    """Random hierarchy of C07 + class-level ignore lists + serialisation methods under several names + library classes."""
    specs = jcenv.gen_specs(rng, gen, tag, ignore_attr=cfg_names[1], method=cfg_names[0], with_ignore=0.45,
                            local_ratio=rng.choice([0.0, 0.35, 1.0]))
    for s in specs:
        if s["kind"] == "serial" and rng.random() < 0.5:
            s["method"] = rng.choice(METHOD_NAMES)  # may differ from the name in force: dumped field-wise then
        if s["kind"] == "serial" and rng.random() < 0.5:
            # a class-level ignore list on a class with a serialisation method: names of its attributes
            names = list(s["attrs"]) + list(s["params"]) + ["nothing"]
            s["class_attrs"][cfg_names[1]] = rng.sample(names, rng.randint(0, min(3, len(names))))
        if s["kind"] == "bean" and s["class_attrs"].get(cfg_names[1]) is not None and rng.random() < 0.3:
            s["class_attrs"][cfg_names[1]] = s["class_attrs"][cfg_names[1]] + [rng.choice([1, None, "", 2.5, True, (1, 2)])]
        if s["kind"] == "bean" and rng.random() < 0.15:
            # an ignore list under a name that may not be the one in force
            other = rng.choice(IGNORE_NAMES)
            if other not in s["class_attrs"]:
                s["class_attrs"][other] = ["pub", "x"]
        if clean and s.get("slots"):
            unset = [w for w in s["slots"] if w.startswith("unset_")]
            for w in unset:
                s["slots"].remove(w)
    return Env20(EXTERNALS + specs)


def types_present(env, v, acc=None, depth=0):
    """Type tags of the nodes of the object graph (for handler tables that hit)."""
    if acc is None:
        acc = []
    t = type(v)
    tag = env.type_tag(t)
    if tag not in acc:
        acc.append(tag)
    if depth > 6:
        return acc
    if t in (list, tuple, set, frozenset):
        for x in sorted(v, key=repr) if t in (set, frozenset) else v:
            types_present(env, x, acc, depth + 1)
    elif t is dict:
        for x in v.values():
            types_present(env, x, acc, depth + 1)
    elif t in env.ids and env.by_id[env.ids[t]]["kind"] in ("bean", "serial") and not env.by_id[env.ids[t]].get("external"):
        for _n, x in env.stored(v):
            types_present(env, x, acc, depth + 1)
    return acc


def handler_table(rng, env, clean, present):
    """[(type tag, handler id | None)] over user classes, library classes and built-in types."""
    hf_ids = [0, 1, 1, 1, 3, None, 4, 4, 5, 6, 7, 8] + ([] if clean else [2])
    tags = []
    user = [s["id"] for s in env.specs if not s.get("external")]
    ext = [s["id"] for s in env.specs if s.get("external")]
    # base classes of the classes present: a handler for a base must not be used for the subclass
    bases = []
    for t in present:
        if t in env.by_id:
            bases.extend(env.by_id[t]["bases"])
    if "bool" in present:
        bases.append("int")
    r = rng.random()
    if r < 0.1:
        return []
    n = rng.randint(1, 4)
    pools = [present, present, present, bases or present, user, ext,
             ["tuple", "str", "int", "list", "dict", "bool", "float", "NoneType", "set", "frozenset", "bytes"]]
    for _ in range(n):
        t = rng.choice(rng.choice(pools))
        if t not in tags:
            tags.append(t)
    return [(t, rng.choice(hf_ids)) for t in tags]


def py_type(env, tag):
    return jcenv.BUILTIN_TYPES.get(tag) or env.cls[tag]


# ---- the monitor (from the property statement) ----------------------------------------------------------------

def plain_equal(a, b):
    """Same value and same types at every level (what "verbatim" means)."""
    try:
        return pyval.enc(a, canon=True) == pyval.enc(b, canon=True)
    except pyval.Unencodable:
        return a == b and type(a) is type(b)


class Monitor(object):
    def __init__(self, env, cfg, sm_arg, ia_arg, ig_arg):
        self.env = env
        self.cfg = cfg
        self.sm = sm_arg or cfg.serialize_method
        self.ia = ia_arg or cfg.ignore_attribute
        self.ig = list(ig_arg) if ig_arg else []
        self.handlers = cfg.serialize_handlers
        self.hits = []
        self.positions = set()

    def hit(self, key, path, detail):
        self.hits.append((key, "%s: %s" % (path, detail)))

    def handled(self, obj):
        h = self.handlers.get(type(obj))
        return h

    def class_name(self, obj):
        t = type(obj)
        m = t.__module__
        return t.__name__ if m in ("", "__main__") else "%s.%s" % (m, t.__name__)

    def check(self, obj, out, path="value", pos="top"):
        h = self.handled(obj)
        if h is not None:
            # a handler registered for exactly this type: its return value, verbatim, before any built-in handling
            self.positions.add("handled@" + pos + ":" + self.kind_of(obj))
            try:
                exp = h(obj, self.sm, self.ia, self.ig, self.cfg)
            except Exception as ex:  # noqa: BLE001
                self.hit("handler-raised-but-output", path, "the handler raises %s yet dump emitted %r" % (type(ex).__name__, out))
                return
            if not plain_equal(exp, out):
                self.hit("handler-not-verbatim:" + self.kind_of(obj), path,
                         "type %s has a handler returning %r (names %r/%r, ignore %r) but the dump has %r"
                         % (type(obj).__name__, exp, self.sm, self.ia, self.ig, out))
            return
        self.positions.add("builtin@" + pos + ":" + self.kind_of(obj))
        t = type(obj)
        if obj is None or t in (bool, int, float, str, bytes):
            if not (type(out) is t and (out == obj or out != out)):
                self.hit("primitive-changed", path, "%r (no handler for %s) became %r" % (obj, t.__name__, out))
            return
        if t in (list, tuple):
            if type(out) is not list or len(out) != len(obj):
                self.hit("iterable-form", path, "%s of %d items became %r" % (t.__name__, len(obj), out))
                return
            for i, (x, y) in enumerate(zip(obj, out)):
                self.check(x, y, "%s[%d]" % (path, i), "item")
            return
        if t in (set, frozenset):
            if type(out) is not list or len(out) != len(obj):
                self.hit("iterable-form", path, "%s of %d items became %r" % (t.__name__, len(obj), out))
                return
            if len(obj) == 1:
                self.check(next(iter(obj)), out[0], path + "{0}", "item")
            return
        if t is dict:
            if type(out) is not dict or set(map(jcenv._k, obj)) != set(map(jcenv._k, out)):
                self.hit("dict-form", path, "dict with keys %r became %r" % (list(obj), out))
                return
            for k in obj:
                self.check(obj[k], out[k], "%s[%r]" % (path, k), "dictvalue")
            return
        # an instance without a handler for its exact type
        if type(out) is not dict or "__jsonclass__" not in out or type(out["__jsonclass__"]) is not list \
                or len(out["__jsonclass__"]) != 2 or out["__jsonclass__"][0] != self.class_name(obj):
            self.hit("instance-form:" + self.kind_of(obj), path,
                     "instance of %s (no handler for exactly this type) became %r" % (t.__name__, out))
            return
        if hasattr(obj, self.sm):
            # the serialisation method with the name in force decides: constructor arguments and attributes as it
            # returns them — minus the attributes named by the object's ignore list or the `ignore` argument
            params, attrs = getattr(obj, self.sm)()
            own = getattr(obj, self.ia, [])
            if type(own) is not list:
                return
            ignore_list = own + self.ig
            for name in attrs:
                if any(type(e) is str and e == name for e in ignore_list) and name in out:
                    self.hit("ignored-name-present:method", path,
                             "attribute %r returned by the method %s is named by the ignore list %r but is a key of %r"
                             % (name, self.sm, ignore_list, sorted(map(str, out))))
            exp = dict((k, x) for k, x in attrs.items() if not any(type(e) is str and e == k for e in ignore_list))
            exp["__jsonclass__"] = [self.class_name(obj), params]
            if not self.verbatim_dict(exp, out):
                self.hit("method-output", path, "method %s returned (%r, %r), ignore list %r, but the dump is %r"
                         % (self.sm, params, attrs, ignore_list, out))
            return
        if isinstance(obj, (decimal.Decimal, enum.Enum)):
            return
        # field-wise
        if out["__jsonclass__"][1] != []:
            self.hit("fieldwise-form", path, "constructor arguments %r for an object without a method called %r"
                     % (out["__jsonclass__"][1], self.sm))
        own = getattr(obj, self.ia, [])
        if type(own) is not list:
            return
        ignore_list = own + self.ig
        stored = dict(self.env.stored(obj)) if type(obj) in self.env.ids else {}
        handled_types = tuple(self.handlers)
        for name, val in stored.items():
            named = any(type(e) is str and e == name for e in ignore_list)
            known = isinstance(val, SUPPORTED) or (handled_types and isinstance(val, handled_types))
            try:
                valued = val in ignore_list
            except Exception:  # noqa: BLE001
                continue
            present = name in out
            if named and present:
                self.hit("ignored-name-present", path, "attribute %r is named by the ignore list %r but is a key of %r"
                         % (name, ignore_list, sorted(map(str, out))))
            elif valued and present and known:
                self.hit("ignored-value-present", path, "attribute %r has the value %r which is in the ignore list %r but is dumped"
                         % (name, val, ignore_list))
            elif not known and present:
                self.hit("unsupported-present", path, "attribute %r holds a %s (neither supported nor handled) but is dumped as %r"
                         % (name, type(val).__name__, out[name]))
            elif known and not named and not valued and not present:
                self.hit("field-missing:" + ("handled" if not isinstance(val, SUPPORTED) else "supported"), path,
                         "attribute %r = %r (%s) is neither ignored nor unsupported but is absent from %r"
                         % (name, val, type(val).__name__, sorted(map(str, out))))
            if present and known and not named and not valued:
                self.check(val, out[name], "%s.%s" % (path, name), "field")
        for k in out:
            if k != "__jsonclass__" and k not in stored:
                self.hit("unknown-key", path, "key %r of the dump is not an attribute of the object" % (k,))

    def verbatim_dict(self, exp, out):
        """Same keys, and every value the very value expected (same object, or equal with the same types)."""
        if type(out) is not dict or set(exp) != set(out):
            return False
        for k, x in exp.items():
            y = out[k]
            if x is y:
                continue
            try:
                if self.env.enc(x, canon=True) != self.env.enc(y, canon=True):
                    return False
            except pyval.Unencodable:
                if not (type(x) is type(y) and x == y):
                    return False
        return True

    def kind_of(self, obj):
        t = type(obj)
        if t in self.env.ids:
            s = self.env.by_id[self.env.ids[t]]
            return "library" if s.get("external") else s["kind"]
        return t.__name__


# ---- one environment --------------------------------------------------------------------------------------------

def make_cfg(env, cfg_names, handlers):
    cfg = impl.jsonrpclib.config.Config(serialize_method=cfg_names[0], ignore_attribute=cfg_names[1])
    hf = jcenv.handler_functions(env)
    for t, hid in handlers:
        cfg.serialize_handlers[py_type(env, t)] = None if hid is None else hf[hid]
    return cfg


def run_case(env, cfg_names, handlers, args, v):
    """-> (kind, result, monitor hits, positions)"""
    cfg = make_cfg(env, cfg_names, handlers)
    sm_arg, ia_arg, ig_arg = args
    k, d = impl.outcome(JC.dump, v, sm_arg, ia_arg, copy.deepcopy(ig_arg) if ig_arg is not None else None, cfg)
    hits = []
    positions = set()
    if k == "ok":
        mon = Monitor(env, cfg, sm_arg, ia_arg, ig_arg)
        try:
            mon.check(v, d)
        except Exception as ex:  # noqa: BLE001  (a monitor bug must not pass silently)
            mon.hit("monitor-error", "value", "%s: %s" % (type(ex).__name__, ex))
        hits = mon.hits
        positions = mon.positions
    return k, d, hits, positions, cfg


def run(ctx):
    ctx.rule = ("programs = random class hierarchies of C07 (3-7 classes + enum + Decimal + datetime.date/datetime/timedelta) x "
                "class-, instance- and call-level ignore lists (field names and value entries) x handler tables (user classes, "
                "library classes, built-in types, None entries) x configured/explicit method and attribute names x instances at "
                "every nesting position (also directly as field values); distinct_nontrivial = distinct (set of (handled|builtin, "
                "position, kind) seen by the monitor, outcome)")
    n_envs = ctx.budget(70, 260)
    per_env = ctx.budget(40, 110)
    lines = []
    expect = []
    for e in range(n_envs):
        tag = "t%d" % e
        rng = ctx.rng
        cfg_names = (rng.choice(METHOD_NAMES), rng.choice(IGNORE_NAMES)) if rng.random() < 0.7 else ("_serialize", "_ignore")
        clean = rng.random() < 0.6
        env = gen_env(ctx, rng, tag, cfg_names, clean).install()
        try:
            _run_env(ctx, env, cfg_names, clean, per_env, lines, expect)
        finally:
            env.uninstall()
    outs = ctx.lean(lines)
    unmodelled = 0
    for ln, mo, (loose_cmp, exp) in zip(lines, outs, expect):
        if "err Unmodelled" in mo:
            unmodelled += 1
            continue
        cm = impl.canon_model_line(mo, keep_arg=())
        if loose_cmp:
            import props.c07 as c07
            cm, exp = c07.loose(cm), c07.loose(exp)
        if exp == "err *" and cm.startswith("err "):
            cm = exp
        if cm != exp:
            ctx.disagree(ln[-900:], exp[:600], cm[:600], component="jcdump")
    ctx.traces_validated += len(lines) - unmodelled
    ctx.extra["unmodelled_cases"] = unmodelled
    ctx.assumptions.append("Python's attribute model, inspect.getmodule and the identity of library classes are represented by "
                           "the class environment handed to the model (harness/jcenv.py, Env20 in harness/props/c20.py); handlers "
                           "are the nine functions of jcenv.handler_functions (a string, an echo of the arguments, raising, 7, None, "
                           "[], a tuple, the object itself, \"\"), mirrored by driverH — the theorems hold for every handler function")
    ctx.assumptions.append("for an object that defines the serialisation method in force, the values of the attributes the method "
                           "returns are emitted as they are (no recursive dump, no handler, no test of the value against the ignore "
                           "lists: C20_method_form); the ignore lists are applied to their names (C20_ignore)")
    ctx.assumptions.append("bytes are outside the value universe of the model: a bytes node is an opaque instance with type tag "
                           "'bytes' for it (replaced when a handler is registered for bytes, 'Unmodelled' otherwise: %d such cases "
                           "were decided by the monitor alone)" % ctx.extra.get("bytes_monitor_only", 0))


def _run_env(ctx, env, cfg_names, clean, per_env, lines, expect):
    import props.c07 as c07
    rng = ctx.rng
    lean_env = env.enc(env.lean_classes())
    field_pool = jcenv.PUBLIC + jcenv.PROTECTED + ["extra_0", "extra_1", "zz"]
    for i in range(per_env):
        vg = ValueGen20(rng, gen, env, cfg_names[1], clean)
        top = rng.random()
        if top < 0.45:
            v = vg.instance(3)
        elif top < 0.85:
            v = vg.value(3)
        else:
            v = [vg.instance(2), {"k": vg.instance(2), "t": (vg.instance(1), "s", 1)}, (vg.instance(1),)]
        present = types_present(env, v)
        if len(present) > 1 and rng.random() < 0.75:
            present = present[1:]  # not the type of the top-level value: handlers that hit at depth
        handlers = handler_table(rng, env, clean, present)
        sm_arg = ia_arg = ig_arg = None
        if rng.random() < 0.3:
            sm_arg = rng.choice(["", "_serialize", "to_json", "dump_me", "other_m"])
        if rng.random() < 0.3:
            ia_arg = rng.choice(["", "_ignore", "_skip", "hidden_"])
        if rng.random() < 0.6:
            pool = field_pool + [1, None, True, 2.5, "", (1, 2), 0]
            ig_arg = rng.sample(pool, rng.randint(0, 5))
            if not clean and rng.random() < 0.05:
                ig_arg.append([1])  # unhashable entry
        try:
            vtext = env.enc(v)
        except pyval.Unencodable:
            continue
        vrepr = repr(v)[:300]
        k, d, hits, positions, cfg = run_case(env, cfg_names, handlers, (sm_arg, ia_arg, ig_arg), v)
        case = {"value_enc": vtext, "value": vrepr, "cfg_names": list(cfg_names), "handlers": [[t, h] for t, h in handlers],
                "args": [sm_arg, ia_arg, json.loads(json.dumps(ig_arg, default=list)) if ig_arg is not None else None],
                "ig_enc": pyval.enc(ig_arg) if ig_arg is not None else None,
                "specs": json.loads(json.dumps([s for s in env.specs if not s.get("external")], default=repr)),
                "specs_enc": pyval.enc(_specs_plain(env))}
        for key, detail in hits[:3]:
            ctx.violate(case, detail, key=key)
        raising = any(h == 2 for _t, h in handlers)
        if k == "err" and clean and not raising:
            ctx.violate(case, "dump raised %s: %s on a program without failure causes" % (type(d).__name__, d),
                        key="dump-raises:" + type(d).__name__)
        try:
            dexp = impl.canon_outcome(k, d, env.hook, keep_arg=())
        except pyval.Unencodable:
            continue
        if has_bytes(v, env):
            ctx.hist["bytes/%s" % ("handled" if any(t == "bytes" and h is not None for t, h in handlers) else "builtin")] += 1
        if direct_bytes_field(v, env):
            # isinstance(value, SUPPORTED_TYPES) holds for bytes; the model has no bytes: monitor only
            ctx.extra["bytes_monitor_only"] = ctx.extra.get("bytes_monitor_only", 0) + 1
            continue
        lines.append("jcdump %s %s %s %s" % (pyval.enc(jcenv.lean_cfg(cfg.serialize_method, cfg.ignore_attribute, handlers)),
                                             lean_env, pyval.enc([sm_arg, ia_arg, ig_arg]), vtext))
        multi_raise = k == "err" and (raising or not clean)
        expect.append((c07.has_multiset(v, env), dexp if not multi_raise else "err *"))
        outcome = "ok" if k == "ok" else type(d).__name__
        ctx.count(case_repr={"value": vrepr, "handlers": handlers, "args": [sm_arg, ia_arg, repr(ig_arg)], "dump": repr(d)[:300]} if i < 1 else None,
                  nontrivial_key=(tuple(sorted(positions)), outcome) if positions else None,
                  kind="%s/%s/%s" % ("clean" if clean else "any", "handlers%d" % min(len(handlers), 3), outcome))
        for p in positions:
            ctx.hist["pos:" + p] += 1


def has_bytes(v, env, depth=0):
    if type(v) is bytes:
        return True
    if depth > 8:
        return False
    if isinstance(v, dict):
        return any(has_bytes(x, env, depth + 1) for x in v.values())
    if isinstance(v, (list, tuple, set, frozenset)):
        return any(has_bytes(x, env, depth + 1) for x in v)
    if type(v) in env.ids and env.by_id[env.ids[type(v)]]["kind"] in ("bean", "serial") and not env.by_id[env.ids[type(v)]].get("external"):
        return any(has_bytes(x, env, depth + 1) for _n, x in env.stored(v))
    return False


def direct_bytes_field(v, env, depth=0):
    """Some bean reachable from v holds bytes directly in an attribute."""
    if depth > 8:
        return False
    if isinstance(v, dict):
        return any(direct_bytes_field(x, env, depth + 1) for x in v.values())
    if isinstance(v, (list, tuple, set, frozenset)):
        return any(direct_bytes_field(x, env, depth + 1) for x in v)
    if type(v) in env.ids and env.by_id[env.ids[type(v)]]["kind"] in ("bean", "serial") and not env.by_id[env.ids[type(v)]].get("external"):
        return any(type(x) is bytes or direct_bytes_field(x, env, depth + 1) for _n, x in env.stored(v))
    return False


def _specs_plain(env):
    """The user class specs as a plain value of the codec (tuples kept), for exact replay."""
    out = []
    for s in env.specs:
        if s.get("external"):
            continue
        d = {}
        for k, x in s.items():
            if k in ("own", "members"):
                d[k] = [[n, v] for n, v in x]
            else:
                d[k] = x
        out.append(d)
    return out


def replay(payload):
    case = payload.get("case") or {}
    print("replaying: value %s\nhandlers %s names %s args %s" % (case.get("value"), case.get("handlers"), case.get("cfg_names"),
                                                               case.get("args")))
    if not case.get("specs_enc"):
        return 0
    specs = pyval.from_tree(pyval.parse(case["specs_enc"]))
    for s in specs:
        for key in ("own", "members"):
            if key in s:
                s[key] = [tuple(x) for x in s[key]]
    env = Env20(EXTERNALS + specs).install()
    try:
        def mk(cls, fields):
            fd = dict(fields)
            if cls == "datetime.timedelta":
                return [d for d in DATES if type(d) is datetime.timedelta and str(d) == fd["value"]][0]
            if cls in EXT_TYPES:
                return EXT_TYPES[cls].fromisoformat(fd["value"])
            if cls == "bytes":
                return bytes.fromhex(fd["hex"])
            s = env.by_id[cls]
            c = env.cls[cls]
            if s["kind"] == "decimal":
                return c(fd["str"])
            if s["kind"] == "enum":
                return c[fd["name"]]
            inst = c.__new__(c)
            for n, x in fields:
                setattr(inst, n, x)
            return inst

        v = pyval.from_tree(pyval.parse(case["value_enc"]), mk)
        ig = pyval.from_tree(pyval.parse(case["ig_enc"])) if case.get("ig_enc") else None
        sm_arg, ia_arg = case["args"][0], case["args"][1]
        handlers = [(t, h) for t, h in case["handlers"]]
        k, d, hits, _pos, _cfg = run_case(env, tuple(case["cfg_names"]), handlers, (sm_arg, ia_arg, ig), v)
        print("dump ->", k, repr(d)[:600])
        if hits:
            for key, detail in hits:
                print("VIOLATION reproduced [%s]: %s" % (key, detail))
            return 1
        if k == "err":
            print("VIOLATION reproduced: dump raised %s: %s" % (type(d).__name__, d))
            return 1
        print("no violation")
        return 0
    finally:
        env.uninstall()
