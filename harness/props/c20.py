"""
C20 — Serialisation customisation is honoured at every depth.

Model   : lean/JRV/Model/JsonClass.lean (dump, dumpBean, dumpFields, handlerFor, isKnown, dumpTop)
Theorems: lean/JRV/Properties/C20.lean
Tie     : extracted facts (handler lookup first, recursive dump calls forwarding the four arguments, handler call
          arguments, known_types, ignore-list assembly, argument defaults, attribute names consulted)
          + differential correspondence of jsonclass.dump on generated programs: class hierarchies of C07
          (harness/jcenv.py) plus library classes (datetime.date / datetime / timedelta), ignore lists per class,
          per instance and per call (names and value entries), handler tables (user classes, library classes,
          built-in types, None entries), configured and explicit method / attribute names, instances at every
          nesting position (also directly as field values).
          + hostile field values (harness-local classes `jrv_hostile.*`: `__eq__` that raises on another kind, array-like
          `__eq__` whose result has no truth value, raising `__hash__` / `__bool__` / `__len__`), directly as field values of
          unsupported and of handled types, with and without ignore lists (model: `ClassDef.eqRaises`, `valueIn`);
          + `Config.copy()` on configurations with every attribute set or reassigned, against `ConfigCopy.copy` (component
          `cfgcopy`), and the per-request configuration a handler is handed on the 1.0-compatibility path against
          `ConfigCopy.compat`;
          + every path on which a non-default Config reaches jsonclass.dump (`_config_paths`, entry points of
          harness/jcentries.py): direct, jsonrpc.dump/dumps, client call / keyword / notify / MultiCall over loop and real
          transports, the reply of every server entry point to 2.0-form, 1.0-form-on-2.0 (Config.copy), batch and 1.0-server
          requests — the same monitor on probe objects that define a method and an ignore list under every candidate name.
Histories: ONE Config object over time (harness/jchistory.py, model lean/JRV/Model/ConfigHistory.lean, component `cfghistory`):
          dump, then register / replace / remove handlers, empty or replace the table, store other names, switch use_jsonclass,
          touch Config.classes, dump again (jsonclass.dump and the value part of jsonrpc.dump; the same object or another one) —
          every statement against the model; on every dump the monitor below with the configuration as it is at that moment, and
          the dump of the same value by a FRESH Config object with the same settings must give the same outcome
          (`history-dependent`).  Long-lived clients and servers built with the object are driven twice or three times with the
          object changed in between (`_path_histories`).  Histogram keys `history/…`, `path-history:…`.
Monitor : written from the property statement, evaluated on the real output by walking the real object graph and
          the dump in parallel (`Monitor`): a node whose exact type has a non-None handler is replaced by that
          handler's return value (the handlers echo the names and the ignore list they receive); a node of any
          other type gets the built-in form; the keys of a field-wise dumped instance are exactly the fields that
          are not named by the ignore lists, whose value is of a supported or handled type and is not `in` the
          ignore lists; an object is serialised through its method iff the method has the name in force, and then the
          attributes the method returns are emitted with the values it returned, except those *named* by the ignore
          lists; dump does not fail on programs free of the failure causes the generator knows (raising handler,
          unhashable ignore entry, unset slot, missing attribute of a serialisation method).  Handlers return a
          string, a list echoing their arguments, 7, None, [], "", a tuple or the object itself; values include
          bytes (a built-in primitive for which a handler may be registered; outside the model's universe: the model
          is consulted only where a handler replaces them).
Unsupported built-in types: field values of every built-in / library type that is in none of the supported tuples (EXOTIC:
          complex, bytearray, memoryview, range, slice, type objects, functions, built-in functions, generators, Ellipsis,
          NotImplemented, object(), Fraction, deque, array) — directly as field values, unhandled (must be omitted), with a
          handler for exactly their type, with a None entry; drawn at random in the programs and enumerated in a fixed battery
          (`_type_battery`: every EXOTIC kind and every member of the supported tuples x attribute-dict / slotted class x handler
          option).  The tuples of the code under test (`utils.ITERABLE_TYPES`, `PRIMITIVE_TYPES`, `jsonclass.SUPPORTED_TYPES`, …)
          are read at run time and compared with the model's tables (component `jctables`; no extractor involved); the
          monitor's own list of supported types is written from the documentation of the library, not read from the code.
          Enumerations of every flavour (jcenv.gen_enum_spec) and every notation of Decimal occur as in C07; a member of an
          enumeration derived from a primitive type is a primitive for dump (emitted as it is; monitor only).
"""
import array
import collections
import copy
import datetime
import decimal
import enum
import fractions
import json

import gen
import impl
import jcentries
import jcenv
import jchistory
import pyval

import jsonrpclib.jsonclass as JC

REQUIRED_THEOREMS = [
    "C20_handler_step", "C20_same_arguments_everywhere", "C20_handler_everywhere", "C20_handler_exact_type",
    "C20_none_entry_falls_through", "C20_builtin_when_unhandled", "C20_dumped_fields", "C20_ignore",
    "C20_ignore_fieldwise", "C20_ignore_everywhere", "C20_method_form", "C20_method_attrs_verbatim",
    "C20_names_defaults", "C20_names_frame", "C20_names_method",
    "C20_names_ignore_attribute", "C20_unsupported_omitted", "C20_unsupported_no_failure",
    "C20_handled_type_is_known", "C20_gen_handlerLookupFirst", "C20_gen_dumpCalls", "C20_gen_handlerCallArgs",
    "C20_gen_knownTypes", "C20_gen_ignoreAssembly", "C20_gen_serialIgnoreFilter", "C20_gen_dumpDefaults",
    "C20_gen_attributeNames",
    "C20_unsupported_not_compared", "C20_hostile_known_raises", "C20_hostile_known_empty_list",
    "C20_copy_fields", "C20_copy_eq", "C20_compat_fields", "C20_compat_dumpCfg", "C20_compat_same_dump",
    "C20_copy_table_complete", "C20_gen_fieldFilterOrder", "C20_gen_configInitFields", "C20_gen_configCopyFields",
    "C20_history_reads_current_state", "C20_history_dumps_inert", "C20_history_handler_in_force", "C20_history_method_in_force",
    "C20_history_ignore_attribute_in_force", "C20_history_use_jsonclass_in_force", "C20_history_table_extensional",
    "C20_history_dump_fresh", "C20_history_entry_after_store", "C20_history_late_handler_used", "C20_history_late_handler_known",
    "C20_history_removed_handler_unknown",
]

METHOD_NAMES = ["_serialize", "to_json", "dump_me"]
IGNORE_NAMES = ["_ignore", "_skip", "hidden_"]

EXTERNALS = [
    {"id": "datetime.date", "module": "datetime", "name": "date", "bases": [], "slots": [], "kind": "bean", "own": [],
     "class_attrs": {}, "external": True},
    {"id": "datetime.datetime", "module": "datetime", "name": "datetime", "bases": ["datetime.date"], "slots": [],
     "kind": "bean", "own": [], "class_attrs": {}, "external": True},
    {"id": "datetime.timedelta", "module": "datetime", "name": "timedelta", "bases": [], "slots": [], "kind": "bean",
     "own": [], "class_attrs": {}, "external": True},
]
EXT_TYPES = {"datetime.date": datetime.date, "datetime.datetime": datetime.datetime, "datetime.timedelta": datetime.timedelta}
DATES = [datetime.date(2020, 1, 2), datetime.date(1999, 12, 31), datetime.datetime(2021, 3, 4, 5, 6, 7),
         datetime.datetime(1970, 1, 1), datetime.timedelta(days=2, seconds=3), datetime.timedelta(0)]

SUPPORTED = (dict, list, set, frozenset, tuple, bytes, str, int, float, bool, type(None))


# Classes whose instances do not tolerate being looked at more closely than their type (values of *unsupported* types, unless
# a handler is registered for them): `__eq__` that only knows its own kind, array-like `__eq__` whose result has no truth
# value, unhashable / hash-raising, truth-value-raising, length-raising.  The model describes them as beans with one
# field and the exception class a comparison raises (`ClassDef.eqRaises`); `__hash__`, `__bool__`, `__len__` are read by no
# construct of `dump`.
class _Ambiguous(object):
    def __bool__(self):
        raise ValueError("the truth value of a comparison result is ambiguous")


def _hostile_classes():
    class EqOwnKind(object):
        def __init__(self, hv=0):
            self.hv = hv

        def __eq__(self, other):
            return self.hv == other.hv  # AttributeError on anything that is not of its kind

        def __hash__(self):
            return hash(self.hv)

    class EqAmbiguous(object):
        def __init__(self, hv=0):
            self.hv = hv

        def __eq__(self, other):
            return _Ambiguous()

        __hash__ = None

    class EqTypeError(object):
        def __init__(self, hv=0):
            self.hv = hv

        def __eq__(self, other):
            raise TypeError("cannot compare")

        def __ne__(self, other):
            raise TypeError("cannot compare")

        def __hash__(self):
            return 7

    class HashRaises(object):
        def __init__(self, hv=0):
            self.hv = hv

        def __hash__(self):
            raise TypeError("unhashable by decision")

    class BoolRaises(object):
        def __init__(self, hv=0):
            self.hv = hv

        def __bool__(self):
            raise ValueError("no truth value")

        def __len__(self):
            raise ValueError("no length")

    return [(EqOwnKind, "AttributeError"), (EqAmbiguous, "ValueError"), (EqTypeError, "TypeError"), (HashRaises, None),
            (BoolRaises, None)]


HOSTILE = _hostile_classes()
HOSTILE_SPECS = []
HOSTILE_TYPES = {}
for _c, _exc in HOSTILE:
    _c.__module__ = "jrv_hostile"
    _c.__qualname__ = _c.__name__
    HOSTILE_SPECS.append({"id": "hostile." + _c.__name__, "module": "jrv_hostile", "name": _c.__name__, "bases": [], "slots": None,
                          "kind": "bean", "own": [("hv", 0)], "class_attrs": {}, "hostile": True, "eq_raises": _exc})
    HOSTILE_TYPES["hostile." + _c.__name__] = _c
BYTES = [b"", b"ab", b"\x00\xff", "é".encode("utf-8"), b"secret-bytes"]


# Values of built-in / library types that are in none of the supported tuples.  (kind = type(value).__name__, constructor,
# stateless: instances have neither a __dict__ entry nor slots, so that the generic instance form is `[name, []]` with no
# attribute — only those get `None` entries in handler tables.)
def _exotic_function(x=0):
    return x


def _exotic_generator():
    yield 1


EXOTIC = [
    ("complex", lambda: complex(1, -2), True),
    ("bytearray", lambda: bytearray(b"ab"), True),
    ("memoryview", lambda: memoryview(b"ab"), True),
    ("range", lambda: range(3), True),
    ("slice", lambda: slice(1, 5, 2), True),
    ("type", lambda: int, False),
    ("function", lambda: _exotic_function, True),
    ("builtin_function_or_method", lambda: len, True),
    ("generator", _exotic_generator, True),
    ("ellipsis", lambda: Ellipsis, True),
    ("NotImplementedType", lambda: NotImplemented, True),
    ("object", object, True),
    ("Fraction", lambda: fractions.Fraction(1, 3), False),
    ("deque", lambda: collections.deque([1]), True),
    ("array", lambda: array.array("i", [1]), True),
]
EXOTIC_MAKE = dict((k, mk) for k, mk, _st in EXOTIC)
EXOTIC_STATELESS = dict((k, st) for k, _mk, st in EXOTIC)
EXOTIC_TYPES = dict((k, type(mk())) for k, mk, _st in EXOTIC)
assert all(t.__name__ == k for k, t in EXOTIC_TYPES.items())
EXOTIC_KIND = dict((t, k) for k, t in EXOTIC_TYPES.items())


class Env20(jcenv.Env):
    """Class environment with library classes: instances of those are opaque for the model (no field of theirs is
    ever read by dump: they have neither a __dict__ nor __slots__); the codec carries their value as a pseudo
    field so that distinct dates stay distinct."""

    def _build(self):
        for s in self.specs:
            if s.get("external"):
                c = EXT_TYPES[s["id"]]
            elif s.get("hostile"):
                c = HOSTILE_TYPES[s["id"]]
            elif s["kind"] == "decimal":
                c = decimal.Decimal
            elif s["kind"] == "enum":
                c = jcenv.make_enum(s)
            else:
                c = self._exec_class(s)
            self.cls[s["id"]] = c
            self.ids[c] = s["id"]

    def hook(self, v):
        t = type(v)
        if t in EXOTIC_KIND:
            # outside the value universe of the model: an opaque instance whose exact type tag is the type's name (no class of
            # the environment: neither supported nor, unless a handler is registered for the tag, handled)
            return (EXOTIC_KIND[t], [("kind", EXOTIC_KIND[t])])
        if t is datetime.timedelta:
            return ("datetime.timedelta", [("value", str(v))])
        if t in (datetime.date, datetime.datetime):
            return (self.ids[t], [("value", v.isoformat())])
        return jcenv.Env.hook(self, v)

    def lean_classes(self):
        ext = [s for s in self.specs if s.get("external")]
        saved = self.specs
        self.specs = [s for s in saved if not s.get("external")]
        try:
            out = jcenv.Env.lean_classes(self)
        finally:
            self.specs = saved
        for s in reversed(ext):
            out.append([s["id"], s["module"], s["name"], list(s["bases"]), [], ["bean", {}], {}])
        for row in out:
            s = self.by_id[row[0]]
            if s.get("hostile") and s.get("eq_raises"):
                row.append(s["eq_raises"])  # 8th element: the exception class a comparison with an instance raises
        return out


class ValueGen20(jcenv.ValueGen):
    """Instances at every position, also directly as field values; instance-level ignore lists."""

    def __init__(self, rng, g, env, ignore_attr, clean):
        jcenv.ValueGen.__init__(self, rng, g, env)
        self.ignore_attr = ignore_attr
        self.clean = clean
        self.missing_attr = False
        self.nonlist_ignore = False
        self.hostile = []  # ids of the hostile classes instantiated
        self.exotic = []  # kinds of the values of unsupported built-in types stored in fields
        self.snan = False  # a signalling NaN was generated: every comparison with it raises InvalidOperation

    def value(self, depth, allow_obj=True, obj_top=True):
        # bytes: a built-in primitive type (utils.PRIMITIVE_TYPES) at any position
        if self.rng.random() < 0.04:
            return self.rng.choice(BYTES)
        return jcenv.ValueGen.value(self, depth, allow_obj, obj_top)

    def instance(self, depth, cid=None):
        rng = self.rng
        env = self.env
        if cid is None:
            cid = rng.choice([s["id"] for s in env.specs])
        s = env.by_id[cid]
        if s.get("external"):
            return rng.choice([d for d in DATES if type(d) is EXT_TYPES[cid]])
        c = env.cls[cid]
        if s.get("hostile"):
            self.hostile.append(cid)
            return c(rng.randint(0, 3))
        if s["kind"] == "decimal":
            d = decimal.Decimal(rng.choice(jcenv.DECIMALS))
            self.snan = self.snan or d.is_snan()
            return d
        if s["kind"] == "enum":
            return self.enum_member(cid)
        if s["kind"] == "serial":
            inst = c(*[self.plain() for _ in s["params"]])
            for a in s["attrs"]:
                if self.clean or rng.random() < 0.95:
                    # what the method returns is emitted as it is: also a tuple, an instance or a date
                    r = rng.random()
                    setattr(inst, a, self.plain() if r < 0.8 else ((1, "t") if r < 0.9 else self.instance(0)))
                else:
                    self.missing_attr = True
            if hasattr(inst, "__dict__") and rng.random() < 0.3:
                # an instance-level ignore list on an object dumped through its method
                names = list(s["attrs"]) + list(s["params"]) + ["zz", 1]
                setattr(inst, self.ignore_attr, rng.sample(names, rng.randint(0, min(3, len(names)))))
            return inst
        inst = c()
        for n, _v in env.stored(inst):
            r = rng.random()
            if r < 0.25:
                continue
            if rng.random() < 0.07:
                # a value of a built-in type that is in none of the supported tuples, directly as a field value
                kind = rng.choice(EXOTIC)[0]
                self.exotic.append(kind)
                setattr(inst, n, EXOTIC_MAKE[kind]())
                continue
            if r < 0.45 and depth >= 0:
                # an instance directly as a field value: unsupported unless its type is handled — now and then one that
                # cannot be compared, hashed or truth-tested
                hostile = [x["id"] for x in env.specs if x.get("hostile")]
                setattr(inst, n, self.instance(max(depth - 1, 0), rng.choice(hostile) if hostile and rng.random() < 0.3 else None))
            else:
                setattr(inst, n, self.value(depth, True, obj_top=False))
        if hasattr(inst, "__dict__"):
            if rng.random() < 0.2:
                setattr(inst, "extra_%d" % rng.randint(0, 2), self.value(depth, True, obj_top=False))
            if rng.random() < 0.25:
                names = [n for n, _x in env.stored(inst)] + ["zz", 1, None]
                if not self.clean and rng.random() < 0.04:
                    setattr(inst, self.ignore_attr, "pub")  # not a list
                    self.nonlist_ignore = True
                else:
                    setattr(inst, self.ignore_attr, rng.sample(names, rng.randint(0, min(3, len(names)))))
        return inst


def gen_env(ctx, rng, tag, cfg_names, clean):
    """Random hierarchy of C07 + class-level ignore lists + serialisation methods under several names + library classes."""
    specs = jcenv.gen_specs(rng, gen, tag, ignore_attr=cfg_names[1], method=cfg_names[0], with_ignore=0.45,
                            local_ratio=rng.choice([0.0, 0.35, 1.0]), flavours=True)
    for s in specs:
        if s["kind"] == "serial" and rng.random() < 0.5:
            s["method"] = rng.choice(METHOD_NAMES)  # may differ from the name in force: dumped field-wise then
        if s["kind"] == "serial" and rng.random() < 0.5:
            # a class-level ignore list on a class with a serialisation method: names of its attributes
            names = list(s["attrs"]) + list(s["params"]) + ["nothing"]
            s["class_attrs"][cfg_names[1]] = rng.sample(names, rng.randint(0, min(3, len(names))))
        if s["kind"] == "bean" and s["class_attrs"].get(cfg_names[1]) is not None and rng.random() < 0.3:
            s["class_attrs"][cfg_names[1]] = s["class_attrs"][cfg_names[1]] + [rng.choice([1, None, "", 2.5, True, (1, 2)])]
        if s["kind"] == "bean" and rng.random() < 0.15:
            # an ignore list under a name that may not be the one in force
            other = rng.choice(IGNORE_NAMES)
            if other not in s["class_attrs"]:
                s["class_attrs"][other] = ["pub", "x"]
        if clean and s.get("slots"):
            unset = [w for w in s["slots"] if w.startswith("unset_")]
            for w in unset:
                s["slots"].remove(w)
    return Env20(EXTERNALS + [dict(h) for h in HOSTILE_SPECS] + specs)


def types_present(env, v, acc=None, depth=0):
    """Type tags of the nodes of the object graph (for handler tables that hit)."""
    if acc is None:
        acc = []
    t = type(v)
    tag = env.type_tag(t)
    if tag not in acc:
        acc.append(tag)
    if depth > 6:
        return acc
    if t in (list, tuple, set, frozenset):
        for x in sorted(v, key=repr) if t in (set, frozenset) else v:
            types_present(env, x, acc, depth + 1)
    elif t is dict:
        for x in v.values():
            types_present(env, x, acc, depth + 1)
    elif t in env.ids and env.by_id[env.ids[t]]["kind"] in ("bean", "serial") and not env.by_id[env.ids[t]].get("external"):
        for _n, x in env.stored(v):
            types_present(env, x, acc, depth + 1)
    return acc


def handler_table(rng, env, clean, present):
    """[(type tag, handler id | None)] over user classes, library classes and built-in types."""
    hf_ids = [0, 1, 1, 1, 3, None, 4, 4, 5, 6, 7, 8] + ([] if clean else [2])
    tags = []
    user = [s["id"] for s in env.specs if not s.get("external")]
    ext = [s["id"] for s in env.specs if s.get("external")]
    # base classes of the classes present: a handler for a base must not be used for the subclass
    bases = []
    for t in present:
        if t in env.by_id:
            bases.extend(env.by_id[t]["bases"])
    if "bool" in present:
        bases.append("int")
    r = rng.random()
    if r < 0.1:
        return []
    n = rng.randint(1, 4)
    pools = [present, present, present, bases or present, user, ext,
             ["tuple", "str", "int", "list", "dict", "bool", "float", "NoneType", "set", "frozenset", "bytes"]]
    for _ in range(n):
        t = rng.choice(rng.choice(pools))
        if t == "object":
            continue  # the universal base class: a handler entry for it makes *every* value an instance of a handled type
        if t not in tags:
            tags.append(t)
    out = []
    for t in tags:
        h = rng.choice(hf_ids)
        if h is None and not EXOTIC_STATELESS.get(t, True):
            h = 0  # a None entry makes the type "known" and falls through to the generic form: only for stateless kinds
        out.append((t, h))
    return out


def py_type(env, tag):
    return jcenv.BUILTIN_TYPES.get(tag) or EXOTIC_TYPES.get(tag) or env.cls[tag]


# ---- the monitor (from the property statement) ----------------------------------------------------------------

def plain_equal(a, b):
    """Same value and same types at every level (what "verbatim" means)."""
    if a is b:
        return True
    try:
        return pyval.enc(a, canon=True) == pyval.enc(b, canon=True)
    except pyval.Unencodable:
        try:
            return type(a) is type(b) and bool(a == b)
        except Exception:  # noqa: BLE001  (values that cannot be compared are the same only if identical)
            return False


class Monitor(object):
    def __init__(self, env, cfg, sm_arg, ia_arg, ig_arg):
        self.env = env
        self.cfg = cfg
        self.sm = sm_arg or cfg.serialize_method
        self.ia = ia_arg or cfg.ignore_attribute
        self.ig = list(ig_arg) if ig_arg else []
        self.handlers = cfg.serialize_handlers
        self.hits = []
        self.positions = set()

    def hit(self, key, path, detail):
        self.hits.append((key, "%s: %s" % (path, detail)))

    def handled(self, obj):
        h = self.handlers.get(type(obj))
        return h

    def class_name(self, obj):
        t = type(obj)
        m = t.__module__
        return t.__name__ if m in ("", "__main__") else "%s.%s" % (m, t.__name__)

    def check(self, obj, out, path="value", pos="top"):
        h = self.handled(obj)
        if h is not None:
            # a handler registered for exactly this type: its return value, verbatim, before any built-in handling
            self.positions.add("handled@" + pos + ":" + self.kind_of(obj))
            try:
                exp = h(obj, self.sm, self.ia, self.ig, self.cfg)
            except Exception as ex:  # noqa: BLE001
                self.hit("handler-raised-but-output", path, "the handler raises %s yet dump emitted %r" % (type(ex).__name__, out))
                return
            if not plain_equal(exp, out):
                self.hit("handler-not-verbatim:" + self.kind_of(obj), path,
                         "type %s has a handler returning %r (names %r/%r, ignore %r) but the dump has %r"
                         % (type(obj).__name__, exp, self.sm, self.ia, self.ig, out))
            return
        self.positions.add("builtin@" + pos + ":" + self.kind_of(obj))
        t = type(obj)
        base = getattr(self.env, "prim_base", lambda _v: None)(obj)
        if base is not None:
            # a member of an enumeration derived from a primitive type is a value of that primitive type: emitted as it is
            if not (out is obj or (type(out) is base and out == obj.value)):
                self.hit("primitive-changed", path, "%r (a %s, no handler for %s) became %r" % (obj, base.__name__, t.__name__, out))
            return
        if obj is None or t in (bool, int, float, str, bytes):
            if not (type(out) is t and (out == obj or out != out)):
                self.hit("primitive-changed", path, "%r (no handler for %s) became %r" % (obj, t.__name__, out))
            return
        if t in (list, tuple):
            if type(out) is not list or len(out) != len(obj):
                self.hit("iterable-form", path, "%s of %d items became %r" % (t.__name__, len(obj), out))
                return
            for i, (x, y) in enumerate(zip(obj, out)):
                self.check(x, y, "%s[%d]" % (path, i), "item")
            return
        if t in (set, frozenset):
            if type(out) is not list or len(out) != len(obj):
                self.hit("iterable-form", path, "%s of %d items became %r" % (t.__name__, len(obj), out))
                return
            if len(obj) == 1:
                self.check(next(iter(obj)), out[0], path + "{0}", "item")
            return
        if t is dict:
            if type(out) is not dict or set(map(jcenv._k, obj)) != set(map(jcenv._k, out)):
                self.hit("dict-form", path, "dict with keys %r became %r" % (list(obj), out))
                return
            for k in obj:
                self.check(obj[k], out[k], "%s[%r]" % (path, k), "dictvalue")
            return
        # an instance without a handler for its exact type
        if type(out) is not dict or "__jsonclass__" not in out or type(out["__jsonclass__"]) is not list \
                or len(out["__jsonclass__"]) != 2 or out["__jsonclass__"][0] != self.class_name(obj):
            self.hit("instance-form:" + self.kind_of(obj), path,
                     "instance of %s (no handler for exactly this type) became %r" % (t.__name__, out))
            return
        if hasattr(obj, self.sm):
            # the serialisation method with the name in force decides: constructor arguments and attributes as it
            # returns them — minus the attributes named by the object's ignore list or the `ignore` argument
            params, attrs = getattr(obj, self.sm)()
            own = getattr(obj, self.ia, [])
            if type(own) is not list:
                return
            ignore_list = own + self.ig
            for name in attrs:
                if any(type(e) is str and e == name for e in ignore_list) and name in out:
                    self.hit("ignored-name-present:method", path,
                             "attribute %r returned by the method %s is named by the ignore list %r but is a key of %r"
                             % (name, self.sm, ignore_list, sorted(map(str, out))))
            exp = dict((k, x) for k, x in attrs.items() if not any(type(e) is str and e == k for e in ignore_list))
            exp["__jsonclass__"] = [self.class_name(obj), params]
            if not self.verbatim_dict(exp, out):
                self.hit("method-output", path, "method %s returned (%r, %r), ignore list %r, but the dump is %r"
                         % (self.sm, params, attrs, ignore_list, out))
            return
        if isinstance(obj, (decimal.Decimal, enum.Enum)):
            return
        # field-wise
        if out["__jsonclass__"][1] != []:
            self.hit("fieldwise-form", path, "constructor arguments %r for an object without a method called %r"
                     % (out["__jsonclass__"][1], self.sm))
        own = getattr(obj, self.ia, [])
        if type(own) is not list:
            return
        ignore_list = own + self.ig
        stored = dict(self.env.stored(obj)) if type(obj) in self.env.ids else {}
        handled_types = tuple(self.handlers)
        for name, val in stored.items():
            named = any(type(e) is str and e == name for e in ignore_list)
            known = isinstance(val, SUPPORTED) or bool(handled_types and isinstance(val, handled_types))
            present = name in out
            if not known:
                # neither supported nor handled: omitted, whatever the ignore lists hold and whatever comparing it would do
                self.positions.add("unsupported@field:" + self.kind_of(val))
                if present:
                    self.hit("unsupported-present", path, "attribute %r holds a %s (neither supported nor handled) but is dumped as %r"
                             % (name, type(val).__name__, out[name]))
                continue
            try:
                valued = val in ignore_list
            except Exception:  # noqa: BLE001  (a handled value that cannot be compared: dump fails, this is not reached)
                continue
            if named and present:
                self.hit("ignored-name-present", path, "attribute %r is named by the ignore list %r but is a key of %r"
                         % (name, ignore_list, sorted(map(str, out))))
            elif valued and present and known:
                self.hit("ignored-value-present", path, "attribute %r has the value %r which is in the ignore list %r but is dumped"
                         % (name, val, ignore_list))
            elif known and not named and not valued and not present:
                self.hit("field-missing:" + ("handled" if not isinstance(val, SUPPORTED) else "supported"), path,
                         "attribute %r = %r (%s) is neither ignored nor unsupported but is absent from %r"
                         % (name, val, type(val).__name__, sorted(map(str, out))))
            if present and known and not named and not valued:
                self.check(val, out[name], "%s.%s" % (path, name), "field")
        for k in out:
            if k != "__jsonclass__" and k not in stored:
                self.hit("unknown-key", path, "key %r of the dump is not an attribute of the object" % (k,))

    def verbatim_dict(self, exp, out):
        """Same keys, and every value the very value expected (same object, or equal with the same types)."""
        if type(out) is not dict or set(exp) != set(out):
            return False
        for k, x in exp.items():
            y = out[k]
            if x is y:
                continue
            try:
                if self.env.enc(x, canon=True) != self.env.enc(y, canon=True):
                    return False
            except pyval.Unencodable:
                if not plain_equal(x, y):
                    return False
        return True

    def kind_of(self, obj):
        t = type(obj)
        if t in self.env.ids:
            s = self.env.by_id[self.env.ids[t]]
            return "library" if s.get("external") else ("hostile" if s.get("hostile") else s["kind"])
        return t.__name__


# ---- one environment --------------------------------------------------------------------------------------------

def make_cfg(env, cfg_names, handlers):
    cfg = impl.jsonrpclib.config.Config(serialize_method=cfg_names[0], ignore_attribute=cfg_names[1])
    hf = jcenv.handler_functions(env)
    for t, hid in handlers:
        cfg.serialize_handlers[py_type(env, t)] = None if hid is None else hf[hid]
    return cfg


def run_case(env, cfg_names, handlers, args, v):
    """-> (kind, result, monitor hits, positions)"""
    cfg = make_cfg(env, cfg_names, handlers)
    sm_arg, ia_arg, ig_arg = args
    k, d = impl.outcome(JC.dump, v, sm_arg, ia_arg, copy.deepcopy(ig_arg) if ig_arg is not None else None, cfg)
    hits = []
    positions = set()
    if k == "ok":
        mon = Monitor(env, cfg, sm_arg, ia_arg, ig_arg)
        try:
            mon.check(v, d)
        except Exception as ex:  # noqa: BLE001  (a monitor bug must not pass silently)
            mon.hit("monitor-error", "value", "%s: %s" % (type(ex).__name__, ex))
        hits = mon.hits
        positions = mon.positions
    return k, d, hits, positions, cfg


def run(ctx):
    ctx.rule = ("every path on which a non-default Config (names, handler table, ignore lists) reaches jsonclass.dump — direct call, "
                "jsonrpc.dump/dumps (request, response, notification), ServerProxy/Server call, keyword call, notification, MultiCall, "
                "the reply of every server entry point (dispatcher, CGI handler, TCP / pooled / Unix-socket servers) to a 2.0-form "
                "request, to a 1.0-form request on a 2.0 server (answered through Config.copy()), in a batch, on a 1.0 server — with "
                "probe objects that define a method and an ignore list under every candidate name; Config.copy() on configurations "
                "with every attribute set / reassigned; programs = random class hierarchies of C07 (3-7 classes + enum + Decimal + datetime.date/datetime/timedelta) x "
                "class-, instance- and call-level ignore lists (field names and value entries) x handler tables (user classes, "
                "library classes, built-in types, None entries) x configured/explicit method and attribute names x instances at "
                "every nesting position (also directly as field values); distinct_nontrivial = distinct (set of (handled|builtin, "
                "position, kind) seen by the monitor, outcome)")
    n_envs = ctx.budget(70, 260)
    per_env = ctx.budget(40, 110)
    lines = []
    expect = []
    hist_cases = []
    for e in range(n_envs):
        tag = "t%d" % e
        rng = ctx.rng
        cfg_names = (rng.choice(METHOD_NAMES), rng.choice(IGNORE_NAMES)) if rng.random() < 0.7 else ("_serialize", "_ignore")
        clean = rng.random() < 0.6
        env = gen_env(ctx, rng, tag, cfg_names, clean).install()
        try:
            _run_env(ctx, env, cfg_names, clean, per_env, lines, expect)
            _histories(ctx, env, tag, cfg_names, clean, hist_cases)
        finally:
            env.uninstall()
    _type_battery(ctx, lines, expect)
    _path_histories(ctx)
    # the paths on which a configuration reaches jsonclass.dump, and Config.copy itself (run first: separate random stream)
    copy_cases = _config_copy(ctx)
    _config_paths(ctx)
    outs = ctx.lean(lines + [c[0] for c in copy_cases] + [h[0] for h in hist_cases] + ["jctables"])
    import props.c07 as c07
    c07.check_type_tables(ctx, outs.pop())
    _check_histories(ctx, hist_cases, outs[len(lines) + len(copy_cases):])
    outs = outs[:len(lines) + len(copy_cases)]
    for (ln, want, case), mo in zip(copy_cases, outs[len(lines):]):
        got = [pyval.canon(part) for part in mo.split(" | ")][:len(want)] if " | " in mo else [mo]
        if got != want:
            ctx.disagree(ln[-600:], " | ".join(want)[:700], " | ".join(got)[:700], component="cfgcopy")
    ctx.traces_validated += len(copy_cases)
    outs = outs[:len(lines)]
    unmodelled = 0
    for ln, mo, (loose_cmp, exp) in zip(lines, outs, expect):
        if "err Unmodelled" in mo:
            unmodelled += 1
            continue
        cm = impl.canon_model_line(mo, keep_arg=())
        if loose_cmp:
            import props.c07 as c07
            cm, exp = c07.loose(cm), c07.loose(exp)
        if exp == "err *" and cm.startswith("err "):
            cm = exp
        if cm != exp:
            ctx.disagree(ln[-900:], exp[:600], cm[:600], component="jcdump")
    ctx.traces_validated += len(lines) - unmodelled
    ctx.extra["unmodelled_cases"] = unmodelled
    ctx.assumptions.append("Python's attribute model, inspect.getmodule and the identity of library classes are represented by "
                           "the class environment handed to the model (harness/jcenv.py, Env20 in harness/props/c20.py); handlers "
                           "are the nine functions of jcenv.handler_functions (a string, an echo of the arguments, raising, 7, None, "
                           "[], a tuple, the object itself, \"\"), mirrored by driverH — the theorems hold for every handler function")
    ctx.assumptions.append("for an object that defines the serialisation method in force, the values of the attributes the method "
                           "returns are emitted as they are (no recursive dump, no handler, no test of the value against the ignore "
                           "lists: C20_method_form); the ignore lists are applied to their names (C20_ignore)")
    ctx.assumptions.append("the monitor's list of supported types (dict, list, set, frozenset, tuple, bytes, str, int, float, bool, None) is "
                           "written from the library's documentation; values of %d other built-in / library types (EXOTIC) are opaque "
                           "instances with their type name as exact type tag for the model (neither supported nor, without a handler "
                           "entry, handled); members of enumerations derived from a primitive type are primitives for dump "
                           "(%d cases decided by the monitor alone)" % (len(EXOTIC), ctx.extra.get("prim_enum_monitor_only", 0)))
    ctx.assumptions.append("bytes are outside the value universe of the model: a bytes node is an opaque instance with type tag "
                           "'bytes' for it (replaced when a handler is registered for bytes, 'Unmodelled' otherwise: %d such cases "
                           "were decided by the monitor alone)" % ctx.extra.get("bytes_monitor_only", 0))


def _run_env(ctx, env, cfg_names, clean, per_env, lines, expect):
    import props.c07 as c07
    rng = ctx.rng
    lean_env = env.enc(env.lean_classes())
    field_pool = jcenv.PUBLIC + jcenv.PROTECTED + ["extra_0", "extra_1", "zz"]
    for i in range(per_env):
        vg = ValueGen20(rng, gen, env, cfg_names[1], clean)
        top = rng.random()
        if top < 0.45:
            v = vg.instance(3)
        elif top < 0.85:
            v = vg.value(3)
        else:
            v = [vg.instance(2), {"k": vg.instance(2), "t": (vg.instance(1), "s", 1)}, (vg.instance(1),)]
        present = types_present(env, v)
        if len(present) > 1 and rng.random() < 0.75:
            present = present[1:]  # not the type of the top-level value: handlers that hit at depth
        handlers = handler_table(rng, env, clean, present)
        sm_arg = ia_arg = ig_arg = None
        if rng.random() < 0.3:
            sm_arg = rng.choice(["", "_serialize", "to_json", "dump_me", "other_m"])
        if rng.random() < 0.3:
            ia_arg = rng.choice(["", "_ignore", "_skip", "hidden_"])
        if rng.random() < 0.6:
            pool = field_pool + [1, None, True, 2.5, "", (1, 2), 0]
            ig_arg = rng.sample(pool, rng.randint(0, 5))
            if not clean and rng.random() < 0.05:
                ig_arg.append([1])  # unhashable entry
        try:
            vtext = env.enc(v)
        except pyval.Unencodable:
            continue
        vrepr = repr(v)[:300]
        k, d, hits, positions, cfg = run_case(env, cfg_names, handlers, (sm_arg, ia_arg, ig_arg), v)
        case = {"value_enc": vtext, "value": vrepr, "cfg_names": list(cfg_names), "handlers": [[t, h] for t, h in handlers],
                "args": [sm_arg, ia_arg, json.loads(json.dumps(ig_arg, default=list)) if ig_arg is not None else None],
                "ig_enc": pyval.enc(ig_arg) if ig_arg is not None else None,
                "specs": json.loads(json.dumps([s for s in env.specs if not s.get("external")], default=repr)),
                "specs_enc": pyval.enc(_specs_plain(env))}
        for key, detail in hits[:3]:
            ctx.violate(case, detail, key=key)
        raising = any(h == 2 for _t, h in handlers)
        # a hostile value whose type is handled (a key of the handler table, also with a None entry) is of a known type: it is
        # compared with the ignore-list entries, and the comparison fails — a failure cause of the program, not of dump
        htypes = tuple(py_type(env, t) for t, _h in handlers)
        hostile_known = bool(htypes) and any(issubclass(env.cls[cid], htypes) for cid in vg.hostile)
        # … and so is a tuple that holds such an instance directly while an ignore list in force has a tuple entry: Python
        # compares tuples item by item (no length shortcut), which reaches the instance's __eq__
        if vg.hostile and not hostile_known and _tuple_with_hostile(v, env) and _tuple_entries(v, env, ig_arg):
            hostile_known = True
            ctx.hist["hostile/inside-a-tuple-compared-with-a-tuple-entry"] += 1
        # … and a signalling NaN of a handled Decimal type: every comparison with it raises decimal.InvalidOperation
        if vg.snan and htypes and issubclass(decimal.Decimal, htypes):
            hostile_known = True
            ctx.hist["hostile/signalling-NaN-of-a-handled-Decimal"] += 1
        for kind in vg.exotic:
            ctx.hist["unsupported-builtin/%s/%s" % (kind, "handled" if any(t == kind for t, _h in handlers) else "unhandled")] += 1
        c07.note_specials(ctx, v, env)
        for cid in set(vg.hostile):
            ctx.hist["hostile/%s/%s/%s" % (cid.split(".")[-1], "handled" if htypes and issubclass(env.cls[cid], htypes) else "unsupported",
                                         "ignore-list" if (ig_arg or _has_ignore_lists(v, env, ia_arg or cfg_names[1])) else "no-ignore-list")] += 1
        if k == "err" and clean and not raising and not hostile_known:
            ctx.violate(case, "dump raised %s: %s on a program without failure causes" % (type(d).__name__, d),
                        key="dump-raises:" + type(d).__name__)
        try:
            dexp = impl.canon_outcome(k, d, env.hook, keep_arg=())
        except pyval.Unencodable:
            continue
        if has_bytes(v, env):
            ctx.hist["bytes/%s" % ("handled" if any(t == "bytes" and h is not None for t, h in handlers) else "builtin")] += 1
        if direct_bytes_field(v, env):
            # isinstance(value, SUPPORTED_TYPES) holds for bytes; the model has no bytes: monitor only
            ctx.extra["bytes_monitor_only"] = ctx.extra.get("bytes_monitor_only", 0) + 1
            continue
        if c07.has_prim_member(v, env):
            # a member of an enumeration derived from a primitive type: no class of the model; monitor only
            ctx.extra["prim_enum_monitor_only"] = ctx.extra.get("prim_enum_monitor_only", 0) + 1
            continue
        lines.append("jcdump %s %s %s %s" % (pyval.enc(jcenv.lean_cfg(cfg.serialize_method, cfg.ignore_attribute, handlers)),
                                             lean_env, pyval.enc([sm_arg, ia_arg, ig_arg]), vtext))
        multi_raise = k == "err" and (raising or not clean or hostile_known)
        expect.append((c07.has_multiset(v, env), dexp if not multi_raise else "err *"))
        outcome = "ok" if k == "ok" else type(d).__name__
        ctx.count(case_repr={"value": vrepr, "handlers": handlers, "args": [sm_arg, ia_arg, repr(ig_arg)], "dump": repr(d)[:300]} if i < 1 else None,
                  nontrivial_key=(tuple(sorted(positions)), outcome) if positions else None,
                  kind="%s/%s/%s" % ("clean" if clean else "any", "handlers%d" % min(len(handlers), 3), outcome))
        for p in positions:
            ctx.hist["pos:" + p] += 1


def _walk(v, env, depth=0):
    """Every node of the object graph (containers, stored attributes of user-class instances)."""
    yield v
    if depth > 8:
        return
    if isinstance(v, dict):
        for x in v.values():
            for y in _walk(x, env, depth + 1):
                yield y
    elif isinstance(v, (list, tuple, set, frozenset)):
        for x in v:
            for y in _walk(x, env, depth + 1):
                yield y
    elif type(v) in env.ids and env.by_id[env.ids[type(v)]]["kind"] in ("bean", "serial") and not env.by_id[env.ids[type(v)]].get("external"):
        for _n, x in env.stored(v):
            for y in _walk(x, env, depth + 1):
                yield y


def _tuple_with_hostile(v, env):
    eq_hostile = tuple(HOSTILE_TYPES[s["id"]] for s in HOSTILE_SPECS if s["eq_raises"])
    return any(type(n) is tuple and any(isinstance(x, eq_hostile) for x in n) for n in _walk(v, env))


def _tuple_entries(v, env, ig_arg):
    """Is there a tuple entry in some ignore list (the call's, a class's or an instance's, under any name)?"""
    if any(type(e) is tuple for e in (ig_arg or [])):
        return True
    for s in env.specs:
        for val in (s.get("class_attrs") or {}).values():
            if isinstance(val, list) and any(type(e) is tuple for e in val):
                return True
    for n in _walk(v, env):
        if type(n) in env.ids and hasattr(n, "__dict__"):
            for val in n.__dict__.values():
                if type(val) is list and any(type(e) is tuple for e in val):
                    return True
    return False


def _has_ignore_lists(v, env, ia, depth=0):
    """Does some bean reachable from v carry a non-empty ignore list under the name in force?"""
    if depth > 8:
        return False
    if isinstance(v, dict):
        return any(_has_ignore_lists(x, env, ia, depth + 1) for x in v.values())
    if isinstance(v, (list, tuple, set, frozenset)):
        return any(_has_ignore_lists(x, env, ia, depth + 1) for x in v)
    if type(v) in env.ids and env.by_id[env.ids[type(v)]]["kind"] in ("bean", "serial") and not env.by_id[env.ids[type(v)]].get("external"):
        own = getattr(v, ia, None)
        if isinstance(own, list) and own:
            return True
        return any(_has_ignore_lists(x, env, ia, depth + 1) for _n, x in env.stored(v))
    return False


# ---- one Config object over time ---------------------------------------------------------------------------------------------

def _histories(ctx, env, tag, cfg_names, clean, hist_cases):
    """Histories on one real Config object (harness/jchistory.py): monitors now, the model lines are answered later."""
    import props.c07 as c07
    rng = ctx.derive_rng("history/" + tag)
    lean_env = env.enc(env.lean_classes())
    for i in range(ctx.budget(6, 14)):
        hist = jchistory.gen_history(rng, gen, env, cfg_names, clean)
        try:
            case = jchistory.case_of(env, hist, _specs_plain(env))
            line = jchistory.lean_line(env, hist, lean_env)
        except pyval.Unencodable:
            continue
        results = jchistory.run_history(env, hist)
        flags = hist["flags"]
        loose_err = flags["raising"] or not clean or flags["hostile"] or flags["snan"]
        for n, k, d, canon, hits, positions in results:
            for key, detail in hits[:2]:
                ctx.violate(case, detail, key=key)
            if k == "err" and clean and not loose_err:
                ctx.violate(case, "statement %d of the history: dump raised %s: %s on a program without failure causes"
                            % (n, type(d).__name__, d), key="dump-raises@history:" + type(d).__name__)
            ctx.count(nontrivial_key=("history", jchistory.history_kind(dict(hist, ops=hist["ops"][:n])), tuple(sorted(positions)),
                                      k if k == "ok" else type(d).__name__) if n > 0 else None,
                      kind="history/%s/%s" % (hist["ops"][n][0], k))
        for kind in set(op[0] for op in hist["ops"]) - set(["dump", "rpcdump"]):
            ctx.hist["history/with-store:" + kind] += 1
        ctx.hist["history/dumps:%d" % len(results)] += 1
        for op in hist["ops"]:
            ctx.hist["history/statement:" + op[0]] += 1
        # a handler registered / removed after the first dump for a type that a later value holds in a FIELD
        late = set(op[1] for op in hist["ops"][1:] if op[0] in ("seth", "delh"))
        if late:
            held = set()
            for v in hist["values"]:
                for node in _walk(v, env):
                    if type(node) in env.ids and env.by_id[env.ids[type(node)]]["kind"] == "bean" and not env.by_id[env.ids[type(node)]].get("external"):
                        held.update(env.type_tag(type(x)) for _n, x in env.stored(node))
            ctx.hist["history/late-handler-for-%s" % ("a-field-type" if late & held else "another-type")] += 1
        model_ok = not any(direct_bytes_field(v, env) or c07.has_prim_member(v, env) for v in hist["values"])
        if model_ok:
            hist_cases.append((line, [(n, canon, loose_err and k == "err", c07.has_multiset(hist["values"][hist["ops"][n][-1]], env))
                                      for n, k, d, canon, hits, positions in results], case))


def _check_histories(ctx, hist_cases, outs):
    import props.c07 as c07
    unmodelled = 0
    for (line, expected, case), mo in zip(hist_cases, outs):
        parts = mo.split(" | ")
        if len(parts) != len(case["ops"]):
            ctx.disagree(line[-600:], "%d statements" % len(case["ops"]), mo[:300], component="cfghistory")
            continue
        for n, canon, loose_err, multiset in expected:
            part = parts[n]
            if "err Unmodelled" in part or canon is None:
                unmodelled += 1
                continue
            cm = impl.canon_model_line(part, keep_arg=())
            exp = canon
            if multiset:
                cm, exp = c07.loose(cm), c07.loose(exp)
            if loose_err and cm.startswith("err "):
                cm = exp
            if cm != exp:
                ctx.disagree("statement %d of %s" % (n, line[-700:]), exp[:500], cm[:500], component="cfghistory")
        ctx.traces_validated += 1
    ctx.extra["unmodelled_history_dumps"] = unmodelled


HISTORY_PHASES = [(("_serialize", "_ignore"), "none"), (("_to_json", "_skip"), "tuple"), (("dump_me", "hidden_"), "date+str"),
                  (("_serialize", "hidden_"), "tuple"), (("_to_json", "_ignore"), "none"), (("dump_me", "_skip"), "date+str")]


def _set_probe_cfg(cfg, names, hkind):
    """Brings a long-lived configuration object to these settings, in place."""
    cfg.serialize_method, cfg.ignore_attribute = names
    donor = probe_cfg(names, hkind)
    cfg.serialize_handlers.clear()
    cfg.serialize_handlers.update(donor.serialize_handlers)


def path_history_verdicts(path, phases):
    """One long-lived client / server entry constructed with one Config object; between two requests the object is brought to
    the next phase (names, handler table).  -> [(key, detail)] of the statement's monitor on what leaves the library each time."""
    parts = path.split(":")
    version = 1.0 if parts[0] == "server" and parts[2].endswith("1.0-server") else 2.0
    cfg = probe_cfg(phases[0][0], phases[0][1], version)
    hits = []
    current = {}

    def judge(phase_no, names, hkind, pairs):
        for obj, o in pairs:
            mon = Monitor(current["penv"], cfg, None, None, None)
            try:
                mon.check(obj, o)
            except Exception as ex:  # noqa: BLE001
                mon.hit("monitor-error", "value", "%s: %s" % (type(ex).__name__, ex))
            how = "the first request (names %r, handlers %s)" % (names, hkind) if phase_no == 0 else \
                "request %d on the same long-lived object, after its configuration was changed in place to names %r, handlers %s " \
                "(before: %s)" % (phase_no + 1, names, hkind, phases[:phase_no])
            hits.extend((key + "@history:" + ":".join(parts[::2]), "%s, %s: %s" % (path, how, d)) for key, d in mon.hits)

    def fresh_value(names):
        Account, Plain = make_probes(*names)
        current["penv"] = ProbeEnv([(Account, "serial"), (Plain, "bean")])
        current["v"] = probe_value(Account, Plain)
        return current["v"]

    def run():
        if parts[0] == "client":
            kind, mode = parts[1], parts[2]

            def peer(body):
                docs = json.loads(body)
                reps = [{"jsonrpc": "2.0", "id": d["id"], "result": None} for d in (docs if isinstance(docs, list) else [docs])
                        if d.get("id") is not None]
                return "" if not reps else json.dumps(reps if isinstance(docs, list) else reps[0])

            client = jcentries.Client(kind, cfg, peer)
            try:
                for no, (names, hkind) in enumerate(phases):
                    if no:
                        _set_probe_cfg(cfg, names, hkind)
                    v = fresh_value(names)
                    if mode == "call":
                        client.proxy.m(v)
                    elif mode == "keyword":
                        client.proxy.m(x=v)
                    elif mode == "notify":
                        client.proxy._notify.m(v)
                    else:
                        mc = impl.jsonrpclib.jsonrpc.MultiCall(client.proxy, config=cfg)
                        mc._notify.other(1)
                        mc.m(v)
                        list(mc())
                    doc = json.loads(client.sent[-1])
                    doc = doc[-1] if isinstance(doc, list) else doc
                    judge(no, names, hkind, [({"x": v} if mode == "keyword" else (v,), doc["params"])])
            finally:
                client.close()
        else:
            kind, form = parts[1], parts[2]
            req = {"method": "get", "id": 3, "params": []}
            if form in ("2.0", "batch", "2.0-on-1.0-server"):
                req["jsonrpc"] = "2.0"
            if form == "batch":
                req = [{"method": "get", "id": 4, "params": []}, req]
            entry = jcentries.ServerEntry(kind, cfg, {"get": lambda: current["v"]})
            try:
                for no, (names, hkind) in enumerate(phases):
                    if no:
                        _set_probe_cfg(cfg, names, hkind)
                    v = fresh_value(names)
                    reply = json.loads(entry.send(json.dumps(req)))
                    pairs = []
                    for doc in (reply if isinstance(reply, list) else [reply]):
                        if "result" not in doc or doc.get("error"):
                            raise RuntimeError("the server answered %r" % (doc,))
                        pairs.append((v, doc["result"]))
                    judge(no, names, hkind, pairs)
            finally:
                entry.close()

    k, out = impl.outcome(run)
    if k == "err":
        hits.append(("path-failed@history:" + parts[0], "%s: %s: %s" % (path, type(out).__name__, out)))
    return hits


def _path_histories(ctx):
    rng = ctx.derive_rng("path-histories")
    for path, n in all_paths(ctx.thorough, rng):
        if ":" not in path:
            continue  # the function paths take the configuration per call: covered by `_histories`
        in_process = n >= 9
        for _ in range(2 if in_process else 1):
            phases = rng.sample(HISTORY_PHASES, 3 if in_process else 2)
            hits = path_history_verdicts(path, phases)
            case = {"side": "path-history", "path": path, "phases": [[list(nm), hk] for nm, hk in phases]}
            for key, detail in hits[:2]:
                ctx.violate(case, detail, key=key)
            ctx.count(nontrivial_key=("path-history", path, tuple(hk for _nm, hk in phases)), kind="path-history/%s" % path.split(":")[0])
            ctx.hist["path-history:" + ":".join(path.split(":")[::2])] += 1


# ---- every type of / outside the supported tuples, as a field value ---------------------------------------------------------

BATTERY_SPECS = [
    {"id": "bat.Holder", "module": "jrv_battery", "name": "Holder", "bases": [], "slots": None, "kind": "bean",
     "own": [("a", 1), ("b", "x")], "class_attrs": {}},
    {"id": "bat.SlotHolder", "module": "jrv_battery", "name": "SlotHolder", "bases": [], "slots": ["a", "b"], "kind": "bean",
     "own": [("a", 1), ("b", "x")], "class_attrs": {}},
]
SUPPORTED_SAMPLES = [("dict", lambda: {"k": 1}), ("list", lambda: [1, "x"]), ("set", lambda: set([1])), ("frozenset", lambda: frozenset([2])),
                     ("tuple", lambda: (1, 2)), ("bytes", lambda: b"ab"), ("str", lambda: "s"), ("int", lambda: 5), ("float", lambda: 2.5),
                     ("bool", lambda: True), ("NoneType", lambda: None)]


def _type_battery(ctx, lines, expect):
    """Every kind of EXOTIC (must be omitted unless handled) and every member of the supported tuples (must be dumped), directly
    as a field value of an attribute-dict and of a slotted object: without handler, with a handler for exactly its type, with a
    None entry for its type (stateless kinds), and with a handler for another type."""
    import props.c07 as c07
    env = Env20(EXTERNALS + [dict(x) for x in BATTERY_SPECS] + [dict(jcenv.DEC_SPEC)]).install()
    try:
        lean_env = env.enc(env.lean_classes())
        for kind, mk, supported in [(k, m, False) for k, m, _s in EXOTIC] + [(k, m, True) for k, m in SUPPORTED_SAMPLES]:
            options = [[], [(kind, 1)], [("tuple" if kind != "tuple" else "str", 0)]]
            if EXOTIC_STATELESS.get(kind, True):
                options.append([(kind, None)])
            if kind == "object":
                options = [[], [("tuple", 0)]]  # no handler entry for the universal base class (see handler_table)
            for cid in ("bat.Holder", "bat.SlotHolder"):
                for handlers in options:
                    inst = env.cls[cid]()
                    inst.a = mk()
                    v = [inst]
                    k, d, hits, positions, cfg = run_case(env, ("_serialize", "_ignore"), handlers, (None, None, None), v)
                    case = {"value_enc": env.enc(v), "value": repr(v)[:200] + " with .a = %r" % (inst.a,), "cfg_names": ["_serialize", "_ignore"],
                            "handlers": [[t, h] for t, h in handlers], "args": [None, None, None], "ig_enc": None,
                            "specs_enc": pyval.enc(_specs_plain(env))}
                    for key, detail in hits[:3]:
                        ctx.violate(case, detail, key=key)
                    if k == "err":
                        ctx.violate(case, "dump raised %s: %s on an object holding a %s in a field" % (type(d).__name__, d, kind),
                                    key="dump-raises:" + type(d).__name__)
                    hname = "no-handler" if not handlers else ("other-type" if handlers[0][0] != kind else
                                                               ("none-entry" if handlers[0][1] is None else "handled"))
                    ctx.hist["type-battery/%s/%s/%s" % ("supported" if supported else "unsupported", kind, hname)] += 1
                    ctx.count(nontrivial_key=("battery", kind, cid, hname, k), kind="battery/%s" % k)
                    if kind == "bytes":
                        continue  # no bytes in the model
                    try:
                        dexp = impl.canon_outcome(k, d, env.hook, keep_arg=())
                    except pyval.Unencodable:
                        continue
                    lines.append("jcdump %s %s %s %s" % (pyval.enc(jcenv.lean_cfg(cfg.serialize_method, cfg.ignore_attribute, handlers)),
                                                         lean_env, pyval.enc([None, None, None]), env.enc(v)))
                    expect.append((False, dexp))
    finally:
        env.uninstall()


# ---- Config.copy and the paths on which a configuration reaches jsonclass.dump ------------------------------------------

PROBE_NAMES = [("_serialize", "_ignore"), ("_to_json", "_skip"), ("dump_me", "hidden_")]
PROBE_HANDLERS = ["none", "tuple", "date+str"]
PATH_FORMS = ["2.0", "1.0-on-2.0", "batch", "2.0-on-1.0-server", "1.0-on-1.0-server"]
DIRECT_PATHS = ["direct", "rpc-dump-request", "rpc-dump-response", "rpc-dump-notify", "rpc-dumps-request", "rpc-dumps-response"]
CLIENT_MODES = ["call", "keyword", "notify", "multicall"]


class ProbeEnv(object):
    """What the monitor needs to know of the probe classes."""

    def __init__(self, classes):
        self.ids = dict((c, "probe." + c.__name__) for c, _k in classes)
        self.by_id = dict(("probe." + c.__name__, {"kind": k}) for c, k in classes)

    def stored(self, inst):
        return list(inst.__dict__.items())

    def enc(self, v, canon=False):
        return pyval.enc(v, canon=canon)


def make_probes(sm, ia):
    """Objects whose dumped form tells which names were consulted: a serialisation method and an ignore list exist under
    *every* candidate name, each giving a different answer."""
    all_methods = sorted(set(METHOD_NAMES + ["_serialize", "_to_json"]))
    all_ignores = sorted(set(IGNORE_NAMES + ["_ignore"]))

    class Account(object):
        def __init__(self, owner):
            self.owner = owner
            self.token = "s3cr3t-" + owner
            self.note = "n"

    def via(name, attrs):
        def method(self):
            return [self.owner, "via:" + name], dict((a, getattr(self, a)) for a in attrs)
        return method

    for name in all_methods:
        setattr(Account, name, via(name, ["owner", "note"] if name == sm else ["token"]))
    for name in all_ignores:
        setattr(Account, name, ["note"] if name == ia else ["owner"])

    class Plain(object):
        def __init__(self):
            self.a = 1
            self.hidden = "h"
            self.t = (1, "t")
            self.when = datetime.date(2020, 1, 2)
            self.pt = HOSTILE[0][0](1)
            self.inner = [Account("in"), ("x",)]

    for name in all_ignores:
        setattr(Plain, name, ["hidden"] if name == ia else ["a"])
    return Account, Plain


def probe_value(Account, Plain):
    return {"accounts": [Account("alice"), Account("bob")], "plain": Plain(), "pair": (Account("carol"), 5)}


def probe_cfg(names, hkind, version=2.0, seen=None):
    cfg = impl.jsonrpclib.config.Config(version=version, serialize_method=names[0], ignore_attribute=names[1],
                                        content_type="application/json")

    def note(config):
        if seen is not None:
            seen.append(config)

    def h_tuple(obj, sm, ia, ig, config):
        note(config)
        return ["T", sm, ia, len(obj)]

    def h_date(obj, sm, ia, ig, config):
        note(config)
        return obj.isoformat()

    def h_str(obj, sm, ia, ig, config):
        note(config)
        return "S:" + obj

    if hkind == "tuple":
        cfg.serialize_handlers[tuple] = h_tuple
    elif hkind == "date+str":
        cfg.serialize_handlers[datetime.date] = h_date
        cfg.serialize_handlers[str] = h_str
    return cfg


def path_output(path, names, hkind):
    """The dumped form of the probe value as it leaves the library on one path (JSON-decoded when the path ends in text).
    -> (kind, output | exception, the value, its ProbeEnv, the configuration)"""
    J = impl.jsonrpclib.jsonrpc
    Account, Plain = make_probes(*names)
    penv = ProbeEnv([(Account, "serial"), (Plain, "bean")])
    parts = path.split(":")
    version = 1.0 if parts[0] == "server" and parts[2].endswith("1.0-server") else 2.0
    cfg = probe_cfg(names, hkind, version)
    v = probe_value(Account, Plain)

    def run():
        if path == "direct":
            return [(v, JC.dump(v, config=cfg))]
        if path == "rpc-dump-request":
            return [([v], J.dump([v], "m", 1, config=cfg)["params"])]
        if path == "rpc-dump-response":
            return [(v, J.dump(v, rpcid=1, is_response=True, config=cfg)["result"])]
        if path == "rpc-dump-notify":
            return [((v, 2), J.dump((v, 2), "m", is_notify=True, config=cfg)["params"])]
        if path == "rpc-dumps-request":
            return [({"x": v}, json.loads(J.dumps({"x": v}, "m", rpcid=1, config=cfg))["params"])]
        if path == "rpc-dumps-response":
            return [(v, json.loads(J.dumps(v, methodresponse=True, rpcid=1, config=cfg))["result"])]
        if parts[0] == "client":
            kind, mode = parts[1], parts[2]

            def peer(body):
                docs = json.loads(body)
                reps = [{"jsonrpc": "2.0", "id": d["id"], "result": None} for d in (docs if isinstance(docs, list) else [docs])
                        if d.get("id") is not None]
                return "" if not reps else json.dumps(reps if isinstance(docs, list) else reps[0])

            client = jcentries.Client(kind, cfg, peer)
            try:
                if mode == "call":
                    client.proxy.m(v)
                elif mode == "keyword":
                    client.proxy.m(x=v)
                elif mode == "notify":
                    client.proxy._notify.m(v)
                else:
                    mc = J.MultiCall(client.proxy, config=cfg)
                    mc._notify.other(1)
                    mc.m(v)
                    list(mc())
            finally:
                client.close()
            doc = json.loads(client.sent[-1])
            doc = doc[-1] if isinstance(doc, list) else doc
            # the parameters are dumped as a whole: the tuple of positional arguments / the dict of keyword arguments
            return [({"x": v} if mode == "keyword" else (v,), doc["params"])]
        if parts[0] == "server":
            kind, form = parts[1], parts[2]
            req = {"method": "get", "id": 3, "params": []}
            if form in ("2.0", "batch", "2.0-on-1.0-server"):
                req["jsonrpc"] = "2.0"
            if form == "batch":
                req = [{"method": "get", "id": 4, "params": []}, req, {"method": "get", "id": 5, "params": []}]
            entry = jcentries.ServerEntry(kind, cfg, {"get": lambda: v})
            try:
                reply = json.loads(entry.send(json.dumps(req)))
            finally:
                entry.close()
            outs = []
            for doc in (reply if isinstance(reply, list) else [reply]):
                if "result" not in doc or doc.get("error"):
                    raise RuntimeError("the server answered %r" % (doc,))
                outs.append((v, doc["result"]))
            return outs
        raise ValueError(path)

    k, out = impl.outcome(run)
    return k, out, v, penv, cfg


def path_verdicts(path, names, hkind):
    """[(key, detail)] — the monitor of the statement on the output of one path."""
    k, out, v, penv, cfg = path_output(path, names, hkind)
    if k == "err":
        return [("path-failed:" + path.split(":")[0], "%s: %s: %s" % (path, type(out).__name__, out))], k, out
    hits = []
    for obj, o in out:
        mon = Monitor(penv, cfg, None, None, None)
        try:
            mon.check(obj, o)
        except Exception as ex:  # noqa: BLE001
            mon.hit("monitor-error", "value", "%s: %s" % (type(ex).__name__, ex))
        hits.extend((key + "@" + ":".join(path.split(":")[::2]), "%s, configured names %r, handlers %s: %s" % (path, names, hkind, d))
                    for key, d in mon.hits)
    return hits, k, out


def all_paths(thorough, rng):
    """(path, how many of the 9 configuration variants)"""
    out = [(p, 9) for p in DIRECT_PATHS]
    for kind in jcentries.CLIENT_ENTRIES:
        for mode in CLIENT_MODES:
            out.append(("client:%s:%s" % (kind, mode), 9 if kind in ("proxy-loop", "server-alias") or thorough else 2))
    for kind in jcentries.SERVER_ENTRIES:
        for form in PATH_FORMS:
            out.append(("server:%s:%s" % (kind, form), 9 if kind in jcentries.IN_PROCESS or thorough else 2))
    return out


def _config_paths(ctx, only=None):
    rng = ctx.derive_rng("config-paths")
    variants = [(n, h) for n in PROBE_NAMES for h in PROBE_HANDLERS]
    for path, n in all_paths(ctx.thorough, rng):
        chosen = variants if n >= len(variants) else rng.sample(variants[1:], n)  # never only the default names
        for names, hkind in chosen:
            hits, k, out = path_verdicts(path, names, hkind)
            case = {"side": "path", "path": path, "names": list(names), "handlers": hkind}
            for key, detail in hits[:2]:
                ctx.violate(case, detail, key=key)
            ctx.count(case_repr={"path": path, "names": names, "handlers": hkind, "dump": repr(out)[:300]} if names == PROBE_NAMES[1]
                      and hkind == "tuple" and path.endswith("1.0-on-2.0") else None,
                      nontrivial_key=("path", path, names, hkind, k), kind="path/%s/%s" % (path.split(":")[0], k))
            ctx.hist["path:" + ":".join(path.split(":")[::2] if path.count(":") == 2 else [path])] += 1
            ctx.hist["path-entry:" + (path.split(":")[1] if ":" in path else "function")] += 1


CFG_FIELDS = ["version", "content_type", "user_agent", "use_jsonclass", "serialize_method", "ignore_attribute"]


def _default_ua():
    return impl.jsonrpclib.config.Config().user_agent


def _cfg_view(cfg, hid, model_ua, ua_of=None):
    """The eight attributes of a configuration as a value of the codec (L8 of `cfgcopy`).  `ua_of`: the original of which
    `cfg` is a copy — when the original's user agent is None the copy's is not compared (the constructor replaces None by
    the default user agent, `ConfigCopy.agentOr`; nothing C20 talks about reads it)."""
    ua = cfg.user_agent
    if ua == _default_ua() or (ua_of is not None and ua_of.user_agent is None):
        ua = model_ua
    return [cfg.version, cfg.content_type, ua, cfg.use_jsonclass, cfg.serialize_method, cfg.ignore_attribute,
            [[n, c.__name__] for n, c in cfg.classes.items()],
            [[jcenv_tag(t), None if h is None else hid[h]] for t, h in cfg.serialize_handlers.items()]]


def jcenv_tag(t):
    return t.__name__ if t.__module__ == "builtins" else "%s.%s" % (t.__module__, t.__name__)


MODEL_UA = "jsonrpclib/<version> (Python <version>)"


def random_config(rng):
    """A configuration as a program may have left it: constructor arguments (positional or keyword), then attribute
    stores (None, numbers and other names included), local classes, handler entries (also None)."""
    C = impl.jsonrpclib.config.Config

    def h0(obj, sm, ia, ig, config):
        return "H0"

    def h1(obj, sm, ia, ig, config):
        return [sm, ia]

    hid = {h0: 0, h1: 1}
    scal = {"version": [1.0, 2.0, 2, 1, 3.5], "content_type": ["application/json", "application/json-rpc", "text/x", ""],
            "user_agent": [None, "ua-x", "", _default_ua()], "use_jsonclass": [True, False, 0, 1],
            "serialize_method": ["_serialize", "_to_json", "dump_me", "to_json", ""],
            "ignore_attribute": ["_ignore", "_skip", "hidden_", ""]}
    kw = {}
    for f in CFG_FIELDS:
        if rng.random() < 0.6:
            kw[f] = rng.choice(scal[f])
    r = rng.random()
    if r < 0.3:
        kw["serialize_handlers"] = {tuple: h0}
    elif r < 0.4:
        kw["serialize_handlers"] = {}
    elif r < 0.5:
        kw["serialize_handlers"] = None
    if rng.random() < 0.3:
        order = ["version", "content_type", "user_agent", "use_jsonclass", "serialize_method", "ignore_attribute", "serialize_handlers"]
        dflt = [2.0, "application/json-rpc", None, True, "_serialize", "_ignore", None]
        cfg = C(*[kw.get(f, d) for f, d in zip(order, dflt)])
    else:
        cfg = C(**kw)
    for f in CFG_FIELDS:
        if rng.random() < 0.25:
            setattr(cfg, f, rng.choice(scal[f] + [None, 7]))
    for t in (str, datetime.date, list, tuple):
        if rng.random() < 0.25:
            cfg.serialize_handlers[t] = rng.choice([h0, h1, None])
    for c in (ProbeEnv, Monitor):
        if rng.random() < 0.3:
            cfg.classes.add(c, rng.choice([None, "alias_" + c.__name__]))
    return cfg, hid


def copy_verdicts(view):
    """Rebuilds a configuration from its recorded attributes and checks its copy (replay)."""
    cfg = impl.jsonrpclib.config.Config()
    for f, x in zip(CFG_FIELDS, view[:6]):
        setattr(cfg, f, _default_ua() if f == "user_agent" and x == MODEL_UA else x)
    for n, cname in view[6]:
        cfg.classes[n] = {"ProbeEnv": ProbeEnv, "Monitor": Monitor}[cname]
    types = {"str": str, "datetime.date": datetime.date, "list": list, "tuple": tuple, "frozenset": frozenset}
    for t, h in view[7]:
        cfg.serialize_handlers[types[t]] = None if h is None else (lambda obj, sm, ia, ig, config, _h=h: "H%d" % _h)
    cp = cfg.copy()
    hits = []
    for f in CFG_FIELDS:
        if f == "user_agent" and getattr(cfg, f) is None:
            continue
        if not plain_equal(getattr(cfg, f), getattr(cp, f)):
            hits.append("Config.copy(): %s is %r in the original and %r in the copy" % (f, getattr(cfg, f), getattr(cp, f)))
    if dict(cfg.classes) != dict(cp.classes):
        hits.append("Config.copy(): classes differ")
    if dict(cfg.serialize_handlers) != dict(cp.serialize_handlers):
        hits.append("Config.copy(): serialize_handlers differ")
    return hits


def _config_copy(ctx):
    """Config.copy(): monitor (the copy has the attributes of the original) + correspondence with ConfigCopy.copy, and the
    per-request configuration a handler is handed on the 1.0-compatibility path with ConfigCopy.compat."""
    rng = ctx.derive_rng("config-copy")
    out = []
    for i in range(ctx.budget(150, 1200)):
        cfg, hid = random_config(rng)
        before = _cfg_view(cfg, hid, MODEL_UA)
        k, cp = impl.outcome(cfg.copy)
        case = {"side": "copy", "before": json.loads(json.dumps(before, default=repr))}
        if k == "err":
            ctx.violate(case, "Config.copy() raised %s: %s" % (type(cp).__name__, cp), key="copy-raises")
            continue
        after = _cfg_view(cp, hid, MODEL_UA, cfg)
        names = CFG_FIELDS + ["classes", "serialize_handlers"]
        for name, a, b in zip(names, before, after):
            if name == "user_agent" and a is None:
                continue  # the constructor replaces None by the default user agent
            if not plain_equal(a, b):
                ctx.violate(case, "Config.copy(): %s is %r in the original and %r in the copy" % (name, a, b), key="copy-drops:" + name)
        if cp.classes is cfg.classes or cp.serialize_handlers is cfg.serialize_handlers:
            ctx.violate(case, "Config.copy() shares a dictionary with the original", key="copy-shares")
        want_copy = pyval.enc(after, canon=True)
        # the per-request configuration of a 1.0-form request on a >= 2.0 server, as a handler sees it
        want_compat = None
        ver_ok = type(cfg.version) in (int, float) and cfg.version >= 2 and isinstance(cfg.serialize_method, str) \
            and isinstance(cfg.ignore_attribute, str) and cfg.serialize_method and cfg.ignore_attribute
        if ver_ok and cfg.use_jsonclass:
            seen = []

            def spy(obj, sm, ia, ig, config):
                seen.append(config)
                return "SPY"

            cfg.serialize_handlers[frozenset] = spy
            hid[spy] = 9
            before = _cfg_view(cfg, hid, MODEL_UA)
            from jsonrpclib.SimpleJSONRPCServer import SimpleJSONRPCDispatcher as D
            disp = D(config=cfg)
            disp.register_function(lambda: frozenset([1]), "get")
            impl.outcome(disp._marshaled_dispatch, json.dumps({"method": "get", "id": 1, "params": []}))
            if len(seen) == 1 and seen[0] is not cfg:
                view = _cfg_view(seen[0], hid, MODEL_UA, cfg)
                want_compat = pyval.enc(view, canon=True)
                for name, a, b in zip(names, before, view):
                    if name in ("serialize_method", "ignore_attribute", "serialize_handlers", "use_jsonclass", "classes") \
                            and not plain_equal(a, b):
                        ctx.violate(dict(case, before=json.loads(json.dumps(before, default=repr))),
                                    "1.0-form request on a %s server: the handler is handed a configuration whose %s is %r, the "
                                    "server's is %r" % (cfg.version, name, b, a), key="compat-drops:" + name)
                ctx.hist["copy/compat-observed"] += 1
            after2 = _cfg_view(cfg.copy(), hid, MODEL_UA, cfg)
            want_copy = pyval.enc(after2, canon=True)
        line = "cfgcopy " + pyval.enc(before)
        out.append((line, [want_copy] + ([want_compat] if want_compat else []), case))
        ctx.count(nontrivial_key=("copy", tuple(type(x).__name__ for x in before[:6]), len(before[6]), len(before[7])),
                  kind="copy/%s" % ("compat" if want_compat else "plain"))
    return out


def has_bytes(v, env, depth=0):
    if type(v) is bytes:
        return True
    if depth > 8:
        return False
    if isinstance(v, dict):
        return any(has_bytes(x, env, depth + 1) for x in v.values())
    if isinstance(v, (list, tuple, set, frozenset)):
        return any(has_bytes(x, env, depth + 1) for x in v)
    if type(v) in env.ids and env.by_id[env.ids[type(v)]]["kind"] in ("bean", "serial") and not env.by_id[env.ids[type(v)]].get("external"):
        return any(has_bytes(x, env, depth + 1) for _n, x in env.stored(v))
    return False


def direct_bytes_field(v, env, depth=0):
    """Some bean reachable from v holds bytes directly in an attribute."""
    if depth > 8:
        return False
    if isinstance(v, dict):
        return any(direct_bytes_field(x, env, depth + 1) for x in v.values())
    if isinstance(v, (list, tuple, set, frozenset)):
        return any(direct_bytes_field(x, env, depth + 1) for x in v)
    if type(v) in env.ids and env.by_id[env.ids[type(v)]]["kind"] in ("bean", "serial") and not env.by_id[env.ids[type(v)]].get("external"):
        return any(type(x) is bytes or direct_bytes_field(x, env, depth + 1) for _n, x in env.stored(v))
    return False


def _specs_plain(env):
    """The user class specs as a plain value of the codec (tuples kept), for exact replay."""
    out = []
    for s in env.specs:
        if s.get("external"):
            continue
        d = {}
        for k, x in s.items():
            if k in ("own", "members"):
                d[k] = [[n, v] for n, v in x]
            else:
                d[k] = x
        out.append(d)
    return out


def _decoder(env):
    def mk(cls, fields):
        fd = dict(fields)
        if cls == "datetime.timedelta":
            return [d for d in DATES if type(d) is datetime.timedelta and str(d) == fd["value"]][0]
        if cls in EXT_TYPES:
            return EXT_TYPES[cls].fromisoformat(fd["value"])
        if cls == "bytes":
            return bytes.fromhex(fd["hex"])
        if cls in EXOTIC_MAKE:
            return EXOTIC_MAKE[cls]()
        s = env.by_id[cls]
        c = env.cls[cls]
        if s["kind"] == "decimal":
            return c(fd["str"])
        if s["kind"] == "enum":
            try:
                return c[fd["name"]]
            except KeyError:
                return c(fd["value"])
        inst = c.__new__(c)
        for n, x in fields:
            setattr(inst, n, x)
        return inst
    return mk


def _replay_history(case):
    specs = pyval.from_tree(pyval.parse(case["specs_enc"]))
    for s in specs:
        for key in ("own", "members"):
            if key in s:
                s[key] = [tuple(x) for x in s[key]]
    env = Env20(EXTERNALS + specs).install()
    try:
        mk = _decoder(env)
        hist = {"names": case["names"], "handlers": case["handlers"], "use_jsonclass": case["use_jsonclass"],
                "values": [pyval.from_tree(pyval.parse(t), mk) for t in case["values_enc"]],
                "ops": pyval.from_tree(pyval.parse(case["ops_enc"]))}
        print("replaying a history on one Config(serialize_method=%r, ignore_attribute=%r), handlers %s:" % (
            hist["names"][0], hist["names"][1], hist["handlers"]))
        for i, v in enumerate(hist["values"]):
            print("  value #%d = %s" % (i, repr(v)[:300]))
        found = 0
        results = dict((r[0], r) for r in jchistory.run_history(env, hist))
        for n, op in enumerate(hist["ops"]):
            if n in results:
                _n, k, d, _c, hits, _p = results[n]
                print("  %2d. %s -> %s %s" % (n, jchistory.describe_ops([op]), k, repr(d)[:400]))
                for key, detail in hits:
                    print("VIOLATION reproduced [%s]: %s" % (key, detail))
                    found += 1
            else:
                print("  %2d. %s" % (n, jchistory.describe_ops([op])))
        if not found:
            print("no violation")
        return 1 if found else 0
    finally:
        env.uninstall()


def replay(payload):
    case = payload.get("case") or {}
    if case.get("side") == "path":
        print("replaying the path %s with Config(serialize_method=%r, ignore_attribute=%r), handlers: %s"
              % (case["path"], case["names"][0], case["names"][1], case["handlers"]))
        hits, k, out = path_verdicts(case["path"], tuple(case["names"]), case["handlers"])
        print("output ->", k, repr(out)[:900])
        for key, detail in hits:
            print("VIOLATION reproduced [%s]: %s" % (key, detail))
        if not hits:
            print("no violation")
        return 1 if hits else 0
    if case.get("side") == "path-history":
        phases = [(tuple(nm), hk) for nm, hk in case["phases"]]
        print("replaying the long-lived entry %s; its Config object goes through the settings %s" % (case["path"], phases))
        hits = path_history_verdicts(case["path"], phases)
        for key, detail in hits:
            print("VIOLATION reproduced [%s]: %s" % (key, detail))
        if not hits:
            print("no violation")
        return 1 if hits else 0
    if case.get("side") == "history":
        return _replay_history(case)
    if case.get("side") == "copy":
        print("replaying Config.copy() on a configuration with the attributes", case["before"])
        hits = copy_verdicts(case["before"])
        for d in hits:
            print("VIOLATION reproduced:", d)
        if not hits:
            print("no violation")
        return 1 if hits else 0
    print("replaying: value %s\nhandlers %s names %s args %s" % (case.get("value"), case.get("handlers"), case.get("cfg_names"),
                                                               case.get("args")))
    if not case.get("specs_enc"):
        return 0
    specs = pyval.from_tree(pyval.parse(case["specs_enc"]))
    for s in specs:
        for key in ("own", "members"):
            if key in s:
                s[key] = [tuple(x) for x in s[key]]
    env = Env20(EXTERNALS + specs).install()
    try:
        def mk(cls, fields):
            fd = dict(fields)
            if cls == "datetime.timedelta":
                return [d for d in DATES if type(d) is datetime.timedelta and str(d) == fd["value"]][0]
            if cls in EXT_TYPES:
                return EXT_TYPES[cls].fromisoformat(fd["value"])
            if cls == "bytes":
                return bytes.fromhex(fd["hex"])
            if cls in EXOTIC_MAKE:
                return EXOTIC_MAKE[cls]()
            s = env.by_id[cls]
            c = env.cls[cls]
            if s["kind"] == "decimal":
                return c(fd["str"])
            if s["kind"] == "enum":
                try:
                    return c[fd["name"]]
                except KeyError:
                    return c(fd["value"])
            inst = c.__new__(c)
            for n, x in fields:
                setattr(inst, n, x)
            return inst

        v = pyval.from_tree(pyval.parse(case["value_enc"]), mk)
        ig = pyval.from_tree(pyval.parse(case["ig_enc"])) if case.get("ig_enc") else None
        sm_arg, ia_arg = case["args"][0], case["args"][1]
        handlers = [(t, h) for t, h in case["handlers"]]
        k, d, hits, _pos, _cfg = run_case(env, tuple(case["cfg_names"]), handlers, (sm_arg, ia_arg, ig), v)
        print("dump ->", k, repr(d)[:600])
        if hits:
            for key, detail in hits:
                print("VIOLATION reproduced [%s]: %s" % (key, detail))
            return 1
        if k == "err":
            print("VIOLATION reproduced: dump raised %s: %s" % (type(d).__name__, d))
            return 1
        print("no violation")
        return 0
    finally:
        env.uninstall()
