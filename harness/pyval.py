"""
Line-protocol codec (DESIGN.md appendix A), Python side.

enc(value)            Python value -> token string understood by JRV.Driver.Codec
parse(text)           token string -> tree  (tag, payload)
emit(tree, canon)     tree -> token string; canon=True sorts dict entries and set members
canon(text)           parse + emit(canon=True): the form in which outputs are compared

Trees:  ('N',) ('T',) ('F',) ('I', int) ('D', neg, mant, exp) ('S', str)
        ('L'|'U'|'E'|'Z', [tree..]) ('M', [(ktree, vtree)..]) ('O', clsname, [(name, tree)..])
"""
import decimal
import math

_CTX = decimal.Context(prec=60)


class Unencodable(Exception):
    pass


def float_triple(f):
    """Shortest-repr decimal value of a finite float as (neg, mant, exp), mant without trailing zeros."""
    if math.isnan(f) or math.isinf(f):
        raise Unencodable("non-finite float")
    d = decimal.Decimal(repr(f))
    sign, digits, exp = d.as_tuple()
    mant = int("".join(map(str, digits)))
    if mant == 0:
        return (bool(sign), 0, 0)
    while mant % 10 == 0:
        mant //= 10
        exp += 1
    return (bool(sign), mant, exp)


def triple_float(neg, mant, exp):
    d = decimal.Decimal(mant).scaleb(exp, _CTX)
    f = float(d)
    return -f if neg else f


def hexs(s):
    return s.encode("utf-8").hex()


def to_tree(v, obj_hook=None):
    """Python value -> tree.  obj_hook(v) -> (clsname, [(field, value)..]) for instances."""
    if v is None:
        return ("N",)
    if v is True:
        return ("T",)
    if v is False:
        return ("F",)
    t = type(v)
    if t is int:
        return ("I", v)
    if t is float:
        return ("D",) + float_triple(v)
    if t is str:
        return ("S", v)
    if t is list:
        return ("L", [to_tree(x, obj_hook) for x in v])
    if t is tuple:
        return ("U", [to_tree(x, obj_hook) for x in v])
    if t is set:
        return ("E", sorted((to_tree(x, obj_hook) for x in v), key=lambda tr: emit(tr, True)))
    if t is frozenset:
        return ("Z", sorted((to_tree(x, obj_hook) for x in v), key=lambda tr: emit(tr, True)))
    if t is dict:
        return ("M", [(to_tree(k, obj_hook), to_tree(x, obj_hook)) for k, x in v.items()])
    if obj_hook is not None:
        r = obj_hook(v)
        if r is not None:
            cls, fields = r
            return ("O", cls, [(n, to_tree(x, obj_hook)) for n, x in fields])
    raise Unencodable("cannot encode %r of type %s" % (v, t.__name__))


def emit(tr, canon=False):
    tag = tr[0]
    if tag in ("N", "T", "F"):
        return tag
    if tag == "I":
        return "I%d" % tr[1]
    if tag == "D":
        return "D%s%de%d" % ("-" if tr[1] else "+", tr[2], tr[3])
    if tag == "S":
        return "S" + hexs(tr[1])
    if tag in ("L", "U"):
        return " ".join([tag + str(len(tr[1]))] + [emit(x, canon) for x in tr[1]])
    if tag in ("E", "Z"):
        items = [emit(x, canon) for x in tr[1]]
        if canon:
            items.sort()
        return " ".join([tag + str(len(items))] + items)
    if tag == "M":
        items = [(emit(k, canon), emit(v, canon)) for k, v in tr[1]]
        if canon:
            items.sort()
        return " ".join(["M" + str(len(items))] + [k + " " + v for k, v in items])
    if tag == "O":
        items = [(hexs(n), emit(v, canon)) for n, v in tr[2]]
        if canon:
            items.sort()
        return " ".join(["O%s:%d" % (hexs(tr[1]), len(items))] + [k + " " + v for k, v in items])
    raise ValueError("bad tree %r" % (tr,))


def enc(v, obj_hook=None, canon=False):
    return emit(to_tree(v, obj_hook), canon)


def _parse(toks, i):
    t = toks[i]
    i += 1
    tag = t[0]
    if t in ("N", "T", "F"):
        return (t,), i
    if tag == "I":
        return ("I", int(t[1:])), i
    if tag == "D":
        m, e = t[2:].split("e")
        return ("D", t[1] == "-", int(m), int(e)), i
    if tag == "S":
        return ("S", bytes.fromhex(t[1:]).decode("utf-8")), i
    if tag in "LUEZ":
        n = int(t[1:])
        xs = []
        for _ in range(n):
            x, i = _parse(toks, i)
            xs.append(x)
        return (tag, xs), i
    if tag == "M":
        n = int(t[1:])
        kvs = []
        for _ in range(n):
            k, i = _parse(toks, i)
            v, i = _parse(toks, i)
            kvs.append((k, v))
        return ("M", kvs), i
    if tag == "O":
        c, n = t[1:].split(":")
        fs = []
        for _ in range(int(n)):
            name = bytes.fromhex(toks[i]).decode("utf-8")
            v, i = _parse(toks, i + 1)
            fs.append((name, v))
        return ("O", bytes.fromhex(c).decode("utf-8"), fs), i
    raise ValueError("bad token %r" % t)


def parse(text):
    toks = text.split()
    tr, i = _parse(toks, 0)
    if i != len(toks):
        raise ValueError("trailing tokens in %r" % text)
    return tr


def parse_many(text):
    toks = text.split()
    out = []
    i = 0
    while i < len(toks):
        tr, i = _parse(toks, i)
        out.append(tr)
    return out


def canon(text):
    return " ".join(emit(t, True) for t in parse_many(text))


def from_tree(tr, obj_hook=None):
    """tree -> plain Python value (dicts/lists/...); instances through obj_hook(cls, fields) or a tagged tuple."""
    tag = tr[0]
    if tag == "N":
        return None
    if tag == "T":
        return True
    if tag == "F":
        return False
    if tag == "I":
        return tr[1]
    if tag == "D":
        return triple_float(tr[1], tr[2], tr[3])
    if tag == "S":
        return tr[1]
    if tag == "L":
        return [from_tree(x, obj_hook) for x in tr[1]]
    if tag == "U":
        return tuple(from_tree(x, obj_hook) for x in tr[1])
    if tag == "E":
        return set(from_tree(x, obj_hook) for x in tr[1])
    if tag == "Z":
        return frozenset(from_tree(x, obj_hook) for x in tr[1])
    if tag == "M":
        return {from_tree(k, obj_hook): from_tree(v, obj_hook) for k, v in tr[1]}
    if tag == "O":
        fields = [(n, from_tree(v, obj_hook)) for n, v in tr[2]]
        if obj_hook is not None:
            return obj_hook(tr[1], fields)
        return ("<obj>", tr[1], tuple(fields))
    raise ValueError(tr)
