"""
Deterministic scheduler for code written against `threading` / `queue` (DESIGN.md 3.6, C09-C11).

The code under test is run on real OS threads, but only one *managed* thread runs at a time
(baton passing): every managed thread owns a semaphore, the controller (the thread that calls
`Scheduler.run`) owns one.  A managed thread announces the synchronisation operation it is about to
perform and yields to the controller BEFORE performing it (lock releases included).  The controller
picks which enabled thread runs next (`chooser`), so a schedule is a list of thread choices.

 * a blocking operation whose condition does not hold makes the thread *disabled*;
 * an operation with a timeout takes its timeout branch only when no thread at all is enabled
   (expiry at quiescence); a wait with a ZERO timeout (`join(0)`, `result(0)`: a poll) never blocks: its thread is
   always enabled and the step takes the timeout branch exactly when the awaited condition does not hold;
 * `Thread.start()` raises RuntimeError for the start indices listed in `Scheduler.fail_starts` (environment choice,
   part of the program, so replayable); the step in which it happened is marked (`Step.fail`);
 * `Event.set()` of the kinds listed in `Scheduler.post_set` yields a second time AFTER the flag has been raised
   (`<kind>.published`): an event that publishes plain fields (a future's data / exception) is only as good as the
   order "fields first, flag last", and a reader must be able to run between the flag and the writer's next line;
 * no enabled thread and no pending timeout: the run is reported as a DEADLOCK (never hangs; a
   real-time watchdog is the backstop);
 * unmanaged threads (the controller) pass straight through every shim operation.

The module objects `shim_threading(s)` / `shim_queue(s)` are put in the place of the names
`threading` / `queue` in the globals of the module under test for the duration of one run
(`Scheduler.patched(module)`).
"""
import collections
import contextlib
import queue as _real_queue
import threading as _real_threading

Full = _real_queue.Full
Empty = _real_queue.Empty


class Abort(BaseException):
    """Raised inside managed threads when a run is torn down."""


class Op(object):
    __slots__ = ("label", "enabled", "can_timeout", "arg", "poll")

    def __init__(self, label, enabled, can_timeout, arg, poll=False):
        self.label = label
        self.enabled = enabled
        self.can_timeout = can_timeout
        self.arg = arg
        self.poll = poll  # zero time-out: never blocks, times out at once when the condition does not hold

    def is_enabled(self):
        return self.poll or self.enabled is None or self.enabled()

    def blocked(self):
        """The thread cannot proceed now and has no zero time-out (it may have a positive one)."""
        return not self.is_enabled()


class MThread(object):
    def __init__(self, role):
        self.role = role
        self.sem = _real_threading.Semaphore(0)
        self.ready = _real_threading.Semaphore(0)
        self.booting = True
        self.pending = None
        self.dead = False
        self.timed_out = False
        self.crash = None
        self.shim = None
        self.os = None
        self.prio = 0
        self.n_timeouts = 0

    def __repr__(self):
        return "<%s %s>" % (self.role, self.pending.label if self.pending else "-")


class Step(object):
    __slots__ = ("role", "label", "timeout", "res", "arg", "proj", "index", "fail")

    def __init__(self, index, role, label, timeout, arg):
        self.index = index
        self.role = role
        self.label = label
        self.timeout = timeout
        self.arg = arg
        self.res = None
        self.proj = None
        self.fail = False  # a Thread.start() raised during this step

    def token(self):
        return "%s:%s%s%s" % (self.role, self.label, ":timeout" if self.timeout else "", ":startfail" if self.fail else "")


class Scheduler(object):
    def __init__(self, chooser, max_steps=4000, watchdog=30.0):
        self.chooser = chooser
        self.max_steps = max_steps
        self.watchdog = watchdog
        self.threads = []
        self.by_ident = {}
        self.ctl = _real_threading.Semaphore(0)
        self.aborting = False
        self.trace = []
        self.current = None
        self.last = None
        self.n_workers = 0
        self.n_starts = 0  # Thread.start() calls so far (failed ones included)
        self.fail_starts = frozenset()  # indices of the Thread.start() calls that raise RuntimeError
        # kinds of Event whose set() is TWO scheduling points: `<kind>.set` before the flag is raised (as every operation)
        # and `<kind>.published` after it, before set() returns (opt-in: harness/poolcommon.py asks for "fut")
        self.post_set = frozenset()
        self.after_step = None  # callback(step)
        self.on_quiescent = None  # callback()
        self.status = None

    # ---- managed threads -------------------------------------------------------------------
    def me(self):
        return self.by_ident.get(_real_threading.get_ident())

    def spawn(self, role, fn, shim=None):
        """Starts a managed thread; it runs (alone) up to its first yield point, then waits."""
        t = MThread(role)
        t.shim = shim

        def boot():
            self.by_ident[_real_threading.get_ident()] = t
            try:
                fn()
            except Abort:
                pass
            except BaseException as ex:  # noqa: BLE001 - recorded, reported by the harness
                t.crash = ex
            finally:
                t.dead = True
                t.pending = None
                if t.booting:
                    t.booting = False
                    t.ready.release()
                elif not self.aborting:
                    self.ctl.release()

        t.os = _real_threading.Thread(target=boot, name="sched-" + role)
        t.os.daemon = True
        self.threads.append(t)
        t.os.start()
        if not t.ready.acquire(timeout=self.watchdog):
            raise RuntimeError("managed thread %s did not reach a yield point" % role)
        return t

    def yield_op(self, label, enabled=None, can_timeout=False, arg=None, poll=False):
        """
        Called by shim operations before they act.  Returns True when the operation must take its
        timeout branch.  Unmanaged callers return at once.
        """
        t = self.me()
        if t is None:
            return False
        if self.aborting:
            raise Abort()
        t.pending = Op(label, enabled, can_timeout, arg, poll)
        t.timed_out = False
        if t.booting:
            t.booting = False
            t.ready.release()
        else:
            self.ctl.release()
        t.sem.acquire()
        if self.aborting:
            raise Abort()
        return t.timed_out

    def note(self, res):
        """Attaches the observed result of the operation to the step being executed."""
        if self.last is not None and self.me() is self.current:
            self.last.res = res

    # ---- controller ------------------------------------------------------------------------
    def live(self):
        return [t for t in self.threads if not t.dead]

    def enabled_threads(self):
        return [t for t in self.threads if not t.dead and t.pending.is_enabled()]

    def run(self, until=None):
        """
        Runs managed threads until `until()` holds (checked between steps), every thread is dead,
        a deadlock, the step limit or the watchdog.  Returns the status string.
        """
        while True:
            if until is not None and until():
                self.status = "done"
                return self.status
            live = self.live()
            if not live:
                self.status = "done"
                return self.status
            en = [t for t in live if t.pending.is_enabled()]
            tmo = False
            if not en:
                if self.on_quiescent is not None:
                    self.on_quiescent()
                en = [t for t in live if t.pending.can_timeout]
                tmo = True
                if not en:
                    self.status = "deadlock"
                    return self.status
                # fairness between expiring time-outs: only the least often expired threads are candidates
                # (a priority chooser would otherwise expire the same idle worker for ever)
                least = min(t.n_timeouts for t in en)
                en = [t for t in en if t.n_timeouts == least]
            if len(self.trace) >= self.max_steps:
                self.status = "steplimit"
                return self.status
            t = self.chooser.choose(self, en, tmo)
            # a poll takes its time-out branch exactly when the awaited condition does not hold now
            step_tmo = tmo or (t.pending.poll and t.pending.enabled is not None and not t.pending.enabled())
            st = Step(len(self.trace), t.role, t.pending.label, step_tmo, t.pending.arg)
            self.trace.append(st)
            self.last = st
            self.current = t
            t.timed_out = step_tmo
            if tmo:
                t.n_timeouts += 1
            t.sem.release()
            if not self.ctl.acquire(timeout=self.watchdog):
                self.status = "watchdog"
                return self.status
            if self.after_step is not None:
                self.after_step(st)

    def shutdown(self):
        """Tears every managed thread down (no OS thread is left behind).  Returns leaked count."""
        self.aborting = True
        for t in self.threads:
            t.sem.release()
            t.sem.release()
        leaked = 0
        for t in self.threads:
            if t.os is not None:
                t.os.join(5.0)
                if t.os.is_alive():
                    leaked += 1
        return leaked

    @contextlib.contextmanager
    def patched(self, module):
        old_t, old_q = module.threading, module.queue
        module.threading = ShimThreading(self)
        module.queue = ShimQueueModule(self)
        try:
            yield
        finally:
            module.threading = old_t
            module.queue = old_q


# ---- shim objects ------------------------------------------------------------------------------


class SEvent(object):
    def __init__(self, s, kind="fut"):
        self._s = s
        self._flag = False
        self.kind = kind

    def is_set(self):
        self._s.yield_op(self.kind + ".is_set")
        self._s.note(self._flag)
        return self._flag

    isSet = is_set

    def set(self):
        self._s.yield_op(self.kind + ".set")
        self._flag = True
        if self.kind in self._s.post_set:
            # second scheduling point of a publishing operation: the flag is up (waiters are enabled, is_set() answers
            # True) but set() has not returned to its caller yet - whatever the caller still writes after the call is
            # written AFTER this point, and any other thread may run in between
            self._s.yield_op(self.kind + ".published")

    def clear(self):
        self._s.yield_op(self.kind + ".clear")
        self._flag = False

    def wait(self, timeout=None):
        if self._s.me() is None:
            return self._flag
        to = self._s.yield_op(self.kind + ".wait", enabled=lambda: self._flag, can_timeout=timeout is not None,
                              poll=_is_zero(timeout))
        self._s.note(not to)
        return not to and self._flag


def _is_zero(timeout):
    """A zero (or negative) time-out: the wait is a poll."""
    try:
        return timeout is not None and timeout <= 0
    except TypeError:
        return False


class SRLock(object):
    def __init__(self, s):
        self._s = s
        self.owner = None
        self.depth = 0

    def acquire(self, blocking=True, timeout=-1):
        t = self._s.me()
        if t is None:
            if self.owner not in (None, "ext"):
                raise RuntimeError("unmanaged thread would block on a lock")
            self.owner = "ext"
            self.depth += 1
            return True
        self._s.yield_op("lock.acquire", enabled=lambda: self.owner is None or self.owner is t)
        self.owner = t
        self.depth += 1
        return True

    def release(self):
        t = self._s.me()
        if t is not None:
            self._s.yield_op("lock.release")
        if self.depth <= 0 or (t is not None and self.owner is not t):
            raise RuntimeError("cannot release un-acquired lock")
        self.depth -= 1
        if self.depth == 0:
            self.owner = None

    def __enter__(self):
        self.acquire()
        return self

    def __exit__(self, *exc):
        self.release()
        return False


class SLock(object):
    """
    Non re-entrant lock whose critical sections contain no yield point (FutureResult's callback lock):
    never contended under baton passing, so it is not a scheduling point.
    """

    def __init__(self, s):
        self._s = s
        self.held = False

    def acquire(self, blocking=True, timeout=-1):
        if self._s.aborting and self._s.me() is not None:
            raise Abort()
        if self.held:
            raise RuntimeError("plain Lock contended: a yield point sits inside its critical section")
        self.held = True
        return True

    def release(self):
        self.held = False

    def locked(self):
        return self.held

    def __enter__(self):
        self.acquire()
        return self

    def __exit__(self, *exc):
        self.release()
        return False


class SThread(object):
    def __init__(self, s, group=None, target=None, name=None, args=(), kwargs=None, daemon=None):
        self._s = s
        self._target = target
        self._args = args
        self._kwargs = kwargs or {}
        self.name = name
        self.daemon = daemon
        self.m = None
        self.role = None

    def start(self):
        s = self._s
        idx = s.n_starts
        s.n_starts += 1
        if idx in s.fail_starts:
            # environment: the OS refuses a new thread (what CPython reports as RuntimeError("can't start new thread"))
            if s.last is not None and s.me() is s.current:
                s.last.fail = True
            raise RuntimeError("can't start new thread")
        self.role = "w%d" % s.n_workers
        s.n_workers += 1
        self.m = s.spawn(self.role, lambda: self._target(*self._args, **self._kwargs), shim=self)

    def is_alive(self):
        self._s.yield_op("thread.is_alive", arg=self.role)
        res = self.m is not None and not self.m.dead
        self._s.note(res)
        return res

    def join(self, timeout=None):
        if self._s.me() is None:
            return
        self._s.yield_op("thread.join", enabled=lambda: self.m is None or self.m.dead,
                         can_timeout=timeout is not None, arg=self.role)


class _Waiter(object):
    __slots__ = ("notified",)

    def __init__(self):
        self.notified = False


class SCondition(object):
    """`Queue.all_tasks_done`: the queue mutex is a leaf lock (no yield inside), only `wait` blocks."""

    def __init__(self, s, q):
        self._s = s
        self._q = q
        self.waiters = []

    def __enter__(self):
        self._s.yield_op("cond.acquire")
        return self

    def __exit__(self, *exc):
        return False

    def acquire(self):
        self.__enter__()
        return True

    def release(self):
        pass

    def wait(self, timeout=None):
        w = _Waiter()
        self.waiters.append(w)
        to = self._s.yield_op("cond.wait", enabled=lambda: w.notified, can_timeout=timeout is not None,
                              poll=_is_zero(timeout))
        self.waiters = [x for x in self.waiters if x is not w]
        return not to

    def notify_all(self):
        for w in self.waiters:
            w.notified = True


class SQueue(object):
    def __init__(self, s, maxsize=0):
        self._s = s
        self.maxsize = maxsize
        self.queue = collections.deque()
        self.unfinished_tasks = 0
        self.all_tasks_done = SCondition(s, self)
        self.on_get = None  # observation hook: on_get(item, role, nowait)

    def _full(self):
        return self.maxsize > 0 and len(self.queue) >= self.maxsize

    def qsize(self):
        self._s.yield_op("queue.qsize")
        return len(self.queue)

    def empty(self):
        self._s.yield_op("queue.empty")
        return not self.queue

    def full(self):
        self._s.yield_op("queue.full")
        return self._full()

    def put(self, item, block=True, timeout=None):
        if self._s.me() is None:
            if self._full():
                raise Full
        elif not block:
            self._s.yield_op("queue.put_nowait")
            if self._full():
                raise Full
        else:
            to = self._s.yield_op("queue.put", enabled=lambda: not self._full(), can_timeout=timeout is not None)
            if to:
                self._s.note("Full")
                raise Full
        self.queue.append(item)
        self.unfinished_tasks += 1

    def put_nowait(self, item):
        return self.put(item, False)

    def get(self, block=True, timeout=None):
        t = self._s.me()
        if t is None or not block:
            if t is not None:
                self._s.yield_op("queue.get_nowait")
            if not self.queue:
                self._s.note("Empty")
                raise Empty
            nowait = True
        else:
            to = self._s.yield_op("queue.get", enabled=lambda: bool(self.queue), can_timeout=timeout is not None)
            if to:
                self._s.note("Empty")
                raise Empty
            nowait = False
        item = self.queue.popleft()
        if self.on_get is not None:
            self.on_get(item, t.role if t is not None else None, nowait)
        return item

    def get_nowait(self):
        return self.get(False)

    def task_done(self):
        self._s.yield_op("queue.task_done")
        n = self.unfinished_tasks - 1
        if n <= 0:
            if n < 0:
                raise ValueError("task_done() called too many times")
            self.all_tasks_done.notify_all()
        self.unfinished_tasks = n

    def join(self):
        self._s.yield_op("queue.join", enabled=lambda: self.unfinished_tasks == 0)


class ShimThreading(object):
    def __init__(self, s):
        self._s = s
        self._dummy = SThread(s, name="client")

    def Event(self):
        return SEvent(self._s)

    def RLock(self):
        return SRLock(self._s)

    def Lock(self):
        return SLock(self._s)

    def Thread(self, group=None, target=None, name=None, args=(), kwargs=None, daemon=None):
        return SThread(self._s, group, target, name, args, kwargs, daemon)

    def current_thread(self):
        t = self._s.me()
        if t is not None and t.shim is not None:
            return t.shim
        return self._dummy

    currentThread = current_thread

    def Condition(self, lock=None):
        raise NotImplementedError("Condition is only available as Queue.all_tasks_done in this shim")


class ShimQueueModule(object):
    Full = Full
    Empty = Empty

    def __init__(self, s):
        self._s = s

    def Queue(self, maxsize=0):
        return SQueue(self._s, maxsize)


# ---- choosers ----------------------------------------------------------------------------------


class RandomChooser(object):
    """Uniform choice among the enabled threads, from one PRNG."""

    def __init__(self, rng):
        self.rng = rng

    def choose(self, s, en, tmo):
        return en[self.rng.randrange(len(en))] if len(en) > 1 else en[0]


class StickyChooser(object):
    """Keeps running the current thread with probability `stick` (long runs, few context switches)."""

    def __init__(self, rng, stick=0.8):
        self.rng = rng
        self.stick = stick

    def choose(self, s, en, tmo):
        if s.current in en and self.rng.random() < self.stick:
            return s.current
        return en[self.rng.randrange(len(en))]


class PCTChooser(object):
    """
    PCT-style: every thread gets a random distinct priority on creation, the highest-priority
    enabled thread runs; at `depth` random step indices the running thread drops below all others.
    """

    def __init__(self, rng, depth, horizon):
        self.rng = rng
        self.points = sorted(rng.randrange(1, max(2, horizon)) for _ in range(depth))
        self.low = 0
        self.prio = {}

    def _p(self, t):
        if t.role not in self.prio:
            self.prio[t.role] = self.rng.random() + 1.0
        return self.prio[t.role]

    def choose(self, s, en, tmo):
        n = len(s.trace)
        while self.points and self.points[0] <= n:
            self.points.pop(0)
            if s.current is not None:
                self.low -= 1
                self.prio[s.current.role] = self.low
        return max(en, key=self._p)


class LazyChooser(object):
    """
    Wraps another chooser: the threads whose role is in `lazy` (the client that only opens gates) are chosen only
    when no other thread is enabled (time-outs still expire only when nothing at all is enabled, so a lazy thread
    always runs before any time-out).  Makes "the gate opens once everybody else is blocked" histories - stop()
    called while a gate-blocked task is running - the rule instead of a rare coincidence.
    """

    def __init__(self, base, lazy):
        self.base = base
        self.lazy = frozenset(lazy)

    @property
    def alts(self):
        return self.base.alts

    def choose(self, s, en, tmo):
        if not tmo and len(en) > 1:
            eager = [t for t in en if t.role not in self.lazy]
            if eager:
                en = eager
        return self.base.choose(s, en, tmo)


class ReplayChooser(object):
    """Follows an explicit list of roles; afterwards (or on a miss) non-preemptive, lowest role first."""

    def __init__(self, roles):
        self.roles = list(roles)
        self.misses = 0

    def choose(self, s, en, tmo):
        n = len(s.trace)
        if n < len(self.roles):
            for t in en:
                if t.role == self.roles[n]:
                    return t
            self.misses += 1
        if s.current in en:
            return s.current
        return en[0]


class PrefixChooser(object):
    """
    For bounded-preemption DFS: follows `prefix` (roles), then runs non-preemptively (current thread
    while enabled, else the first enabled).  Records, for every step, the alternatives that were
    available, so the caller can branch.
    """

    def __init__(self, prefix):
        self.prefix = list(prefix)
        self.alts = []  # per step: (chosen role, [enabled roles], current role enabled?)

    def choose(self, s, en, tmo):
        n = len(s.trace)
        roles = [t.role for t in en]
        cur = s.current.role if (s.current is not None and s.current in en) else None
        pick = None
        if n < len(self.prefix):
            for t in en:
                if t.role == self.prefix[n]:
                    pick = t
                    break
        if pick is None:
            pick = s.current if cur is not None else en[0]
        self.alts.append((pick.role, roles, cur))
        return pick
