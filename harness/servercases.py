"""
Shared machinery of the server-side properties C02, C03, C04, C05.

* registry descriptors (JSON-able: they go into replay files) from which both the model registry
  (tokens for the `srv` component of lean/JRV/Driver/Server.lean) and a *real*
  `SimpleJSONRPCDispatcher` are built: functions are `exec`-generated `def`s with the described signature
  that log their invocation and then return / raise as described; the instance is a tree of function
  objects and plain namespaces; `_dispatch` and custom dispatch functions are tables by method name;
* request generators (systematic member alphabet, batches, damaged texts, descriptor-bearing bodies);
* the runner: real `_marshaled_dispatch` (and `do_POST` through a fake connection) + the model on the
  parse outcome that the real `jsonrpclib.loads` produced;
* canonicalisation of replies, error messages and effect logs;
* the `expectation` oracle used by the monitors: written from the property texts and from Python's own
  call binding (`f(*params)` on a recorder with the same signature) — it does not look at the model.

Descriptor shapes (all JSON-able)
  sig       [names, ndefaults, star, kw]
  beh       ["ret", value] | ["echo"] (dispatch functions only: returns params)
            | ["raise", class name, text]                 raised by a helper called from the function body (depth 2)
            | ["raise", class name, text | None, {"depth": 1|2|3, "args": [..]}]
                                                          depth 1: `raise` in the generated def's own frame; 3: two helpers
                                                          down; "args": the exception is built as cls(*args) (markers below)
            | ["expr", "concat"|"len"|"miscall"|"nonecall"]   a TypeError produced by an expression of the def's own body
            | ["opaque", kind, spec]                      a callable that is not a plain generated def:
                                                          "builtin" name | "partial" {sig, beh, bound} | "object" {sig, beh}
                                                          | "deco" {sig, beh}; its behaviour on each argument value is
                                                          observed on a twin by Python itself (see observe_opaque)
  callable  [sig, beh]
  attr      [callable | None, [[name, attr], ...]]  |  "none" (an attribute bound to None)
  dispfn    beh | ["table", {method: beh}, default beh]
  registry  {"funcs": [[name, callable], ...], "inst": None | {"dispatch": dispfn | None, "attrs": [[name, attr], ...]},
             "custom": dispfn | None}
  value markers: "$RaisingSerialize" an instance whose `_serialize` raises ValueError; "$TupleKey" {(1, 2): 3};
  "$Set" {1}; "$BigInt" 10**5000 (json.dumps raises ValueError); exception argument markers "$bytes", "$opaque",
  "$frozenset", "$tuple", "$exc".
"""
import builtins
import datetime
import decimal
import fractions
import functools
import inspect
import io
import itertools
import email.message
import json
import math
import queue
import re
import threading
import types
import uuid

import gen
import impl
import pyval

jsonrpclib = impl.jsonrpclib
import jsonrpclib.SimpleJSONRPCServer as S  # noqa: E402
import jsonrpclib.threadpool  # noqa: E402

# --------------------------------------------------------------------------------------------
# classes used by callables and descriptors


class MyError(Exception):
    pass


class MyTypeError(TypeError):
    pass


class MyAttrError(AttributeError):
    pass


class RaisingSerialize(object):
    def _serialize(self):
        raise ValueError("cannot serialize")


class Bean(object):
    """A side-effect-free local class for `config.classes`."""

    def __init__(self, x=0):
        self.x = x


class Opaque(object):
    """A value without JSON form and with an address-free repr (exception argument)."""

    def __repr__(self):
        return "<opaque>"


# Every *ordinary* builtin exception class (subclass of Exception) plus the three user classes.  Outside the domain of the
# properties (C05: "single-line messages ... no SyntaxError-style multi-part rendering"): the SyntaxError family and
# exception groups; SystemExit / KeyboardInterrupt / GeneratorExit are not subclasses of Exception ("ordinary").
MULTIPART = ("SyntaxError", "IndentationError", "TabError", "ExceptionGroup", "BaseExceptionGroup")
EXC = dict((c.__name__, c) for c in vars(builtins).values()
           if isinstance(c, type) and issubclass(c, Exception) and c.__name__ not in MULTIPART)
EXC.update((c.__name__, c) for c in [MyError, MyTypeError, MyAttrError])


class MyBaseError(BaseException):
    """A user class deriving from BaseException directly (not an Exception)."""


class MyExit(SystemExit):
    """A subclass of SystemExit."""


# The exception KIND that `EXC` leaves out: BaseExceptions that are NOT instances of Exception — what `sys.exit()` in a "quit"
# handler raises, KeyboardInterrupt, GeneratorExit, asyncio's CancelledError, user classes deriving from BaseException
# directly.  The property texts of C03/C04 say "all method outcomes (return, raise, …)": these are outcomes too (C05 restricts
# itself to "ordinary exception classes", and C02 is not asked about them).  Only the input class of
# harness/servercases_base.py (em["baseexc"]) uses them; `random_raise` draws from `EXC` alone.
import asyncio  # noqa: E402
BASE_EXC = dict((c.__name__, c) for c in [SystemExit, KeyboardInterrupt, GeneratorExit, BaseException, asyncio.CancelledError,
                                          MyBaseError, MyExit])
assert not any(issubclass(c, Exception) for c in BASE_EXC.values())


def exc_class(name):
    return EXC[name] if name in EXC else BASE_EXC[name]


# classes whose constructor wants a fixed argument list
SPECIAL_ARGS = {
    "UnicodeDecodeError": ["utf-8", "$bytes", 0, 1, "invalid start byte"],
    "UnicodeEncodeError": ["ascii", "\u00e9", 0, 1, "ordinal not in range(128)"],
    "UnicodeTranslateError": ["\u00e9", 0, 1, "character maps to <undefined>"],
}

RAISING = "$RaisingSerialize"
TUPLEKEY = "$TupleKey"
SETVAL = "$Set"
BIGINT = "$BigInt"
VALUE_MARKERS = {RAISING: lambda: RaisingSerialize(), TUPLEKEY: lambda: {(1, 2): 3}, SETVAL: lambda: {1},
                 BIGINT: lambda: 10 ** 5000}
ARG_MARKERS = {"$bytes": lambda: b"\xff\x00", "$opaque": lambda: Opaque(), "$frozenset": lambda: frozenset([1]),
               "$tuple": lambda: (1, "x"), "$exc": lambda: ValueError("inner")}


def materialise(v):
    if isinstance(v, str) and v in VALUE_MARKERS:
        return VALUE_MARKERS[v]()
    return v


def make_exc(beh):
    """The exception instance of a `raise` behaviour."""
    cls = exc_class(beh[1])
    opts = beh[3] if len(beh) > 3 else {}
    args = opts.get("args")
    if args is None and beh[1] in SPECIAL_ARGS and beh[2] is None:
        args = SPECIAL_ARGS[beh[1]]
    if args is not None:
        return cls(*[ARG_MARKERS[a]() if isinstance(a, str) and a in ARG_MARKERS else a for a in args])
    return cls(beh[2])


def beh_depth(beh):
    return (beh[3] if len(beh) > 3 else {}).get("depth", 2)


EXPR_SOURCE = {"concat": 'return "item-" + 5', "len": "return len(5)", "miscall": "return _noargs(1)",
               "nonecall": "return _none()"}


def _noargs():
    return None


def expr_error(kind):
    """The TypeError the expression of an `expr` behaviour produces (evaluated by Python, not taken from the code under test)."""
    env = {"_noargs": _noargs, "_none": None}
    exec("def _e():\n    %s\n" % EXPR_SOURCE[kind], env)  # noqa: S102
    try:
        env["_e"]()
    except TypeError as ex:
        return ex
    raise AssertionError("expression %s did not raise" % kind)


def raised_exception(beh):
    """The exception a raising behaviour produces (`raise` / `expr`), else None."""
    if beh[0] == "raise":
        return make_exc(beh)
    if beh[0] == "expr":
        return expr_error(beh[1])
    return None


class ModelObj(object):
    """An instance as the model prints it (class name + fields)."""

    def __init__(self, cls, fields):
        self.cls = cls
        self.fields = fields


def obj_hook(v):
    """Instance -> (class name, fields) for the line protocol."""
    if isinstance(v, ModelObj):
        return (v.cls, v.fields)
    if isinstance(v, (decimal.Decimal, fractions.Fraction, complex)):
        return (type(v).__name__, [("repr", str(v))])
    if isinstance(v, (bytes, bytearray)):
        # an instance for the model (no JSON form, not a JSON string): where Python treats bytes otherwise — falsy when
        # empty, accepted as a method name by validate_request — parse_outcome declines the case (model_faithful)
        return (type(v).__name__, [("hex", bytes(v).hex())])
    if isinstance(v, (datetime.date, datetime.time, datetime.timedelta, uuid.UUID)):
        return (type(v).__name__, [("repr", repr(v))])
    if isinstance(v, (RaisingSerialize, Bean, types.SimpleNamespace)):
        return (type(v).__name__, sorted(vars(v).items()))
    return None


_JSON_LIKE = (type(None), bool, int, float, str, list, tuple, dict, set, frozenset)


def model_faithful(v, depth=0):
    """Does the model's reading of instances hold for this loaded request?  The server model assumes that instances of
    translated classes are truthy and are not strings (harness assumption recorded in standard_run): a falsy instance
    (b'', Decimal(0), timedelta(0)) anywhere, or bytes bound to a `method` member (bytes pass `isinstance(method,
    STRING_TYPES)`), is outside it — such cases are run and judged by the monitors, not compared with the model."""
    if depth > 60:
        return True
    if not isinstance(v, _JSON_LIKE):
        try:
            return bool(v)
        except Exception:  # noqa: BLE001
            return False
    if isinstance(v, dict):
        if isinstance(v.get("method"), (bytes, bytearray)):
            return False
        return all(model_faithful(k, depth + 1) and model_faithful(x, depth + 1) for k, x in v.items())
    if isinstance(v, (list, tuple, set, frozenset)):
        return all(model_faithful(x, depth + 1) for x in v)
    return True


def enc(v):
    return pyval.enc(v, obj_hook)


def from_model(tree):
    return pyval.from_tree(tree, lambda cls, fields: ModelObj(cls, fields))


# --------------------------------------------------------------------------------------------
# descriptors -> model tokens


def _enc_exc(ex, depth):
    # the model is given the class of the instance (OSError(2, ..) is a FileNotFoundError) and `str(exception)` — and the KIND:
    # an exception that is not an instance of Exception is a `CallOutcome.raisedBase`
    if not isinstance(ex, Exception):
        return ["raisebase", type(ex).__name__, str(ex), depth]
    return ["raise", type(ex).__name__, str(ex), isinstance(ex, TypeError), isinstance(ex, AttributeError), depth]


def _model_value(v):
    """A result as the model is given it; an integer beyond the int/str conversion limit cannot even be written on the line
    protocol: the marker stands in (cases that return it are not compared with the model, see run_real)."""
    if isinstance(v, int) and not isinstance(v, bool) and abs(v) >= 10 ** 4000:
        return BIGINT
    return v


def _enc_beh(b, observed=None):
    if b[0] == "ret":
        return ["ret", _model_value(materialise(b[1]))]
    if b[0] == "echo":
        return ["echo"]
    if b[0] == "expr":
        return _enc_exc(expr_error(b[1]), 1)
    if b[0] == "opaque":
        rows = []
        for params, out in (observed or {}).get(opaque_key(b), []):
            rows.append([params, ["ret", _model_value(out[1])] if out[0] == "ret" else _enc_exc(out[1], out[2])])
        return ["ptable", rows, ["ret", "<argument value not observed>"]]
    return _enc_exc(make_exc(b), beh_depth(b))


def _enc_dispfn(d):
    if d is None:
        return None
    if d[0] == "table":
        return ["table", dict((m, _enc_beh(b)) for m, b in d[1].items()), _enc_beh(d[2])]
    return _enc_beh(d)


def _enc_callable(c, observed=None):
    return [list(c[0]), _enc_beh(c[1], observed)]


def _enc_attr(a, observed=None):
    if a == "none":
        return "none"
    return [None if a[0] is None else _enc_callable(a[0], observed), [[n, _enc_attr(x, observed)] for n, x in a[1]]]


def enc_registry(desc, observed=None):
    """`observed`: {opaque key: [(params, outcome), ..]} — what each opaque callable does on the argument values of the
    case (observe_opaque)."""
    inst = desc.get("inst")
    struct = {
        "funcs": [[n, _enc_callable(c, observed)] for n, c in desc.get("funcs", [])],
        "inst": None if inst is None else {
            "dispatch": _enc_dispfn(inst.get("dispatch")),
            "attrs": [[n, _enc_attr(a, observed)] for n, a in inst.get("attrs", [])]},
        "custom": _enc_dispfn(desc.get("custom")),
    }
    return enc(struct)


def enc_sig(sig):
    return enc(list(sig))


def enc_cfg(ver, uj):
    return enc([int(round(ver * 10)), bool(uj)])


POOL_TOKEN = {"absent": "N", "accepting": "T", "full": "F"}

# --------------------------------------------------------------------------------------------
# descriptors -> real callables

_D = type("_Default", (), {"__repr__": lambda self: "<default>"})()


def _main_thread():
    return threading.current_thread() is threading.main_thread()


def _run_beh(b, params):
    if b[0] == "ret":
        return materialise(b[1])
    if b[0] == "echo":
        return params
    if b[0] == "expr":
        raise expr_error(b[1])
    raise make_exc(b)


def _run_beh3(b, params):
    return _run_beh(b, params)


def make_def(sig, name, target, beh, log, first=None):
    """A real `def` with the described signature; logs (target, name, callee view, in main thread) and then behaves:
    the `raise` statement or the TypeError-producing expression stands in the def's *own* body when the behaviour says
    depth 1 (the traceback then ends in the frame of the registered function itself), in a helper for depth 2, two
    helpers down for depth 3.  `first`: name of a leading parameter (`self` of a `__call__`)."""
    names, nd, star, kw = sig
    nreq = len(names) - nd
    ps = ([first] if first else []) + [n if i < nreq else "%s=_D" % n for i, n in enumerate(names)]
    if star:
        ps.append("*args")
    if kw:
        ps.append("**kwargs")
    if beh[0] == "expr":
        action = EXPR_SOURCE[beh[1]]
    elif beh[0] == "raise" and beh_depth(beh) == 1:
        action = "raise _mk(_beh)"
    elif beh[0] == "raise" and beh_depth(beh) == 3:
        action = "return _run3(_beh, None)"
    else:
        action = "return _run(_beh, None)"
    src = "def _f(%s):\n    _log.append(('call', _target, _name, ([%s], %s, %s), _main()))\n    %s\n" % (
        ", ".join(ps), ", ".join(names), "list(args)" if star else "[]", "dict(kwargs)" if kw else "{}", action)
    env = {"_D": _D, "_log": log, "_target": target, "_name": name, "_main": _main_thread, "_run": _run_beh, "_run3": _run_beh3,
           "_mk": make_exc, "_beh": beh, "_noargs": _noargs, "_none": None}
    exec(src, env)  # noqa: S102 - generated from a closed grammar of identifiers
    f = env["_f"]
    f.__name__ = "generated"
    return f


# ---- opaque callables: builtins, partials, callable objects, decorated functions

BUILTINS = {"len": len, "dict": dict, "abs": abs, "divmod": divmod, "sorted": sorted}
SIG_ANY = [[], 0, True, True]


def opaque_key(beh):
    return json.dumps(beh[1:], sort_keys=True)


def make_opaque(beh, name, target, log):
    """The registered object of an `opaque` behaviour."""
    kind, spec = beh[1], beh[2]
    if kind == "builtin":
        return BUILTINS[spec]
    if kind == "partial":
        return functools.partial(make_def(spec["sig"], name, target, spec["beh"], log), *spec.get("bound", []))
    if kind == "object":
        cls = type("CallableObject", (object,), {"__call__": make_def(spec["sig"], name, target, spec["beh"], log, first="self")})
        return cls()
    if kind == "deco":
        inner = make_def(spec["sig"], name, target, spec["beh"], log)

        def wrapper(*args, **kwargs):
            return inner(*args, **kwargs)
        return wrapper
    if kind == "intro":
        # one of the functions of register_introspection_functions(), on a twin dispatcher with the same names registered
        import servercases_names as sn
        return sn.intro_twin(spec)
    raise ValueError("unknown opaque kind %r" % (kind,))


def call_with(f, params):
    """The call convention of the properties: a positional list is spread, a keyword map is passed by name."""
    if isinstance(params, list):
        return f(*params)
    return f(**params)


def observe(f, params):
    """What the callable does on this argument value, by Python itself: ('ret', value) or ('raise', exception, depth) with
    depth = number of traceback entries below the calling frame (0: the exception carries no frame of the callee)."""
    try:
        # the call is made from this very frame, like `func(*params)` in the frame of `_dispatch`
        if isinstance(params, list):
            return ("ret", f(*params))
        return ("ret", f(**params))
    except (Exception,) + tuple(BASE_EXC.values()) as ex:  # noqa: BLE001
        depth = 0
        tb = ex.__traceback__.tb_next
        while tb is not None:
            depth += 1
            tb = tb.tb_next
        return ("raise", ex, depth)


def opaque_callables(desc):
    """[(target, dotted name, beh)] of the opaque callables of a registry."""
    out = []
    for n, c in desc.get("funcs", []):
        if c[1][0] == "opaque":
            out.append(("func", n, c[1]))

    def walk(prefix, children):
        for n, a in children:
            if a == "none":
                continue
            if a[0] is not None and a[0][1][0] == "opaque":
                out.append(("attr", prefix + n, a[0][1]))
            walk(prefix + n + ".", a[1])
    walk("", (desc.get("inst") or {}).get("attrs", []))
    return out


def opaque_names(desc):
    return set((t, n) for t, n, _b in opaque_callables(desc))


def request_params(loaded):
    """The `params` values of the entries of a loaded request body (what the dispatcher will hand to the callables)."""
    entries = loaded if isinstance(loaded, list) else [loaded]
    out = []
    for e in entries:
        if isinstance(e, dict):
            p = e.get("params", [])
            if isinstance(p, (list, dict)) and p not in out:
                out.append(p)
    return out


def observe_opaque(desc, loaded):
    """{opaque key: [(params, outcome)]}: every opaque callable of the registry run on a twin with every argument value of
    the request, and whether the twin's inner def was entered (for the invocation counters)."""
    obs = {}
    ps = None
    for target, name, beh in opaque_callables(desc):
        k = opaque_key(beh)
        if k in obs:
            continue
        if ps is None:
            ps = request_params(loaded)
        rows = []
        for p in ps:
            tmp = []
            out = observe(make_opaque(beh, name, target, tmp), p)
            rows.append((p, out + (len(tmp),)))
        obs[k] = rows
    return obs


def make_dispfn(d, target, log):
    def fn(method, params):
        log.append(("call", target, method, params, _main_thread()))
        if d[0] == "table":
            b = d[1].get(method, d[2]) if isinstance(method, str) else d[2]
        else:
            b = d
        return _run_beh(b, params)
    return fn


def make_callable(c, name, target, log):
    if c[1][0] == "opaque":
        return make_opaque(c[1], name, target, log)
    return make_def(c[0], name, target, c[1], log)


def make_attr(a, path, log):
    if a == "none":
        return None
    c, children = a
    if c is not None:
        node = make_callable(c, path, "attr", log)
    else:
        node = types.SimpleNamespace()
    for n, x in children:
        setattr(node, n, make_attr(x, path + "." + n, log))
    return node


class _Instance(object):
    pass


class PoolProxy(object):
    """Stands between the dispatcher and a real ThreadPool: records what is enqueued."""

    def __init__(self, real, log, custom_fn, full):
        self.real = real
        self.log = log
        self.custom_fn = custom_fn
        self.full = full

    def enqueue(self, method, *args, **kwargs):
        is_custom = self.custom_fn is not None and method is self.custom_fn
        ver = None
        if not is_custom and len(args) > 2:
            ver = args[2].version
        self.log.append(("enqueue", is_custom, args[0] if args else None, args[1] if len(args) > 1 else None, ver))
        if self.full:
            raise queue.Full()
        return self.real.enqueue(method, *args, **kwargs)


_shared_pool = []


def shared_pool():
    if not _shared_pool:
        p = jsonrpclib.threadpool.ThreadPool(max_threads=3, min_threads=1, logname="verif-notif-pool")
        p.start()
        _shared_pool.append(p)
    return _shared_pool[0]


def stop_shared_pool():
    while _shared_pool:
        _shared_pool.pop().stop()


class Real(object):
    """A real dispatcher built from a registry descriptor."""

    def __init__(self, desc, ver, uj, pool):
        self.desc = desc
        self.log = []
        self.cfg = jsonrpclib.config.Config(version=ver, use_jsonclass=uj)
        self.cfg.classes.add(Bean)
        self.disp = S.SimpleJSONRPCDispatcher(config=self.cfg)
        self.funcs = {}
        for name, c in desc.get("funcs", []):
            f = make_callable(c, name, "func", self.log)
            self.funcs[name] = f
            self.disp.register_function(f, name)
        if desc.get("introspection"):
            # the real thing: system.listMethods / system.methodHelp / system.methodSignature of THIS dispatcher (the descriptor
            # lists them as opaque callables of kind `intro`, observed on a twin: harness/servercases_names.py)
            self.disp.register_introspection_functions()
        inst = desc.get("inst")
        if inst is not None:
            obj = _Instance()
            for n, a in inst.get("attrs", []):
                setattr(obj, n, make_attr(a, n, self.log))
            if inst.get("dispatch") is not None:
                obj._dispatch = make_dispfn(inst["dispatch"], "instDispatch", self.log)
            self.disp.register_instance(obj)
        self.custom = None
        if desc.get("custom") is not None:
            self.custom = make_dispfn(desc["custom"], "custom", self.log)
        self.pool = pool
        self.real_pool = None
        if pool != "absent":
            self.real_pool = shared_pool() if pool == "accepting" else None
            self.disp.set_notification_pool(PoolProxy(self.real_pool, self.log, self.custom, pool == "full"))

    def dispatch(self, body):
        try:
            k, v = impl.outcome(self.disp._marshaled_dispatch, body, self.custom)
        except tuple(BASE_EXC.values()) as ex:
            # an exception of the kind `except Exception` does not catch came out of the dispatcher: an outcome like any other
            k, v = "err", ex
        if self.real_pool is not None:
            self.real_pool.join()
        return k, v

    def post(self, body):
        """do_POST through a fake connection: (status list, body bytes)."""
        data = body.encode("utf-8", "surrogatepass") if isinstance(body, str) else body
        srv = self.disp
        srv.logRequests = False
        h = S.SimpleJSONRPCRequestHandler.__new__(S.SimpleJSONRPCRequestHandler)
        h.server = srv
        h.path = "/"
        # what http.server hands to a handler: a case-insensitive message object
        h.headers = email.message.Message()
        h.headers["Content-Length"] = str(len(data))
        h.headers["Content-Type"] = "application/json-rpc"
        h.rfile = io.BytesIO(data)
        h.wfile = io.BytesIO()
        h.request_version = "HTTP/1.1"
        h.requestline = "POST / HTTP/1.1"
        h.client_address = ("x", 0)
        h.close_connection = True
        status = []
        headers = []
        h.send_response = lambda code, message=None: status.append(code)
        h.send_header = lambda k, v: headers.append((k, v))
        h.end_headers = lambda: None
        h.is_rpc_path_valid = lambda: True
        h.decode_request_content = lambda d: d
        if self.custom is not None:
            h._dispatch = self.custom
        h.do_POST()
        if self.real_pool is not None:
            self.real_pool.join()
        return status, h.wfile.getvalue(), headers


def callee_view(sig, params):
    """What a function with this signature sees when called with the request's params — by Python itself."""
    tmp = []
    rec = make_def(sig, "rec", "rec", ["ret", None], tmp)
    if isinstance(params, list):
        rec(*params)
    else:
        rec(**params)
    return tmp[-1][3]


def python_binds(sig, params):
    try:
        callee_view(sig, params)
        return True
    except TypeError:
        return False


# --------------------------------------------------------------------------------------------
# canonical forms

_SERVER_ERROR = re.compile(r"^Server error: .*? \| (?:[A-Za-z_][\w.]*\.)?([A-Za-z_]\w*)(?:: (.*))?$", re.S)
_SERIALIZE = re.compile(r"^TypeError:(Object of type .+ is not JSON serializable|keys must be str, int, float, bool or None, not .+)$", re.S)

MSG_PARSE = "Request <data> invalid. (<error>)"
MSG_NOVERSION = "Request <request> invalid."
MSG_PARAMS = "Invalid parameters: <error>"
MSG_SERIALIZE = "TypeError:<not JSON serializable>"


def canon_message(code, msg):
    """Real error message -> the template form the model prints (class and text kept where the property needs them)."""
    if not isinstance(msg, str) or isinstance(code, bool) or not isinstance(code, int):
        return msg
    if code == -32700:
        return MSG_PARSE
    if code == -32600:
        if msg.startswith("Request must be a dict, not ") or msg in (
                "Request invalid -- no request data.", "Invalid request parameters or method."):
            return msg
        if msg.startswith("Request ") and msg.endswith(" invalid."):
            return MSG_NOVERSION
        return msg
    if code == -32602 and msg.startswith("Invalid parameters: "):
        return MSG_PARAMS
    if code == -32603:
        m = _SERVER_ERROR.match(msg[:-1] if msg.endswith("\n") else msg)
        if m:
            return "Server error: " + m.group(1) + (": " + m.group(2) if m.group(2) else "")
        if _SERIALIZE.match(msg):
            return MSG_SERIALIZE
    return msg


def canon_response(d):
    if isinstance(d, dict) and isinstance(d.get("error"), dict):
        e = dict(d["error"])
        if "message" in e:
            e["message"] = canon_message(e.get("code"), e["message"])
        d = dict(d)
        d["error"] = e
    return d


def canon_doc(doc):
    if isinstance(doc, list):
        return [canon_response(x) for x in doc]
    return canon_response(doc)


def canon_real_reply(kind, val):
    """('ok', text) / ('err', exc) -> comparable structure."""
    if kind == "err":
        return ("raise", type(val).__name__)
    if val == "":
        return ("empty",)
    try:
        doc = json.loads(val)
    except ValueError:
        return ("not-json", val[:80])
    return ("doc", canon_doc(doc))


def strip_opaque_effects(effects, desc):
    """Calls of opaque callables are not compared in the correspondence (a builtin cannot log; a partial / decorated
    function logs in its inner def, i.e. after its own binding): the monitors count them where a log exists."""
    names = opaque_names(desc)
    if not names:
        return effects
    out = []
    for e in effects:
        parts = e.split(" ", 3)
        if parts[0] == "call" and len(parts) > 2 and any(parts[1] == t and parts[2] == enc(n) for t, n in names):
            continue
        out.append(e)
    return out


def canon_effect_real(e, desc_sigs):
    try:
        return _canon_effect_real(e, desc_sigs)
    except (UnicodeEncodeError, pyval.Unencodable, ValueError):
        # lone surrogates / foreign values: such cases are not compared with the model (the request is unencodable too)
        return "%s ?unencodable" % (e[0],)


def _canon_effect_real(e, desc_sigs):
    if e[0] == "enqueue":
        return "enqueue %s %s %s %s" % ("T" if e[1] else "F", enc(e[2]), enc(e[3]), "-" if e[1] else int(round(e[4] * 10)))
    _, target, name, view, _main = e
    if target in ("func", "attr"):
        return "call %s %s %s" % (target, enc(name), pyval.enc(_view_plain(view), obj_hook, canon=True))
    return "call %s %s %s" % (target, enc(name), enc(view))


def _view_plain(view):
    named, args, kwargs = view
    return [["<default>" if x is _D else ["v", x] for x in named], list(args), dict(kwargs)]


def sig_of(desc, target, name):
    """Signature of the callable registered under `name` (funcs) or at the dotted path `name` (instance)."""
    if target == "func":
        for n, c in desc.get("funcs", []):
            if n == name:
                return c[0]
        return None
    inst = desc.get("inst") or {}
    children = inst.get("attrs", [])
    node = None
    for seg in name.split("."):
        node = None
        for n, a in children:
            if n == seg:
                node = a
                break
        if node is None or node == "none":
            return None
        children = node[1]
    return node[0][0] if node is not None and node[0] is not None else None


def canon_effect_model(tree, desc):
    e = from_model(tree)
    if e[0] == "enqueue":
        return "enqueue %s %s %s %s" % ("T" if e[1] else "F", enc(e[2]), enc(e[3]), "-" if e[1] else e[4])
    _, target, method, params = e
    if target in ("func", "attr"):
        sig = sig_of(desc, target, method) if isinstance(method, str) else None
        if sig is None:
            return "call %s %s ?nosig" % (target, enc(method))
        try:
            view = callee_view(sig, params)
        except TypeError:
            return "call %s %s ?unbindable" % (target, enc(method))
        return "call %s %s %s" % (target, enc(method), pyval.enc(_view_plain(view), obj_hook, canon=True))
    return "call %s %s %s" % (target, enc(method), enc(params))


def canon_model_line(line, desc):
    """Model output line -> (reply structure, [effect strings]) or ('raise', cls) / ('unmodelled',)."""
    if line.startswith("err "):
        cls = line.split(" ")[1]
        if cls == "Unmodelled":
            return ("unmodelled",), []
        return ("raise", cls), None
    if not line.startswith("ok "):
        return ("bad", line), []
    tr = pyval.parse(line[3:])
    reply_t, eff_t = tr[1]
    if not reply_t[1]:
        reply = ("empty",)
    else:
        doc = from_model(reply_t[1][0])
        # what the JSON text layer makes of the document (tuples, non-string keys)
        reply = ("doc", json.loads(json.dumps(doc)))
        # the driver's result converter declined a value: its error class shows up as the exception name
        for d in (reply[1] if isinstance(reply[1], list) else [reply[1]]):
            e = d.get("error") if isinstance(d, dict) else None
            if isinstance(e, dict) and isinstance(e.get("message"), str) and e["message"].startswith("Unmodelled:"):
                return ("unmodelled",), []
    return reply, strip_opaque_effects([canon_effect_model(t, desc) for t in eff_t[1]], desc)


def struct_key(v):
    """Type-strict comparable form of a JSON structure (1 != 1.0 != True)."""
    try:
        return pyval.enc(v, obj_hook, canon=True)
    except (UnicodeEncodeError, pyval.Unencodable, ValueError):
        # lone surrogates / non-finite floats cannot travel on the line protocol: a Python-level strict form
        return "py:" + _strict_repr(v)


def _strict_repr(v):
    if isinstance(v, dict):
        return "{" + ",".join(sorted("%s:%s" % (_strict_repr(k), _strict_repr(x)) for k, x in v.items())) + "}"
    if isinstance(v, (list, tuple)):
        return type(v).__name__ + "[" + ",".join(_strict_repr(x) for x in v) + "]"
    try:
        return "%s(%s)" % (type(v).__name__, ascii(v))
    except ValueError:
        return "%s(<beyond the int/str conversion limit>)" % type(v).__name__


# --------------------------------------------------------------------------------------------
# registries

SIGS = [
    [[], 0, False, False],
    [["a"], 0, False, False],
    [["a", "b"], 0, False, False],
    [["a", "b"], 1, False, False],
    [["a", "b"], 2, False, False],
    [[], 0, True, False],
    [[], 0, False, True],
    [["a"], 0, True, True],
    [["a", "b", "c"], 1, True, False],
    [["a", "b"], 1, False, True],
    [["x"], 1, True, True],
]

RAISES = [
    ["raise", "ValueError", "boom"], ["raise", "TypeError", "inside the body"], ["raise", "KeyError", "k"],
    ["raise", "MyError", "hé 日本"], ["raise", "RuntimeError", ""], ["raise", "ZeroDivisionError", "division by zero"],
    ["raise", "MyTypeError", "sub of TypeError"], ["raise", "AttributeError", "no attr"], ["raise", "MyAttrError", "sub attr"],
    ["raise", "Exception", "a: b | c"], ["raise", "IndexError", "Server error: x | y"], ["raise", "AssertionError", "TypeError:fake"],
]

RETS = [["ret", 3], ["ret", None], ["ret", 0], ["ret", ""], ["ret", "résultat"], ["ret", [1, [2]]], ["ret", {"k": [None]}],
        ["ret", False], ["ret", 1.5], ["ret", RAISING], ["ret", {"__jsonclass__": ["x"]}], ["ret", []], ["ret", {}],
        ["ret", TUPLEKEY], ["ret", SETVAL]]

LONG_TEXT = ("cannot open {0} {} %s %(user)d 100% /very/long/path " * 110).strip()     # > 5000 characters, one line
TEXTS = ["boom", "", " ", "  leading and trailing  ", "a: b | c", "{0} {} {name!r}", "100% %s %d %(x)s", "hé 日本 \U0001f600",
         "Server error: x | KeyError: 'y'", "TypeError:fake", "x" * 300, LONG_TEXT, "tab\there", "quote \" back \\ slash"]
ARG_LISTS = [[], [""], ["one"], [1], [None], ["a", "b"], [2, "No such file or directory"], [1, 2, 3], [["nested"], {"k": 1}],
             ["$bytes"], ["$opaque"], ["$frozenset", "$tuple"], ["$exc"], [1.5, True], ["text", "$bytes", 3]]


def random_raise(rng):
    """A raising behaviour over the whole space: every ordinary builtin exception class (+ 3 user classes), built with no /
    one / many / non-JSON arguments or a text of 0..5000 characters with braces and percent signs, raised in the def's own
    frame (depth 1), in a helper (2) or two helpers down (3), or produced by an expression of the body."""
    r = rng.random()
    if r < 0.12:
        return ["expr", rng.choice(sorted(EXPR_SOURCE))]
    cls = rng.choice(sorted(EXC))
    depth = rng.choice([1, 1, 2, 3])
    if cls in SPECIAL_ARGS:
        return ["raise", cls, None, {"depth": depth}]
    if rng.random() < 0.5:
        return ["raise", cls, rng.choice(TEXTS), {"depth": depth}]
    return ["raise", cls, None, {"depth": depth, "args": rng.choice(ARG_LISTS)}]


def _opaque(kind, spec):
    return [SIG_ANY, ["opaque", kind, spec]]


def _funcs_depth():
    """Callables that raise at frame depth 0 / 1 / 2 / 3 and behind a decorator, TypeErrors produced by expressions of the
    body itself, registered builtins, partials and callable objects, results the JSON library rejects."""
    te = lambda d: ["raise", "TypeError", "raised in the body at depth %d" % d, {"depth": d}]  # noqa: E731
    return [
        ["add", [SIGS[2], ["ret", 3]]],
        ["te1", [SIGS[1], te(1)]], ["te2", [SIGS[1], te(2)]], ["te3", [SIGS[1], te(3)]],
        ["subte1", [SIGS[5], ["raise", "MyTypeError", "subclass in own frame", {"depth": 1}]]],
        ["concat", [SIGS[1], ["expr", "concat"]]], ["len5", [SIGS[5], ["expr", "len"]]],
        ["miscall", [SIGS[0], ["expr", "miscall"]]], ["nonecall", [SIGS[3], ["expr", "nonecall"]]],
        ["ve1", [SIGS[5], ["raise", "ValueError", "own frame", {"depth": 1}]]],
        ["noargs_exc", [SIGS[5], ["raise", "KeyError", None, {"depth": 1, "args": []}]]],
        ["manyargs", [SIGS[5], ["raise", "OSError", None, {"depth": 2, "args": [2, "No such file or directory"]}]]],
        ["conn", [SIGS[5], ["raise", "ConnectionResetError", "peer went away", {"depth": 1}]]],
        ["nonjson", [SIGS[5], ["raise", "LookupError", None, {"depth": 1, "args": ["$bytes", "$opaque"]}]]],
        ["udec", [SIGS[5], ["raise", "UnicodeDecodeError", None, {"depth": 1}]]],
        ["longtext", [SIGS[5], ["raise", "ValueError", LONG_TEXT, {"depth": 1}]]],
        ["fmt", [SIGS[5], ["raise", "RuntimeError", "{0} {} %s %(x)d 100%", {"depth": 2}]]],
        ["stopit", [SIGS[5], ["raise", "StopIteration", "v", {"depth": 1}]]],
        ["len", _opaque("builtin", "len")], ["dict", _opaque("builtin", "dict")], ["abs", _opaque("builtin", "abs")],
        ["divmod", _opaque("builtin", "divmod")],
        ["part", _opaque("partial", {"sig": SIGS[2], "beh": ["ret", "partial"], "bound": [1]})],
        ["partboom", _opaque("partial", {"sig": SIGS[1], "beh": ["raise", "TypeError", "inside a partial", {"depth": 1}], "bound": []})],
        ["obj", _opaque("object", {"sig": SIGS[3], "beh": ["ret", "object"]})],
        ["objte", _opaque("object", {"sig": SIGS[1], "beh": ["expr", "concat"]})],
        ["deco", _opaque("deco", {"sig": SIGS[2], "beh": ["ret", "decorated"]})],
        ["decote", _opaque("deco", {"sig": SIGS[1], "beh": ["raise", "TypeError", "behind a decorator", {"depth": 1}]})],
        ["tuplekey", [SIGS[5], ["ret", TUPLEKEY]]], ["setres", [SIGS[5], ["ret", SETVAL]]], ["bigint", [SIGS[5], ["ret", BIGINT]]],
        ["badser", [SIGS[5], ["ret", RAISING]]],
    ]


def _attrs_depth():
    leaf = lambda sig, beh: [[sig, beh], []]  # noqa: E731
    return [
        ["nothing", "none"],
        ["number", [None, []]],
        ["ns", [None, [["nothing", "none"], ["te1", leaf(SIGS[1], ["raise", "TypeError", "attribute, own frame", {"depth": 1}])],
                       ["len", [_opaque("builtin", "len"), []]],
                       ["deco", [_opaque("deco", {"sig": SIGS[1], "beh": ["ret", "ns.deco"]}), []]]]]],
        ["obj", [_opaque("object", {"sig": SIGS[2], "beh": ["ret", "inst object"]}), []]],
        ["ok", leaf(SIGS[5], ["ret", "ok"])],
    ]



def _funcs_basic():
    fs = [
        ["add", [SIGS[2], ["ret", 3]]],
        ["noargs", [SIGS[0], ["ret", "ok"]]],
        ["one", [SIGS[1], ["ret", [1, [2]]]]],
        ["opt", [SIGS[3], ["ret", {"k": [None]}]]],
        ["star", [SIGS[5], ["ret", 0]]],
        ["kw", [SIGS[6], ["ret", None]]],
        ["mixed", [SIGS[8], ["ret", False]]],
        ["boom", [SIGS[5], ["raise", "ValueError", "boom"]]],
        ["typeerr", [SIGS[4], ["raise", "TypeError", "inside the body"]]],
        ["keyerr", [SIGS[7], ["raise", "KeyError", "k"]]],
        ["uni", [SIGS[10], ["raise", "MyError", "hé 日本"]]],
        ["emptymsg", [SIGS[0], ["raise", "RuntimeError", ""]]],
        ["subte", [SIGS[1], ["raise", "MyTypeError", "sub of TypeError"]]],
        ["badser", [SIGS[5], ["ret", RAISING]]],
        ["_under", [SIGS[5], ["ret", "registered functions may start with _"]]],
        ["dotted.name", [SIGS[5], ["ret", 1.5]]],
        ["été", [SIGS[9], ["ret", ""]]],
    ]
    return fs


def _attrs_basic():
    leaf = lambda sig, beh: [[sig, beh], []]  # noqa: E731
    return [
        ["pub", [[SIGS[3], ["ret", "pub"]], [["sub", leaf(SIGS[5], ["ret", "pub.sub"])], ["_hid", leaf(SIGS[5], ["ret", "no"])]]]],
        ["ns", [None, [["meth", leaf(SIGS[2], ["ret", "ns.meth"])], ["_hidden", leaf(SIGS[5], ["ret", "no"])],
                       ["deep", [None, [["er", leaf(SIGS[6], ["raise", "TypeError", "deep type error"])]]]],
                       ["fail", leaf(SIGS[5], ["raise", "LookupError", "nested failure"])]]]],
        ["_priv", leaf(SIGS[5], ["ret", "no"])],
        ["_pns", [None, [["meth", leaf(SIGS[5], ["ret", "no"])]]]],
        ["value", [None, []]],
        ["add", leaf(SIGS[5], ["ret", "instance add (shadowed by funcs when both exist)"])],
    ]


REGISTRIES = {
    "empty": {"funcs": [], "inst": None, "custom": None},
    "funcs": {"funcs": _funcs_basic(), "inst": None, "custom": None},
    "inst": {"funcs": [], "inst": {"dispatch": None, "attrs": _attrs_basic()}, "custom": None},
    "both": {"funcs": _funcs_basic(), "inst": {"dispatch": None, "attrs": _attrs_basic()}, "custom": None},
    "instdisp": {"funcs": _funcs_basic()[:3], "inst": {
        "dispatch": ["table", {"known": ["ret", "via _dispatch"], "echo": ["echo"], "raise": ["raise", "ValueError", "from _dispatch"],
                               "pub": ["raise", "AttributeError", "fall through"], "nosuch": ["raise", "MyAttrError", "fall through"],
                               "te": ["raise", "TypeError", "te in _dispatch"], "badser": ["ret", RAISING]},
                     ["raise", "MyError", "unknown to _dispatch"]],
        "attrs": _attrs_basic()}, "custom": None},
    "custom": {"funcs": _funcs_basic()[:3], "inst": None, "custom": [
        "table", {"known": ["ret", "via custom"], "echo": ["echo"], "raise": ["raise", "ValueError", "from custom"],
                  "add": ["ret", "custom wins over funcs"], "ae": ["raise", "AttributeError", "custom attribute error"],
                  "te": ["raise", "TypeError", "custom type error"], "badser": ["ret", RAISING], "none": ["ret", None]},
        ["raise", "KeyError", "no such method"]]},
    "customecho": {"funcs": [], "inst": None, "custom": ["echo"]},
    "depth": {"funcs": _funcs_depth(), "inst": {"dispatch": None, "attrs": _attrs_depth()}, "custom": None},
    "customraise": {"funcs": [], "inst": None, "custom": [
        "table", {"noargs": ["raise", "KeyError", None, {"args": []}], "many": ["raise", "OSError", None, {"args": [2, "x"]}],
                  "nonjson": ["raise", "ValueError", None, {"args": ["$bytes"]}], "long": ["raise", "RuntimeError", LONG_TEXT],
                  "fmt": ["raise", "ValueError", "{0} {} %s"], "tk": ["ret", TUPLEKEY], "stop": ["raise", "StopIteration", None, {"args": []}],
                  "ok": ["ret", 1]},
        ["raise", "IndexError", None, {"args": []}]]},
    "instraise": {"funcs": [], "inst": {"dispatch": [
        "table", {"noargs": ["raise", "RuntimeError", None, {"args": []}], "many": ["raise", "ConnectionResetError", None, {"args": [104, "reset"]}],
                  "nonjson": ["raise", "KeyError", None, {"args": ["$opaque"]}], "tk": ["ret", TUPLEKEY], "ok": ["ret", 1],
                  "ae": ["raise", "AttributeError", "falls through"]},
        ["raise", "LookupError", None, {"args": []}]], "attrs": _attrs_depth()}, "custom": None},
}

METHODS = {
    "empty": ["add", "nosuch"],
    "funcs": [n for n, _ in _funcs_basic()] + ["nosuch", "ad", "add.x", "Add", "_priv"],
    "inst": ["pub", "pub.sub", "pub._hid", "ns.meth", "ns._hidden", "ns.deep.er", "ns.fail", "_priv", "_pns.meth", "value", "ns",
             "ns.deep", "ns.", ".ns", "ns..meth", "ns.nosuch", "nosuch", "__class__", "pub.__call__", "ns.__dict__", "_dispatch",
             "pub.sub.__name__", "add", "ns.meth.x", "_", "._", "pub._"],
    "instdisp": ["known", "echo", "raise", "pub", "nosuch", "te", "badser", "add", "other", "ns.meth", "_priv"],
    "custom": ["known", "echo", "raise", "add", "ae", "te", "badser", "none", "other", "noargs"],
    "customecho": ["anything", "x.y", "_z"],
}
METHODS["both"] = METHODS["funcs"] + METHODS["inst"]
METHODS["depth"] = [n for n, _ in _funcs_depth()] + ["nothing", "number", "ns.nothing", "ns.nothing.real", "ns.te1", "ns.len", "ns.deco",
                                                     "obj", "ok", "nothing.real", "number.real"]
METHODS["customraise"] = ["noargs", "many", "nonjson", "long", "fmt", "tk", "stop", "ok", "other"]
METHODS["instraise"] = ["noargs", "many", "nonjson", "tk", "ok", "ae", "other", "ns.te1"]
NEW_REGISTRIES = ["depth", "customraise", "instraise"]


def name_variants(name):
    """Mutations of a registered name that are *different* names: padded, case-changed, NUL / dot / Unicode look-alikes whose
    NFKC form is the registered name.  Each must be answered as the name it is (unknown unless registered itself)."""
    full = "".join(chr(ord(c) + 0xFEE0) if "!" <= c <= "~" else c for c in name)          # fullwidth forms: NFKC -> name
    return [" " + name, name + " ", "\t" + name, name + "\n", name + "\x00", "\x00" + name, name.upper(), name.capitalize(),
            name.swapcase(), full, name + ".", "." + name, name + "\u200b", "\ufeff" + name, name[:1] + "\u0301" + name[1:]]


PARAMS = ["absent", [], [1], [1, 2], [1, 2, 3], [[1], {"a": 2}], {}, {"a": 1}, {"a": 1, "b": 2}, {"b": 2}, {"c": 3},
          {"a": 1, "b": 2, "c": 3}, {"x": None}, {"a": 1, "not an identifier": 2}, {"": 0}]
BAD_PARAMS = [1, "s", None, True, 1.5, 0, ""]
IDS = ["absent", None, "", 0, -1, 1.5, "s", True, False, [1, "a"], {"k": [1]}, 2 ** 53, "0", 0.0, -0.0, 1e-320, [], {}, " ",
       "é", [None], 10 ** 30, "\ud800", "a\udc00b", "\U0001f600", ["\udfff"], 1.7976931348623157e308, "\x00"]
# raw texts: numbers that overflow a double are read as ±inf by the standard parser.  DESIGN 3.2: floats are finite — such
# bodies are outside the monitored domain (like the NaN/Infinity literals); they are generated so that the check is seen
# not to crash on them, and counted as `nondomain`.
OVERFLOW_TEXTS = [
    '{"jsonrpc": "2.0", "id": 1e400, "method": "add", "params": [1, 2]}',
    '{"jsonrpc": "2.0", "id": 1, "method": "one", "params": [-1e999]}',
    '[{"jsonrpc": "2.0", "id": 1, "method": "add", "params": [1, 2]}, {"jsonrpc": "2.0", "id": -1E+400, "method": "add", "params": [1, 2]}]',
    '{"jsonrpc": "2.0", "id": NaN, "method": "add", "params": [1, 2]}',
]
NOTIF_IDS = ["absent", None, ""]
JSONRPC = ["absent", "2.0", "1.0", 2, 2.0, None, "", "x", [], {}, 0, False, 3]
BAD_METHODS = ["absent", None, "", 0, 1, True, False, 1.5, [], ["add"], {}, {"add": 1}]


def build_request(jsonrpc, rid, method, params):
    d = {}
    if jsonrpc != "absent":
        d["jsonrpc"] = jsonrpc
    if method != "absent":
        d["method"] = method
    if params != "absent":
        d["params"] = params
    if rid != "absent":
        d["id"] = rid
    return d


def random_sig(rng):
    names = rng.sample(["a", "b", "c", "x", "y"], rng.randint(0, 3))
    return [names, rng.randint(0, len(names)), rng.random() < 0.3, rng.random() < 0.3]


def random_registry(rng):
    def rraise():
        return rng.choice(RAISES) if rng.random() < 0.4 else random_raise(rng)

    def rcallable():
        r = rng.random()
        if r < 0.08:
            return _opaque("builtin", rng.choice(sorted(BUILTINS)))
        beh = rng.choice(RETS) if rng.random() < 0.55 else rraise()
        if r < 0.14:
            return _opaque("partial", {"sig": random_sig(rng), "beh": beh, "bound": rng.choice([[], [1], [1, 2]])})
        if r < 0.20:
            return _opaque("object", {"sig": random_sig(rng), "beh": beh})
        if r < 0.26:
            return _opaque("deco", {"sig": random_sig(rng), "beh": beh})
        return [random_sig(rng), beh]

    funcs = []
    for i in range(rng.randint(1, 4)):
        funcs.append(["f%d" % i, rcallable()])

    def rattr(depth):
        if rng.random() < 0.08:
            return "none"
        c = None
        if rng.random() < 0.7:
            c = rcallable()
        ch = []
        # a builtin cannot be given attributes
        if depth > 0 and not (c is not None and c[1][0] == "opaque" and c[1][1] == "builtin"):
            for n in rng.sample(["m", "n", "_p", "q", "__r"], rng.randint(0, 3)):
                ch.append([n, rattr(depth - 1)])
        return [c, ch]

    inst = None
    if rng.random() < 0.6:
        inst = {"dispatch": None, "attrs": [[n, rattr(2)] for n in rng.sample(["m", "n", "_p", "q", "f0"], rng.randint(1, 4))]}
        if rng.random() < 0.25:
            inst["dispatch"] = ["table", {"m": rng.choice(RETS), "n": rraise(), "q": ["echo"]}, rraise()]
    custom = None
    if rng.random() < 0.2:
        custom = ["table", {"f0": rng.choice(RETS), "m": rraise(), "q": ["echo"]}, rng.choice([rraise(), rng.choice(RETS)])]
    return {"funcs": funcs, "inst": inst, "custom": custom}


def registry_methods(desc, rng=None):
    """Method names worth trying against a registry."""
    out = [n for n, _ in desc.get("funcs", [])]
    inst = desc.get("inst")

    def walk(prefix, children):
        for n, a in children:
            p = prefix + n
            out.append(p)
            if a != "none":
                walk(p + ".", a[1])

    if inst is not None:
        walk("", inst.get("attrs", []))
        if inst.get("dispatch") is not None and inst["dispatch"][0] == "table":
            out.extend(inst["dispatch"][1].keys())
    if desc.get("custom") is not None and desc["custom"][0] == "table":
        out.extend(desc["custom"][1].keys())
    out.extend(["nosuch", "m.nosuch", "_x", "m._x", "m.", ""])
    if rng is not None and out:
        base = [n for n in out[:8] if n]
        for _ in range(3):
            if base:
                out.append(rng.choice(name_variants(rng.choice(base))))
    return out


def random_params(rng, sig=None):
    r = rng.random()
    if sig is not None and r < 0.5:
        names, nd, star, kw = sig
        if rng.random() < 0.5:
            n = max(0, len(names) - nd + rng.randint(-1, 2))
            return [gen.json_value(rng, 2, 1) for _ in range(n)]
        keys = [n for n in names if rng.random() < 0.8]
        if rng.random() < 0.3:
            keys.append(rng.choice(["zz", "c", "", "not an identifier"]))
        return dict((k, gen.json_scalar(rng)) for k in keys)
    if r < 0.9:
        return rng.choice(PARAMS)
    return rng.choice(BAD_PARAMS)


# --------------------------------------------------------------------------------------------
# bodies

def damaged_texts(text, rng, n):
    """Truncations and single-character corruptions of a valid request text."""
    out = []
    for _ in range(n):
        r = rng.random()
        if r < 0.4 and len(text) > 1:
            out.append(text[:rng.randint(0, len(text) - 1)])
        elif r < 0.8 and text:
            i = rng.randrange(len(text))
            out.append(text[:i] + rng.choice("{}[]\":, x\\0é\n'") + text[i + 1:])
        elif r < 0.9 and text:
            i = rng.randrange(len(text))
            out.append(text[:i] + text[i + 1:])
        else:
            i = rng.randrange(len(text) + 1)
            out.append(text[:i] + rng.choice("{}[]\":,x") + text[i:])
    return out


NOISE = ["", " ", "\n", "null", "true", "false", "0", "-0", "1.5", "\"\"", "\"text\"", "[]", "{}", "[[]]", "[{}]", "[1]", "[null]",
         "[1,2,3]", "[\"a\"]", "{\"a\":1}", "garbage", "{", "[", "]", "\"", "{\"jsonrpc\":\"2.0\",", "﻿{}", "日本語",
         "\U0001f600", "[1,]", "{\"a\":}", "01", "1e999x", "'single'", "{\"jsonrpc\": \"2.0\", \"method\": \"add\", \"params\": [1,2], \"id\": 1} x",
         "\x00", "[[[[[[[[[[[[[[[[[[[[1]]]]]]]]]]]]]]]]]]]]", "{\"id\":1}", "{\"jsonrpc\":\"2.0\"}", "[0, \"\", null, [], {}]"]

NONDOMAIN = re.compile(r"NaN|Infinity")


def descriptor(cls, params, **attrs):
    d = {"__jsonclass__": [cls, params]}
    d.update(attrs)
    return d


DESCRIPTORS = [
    descriptor("decimal.Decimal", ["1.5"]), descriptor("fractions.Fraction", [1, 3]), descriptor("builtins.list", [[1, 2]]),
    descriptor("builtins.tuple", [[1, 2]]), descriptor("builtins.set", [[1]]), descriptor("builtins.frozenset", [[2]]),
    descriptor("builtins.dict", [[[1, 2]]]), descriptor("builtins.dict", [[[[1, 2], 3]]]), descriptor("builtins.int", ["7"]),
    descriptor("builtins.str", ["add"]), descriptor("builtins.str", []), descriptor("builtins.float", ["2.5"]),
    descriptor("builtins.bool", []), descriptor("builtins.complex", [1, 2]), descriptor("types.SimpleNamespace", {"a": 1}),
    descriptor("types.SimpleNamespace", {}, extra=[1]), descriptor("Bean", [5]), descriptor("Bean", {"x": [1]}, y="z"),
    descriptor("no.such.Class", []), descriptor("nosuchmodule_zz.Class", []), descriptor("", []), descriptor("bad name!", []),
    descriptor("Unknown", []), descriptor("decimal.Decimal", "notalist"), descriptor("decimal.Decimal", ["x", "y", "z"]),
    descriptor("builtins.int", ["zz"]), {"__jsonclass__": []}, {"__jsonclass__": ["decimal.Decimal"]}, {"__jsonclass__": "str"},
    {"__jsonclass__": None},
]


def parse_outcome(body, cfg):
    """Token form of what the real `jsonrpclib.loads` makes of the body: `P <value>`, `E`, or None when the
    value lies outside the value universe of the model (bytes, unknown instances, lone surrogates, non-finite floats)."""
    k, v = impl.outcome(jsonrpclib.loads, body, cfg)
    if k == "err":
        return "E", None
    if not model_faithful(v):
        return None, v
    try:
        return "P " + enc(v), v
    except (pyval.Unencodable, RecursionError, UnicodeEncodeError, ValueError):
        # ValueError: an integer beyond the int/str conversion limit (built by the class translator from a base-16 text)
        return None, v


def has_nonfinite(v, depth=0):
    """Does a loaded value contain a float that is not finite (a literal such as 1e400 overflows to inf)?"""
    if isinstance(v, float):
        return math.isinf(v) or math.isnan(v)
    if depth > 200:
        return False
    if isinstance(v, (list, tuple, set, frozenset)):
        return any(has_nonfinite(x, depth + 1) for x in v)
    if isinstance(v, dict):
        return any(has_nonfinite(k, depth + 1) or has_nonfinite(x, depth + 1) for k, x in v.items())
    return False


def in_c02_domain(body):
    """NaN/Infinity literals are outside the domain of the properties."""
    return not NONDOMAIN.search(body)


# --------------------------------------------------------------------------------------------
# running cases: real dispatcher + model


class Result(object):
    __slots__ = ("case", "kind", "raw", "reply", "effects", "log", "loaded", "parse_error", "line", "model_reply",
                 "model_effects", "post", "observed")


def make_case(reg, body, ver=2.0, uj=False, pool="absent", kind="", post=False):
    return {"reg": reg, "body": body, "ver": ver, "uj": uj, "pool": pool, "kind": kind, "post": post}


def beh_of(desc, target, name):
    """The behaviour descriptor behind an invocation-log entry."""
    if target == "custom":
        return _pick(desc["custom"], name) if desc.get("custom") else None
    if target == "instDispatch":
        d = (desc.get("inst") or {}).get("dispatch")
        return _pick(d, name) if d else None
    c = callable_of(desc, target, name) if isinstance(name, str) else None
    return c[1] if c is not None else None


def callable_of(desc, target, name):
    if target == "func":
        for n, c in desc.get("funcs", []):
            if n == name:
                return c
        return None
    children = (desc.get("inst") or {}).get("attrs", [])
    node = None
    for seg in name.split("."):
        node = None
        for n, a in children:
            if n == seg:
                node = a
                break
        if node is None or node == "none":
            return None
        children = node[1]
    return node[0] if node is not None else None


def _returns_bigint(beh):
    if beh is None:
        return False
    if beh[0] == "opaque":
        spec = beh[2]
        return isinstance(spec, dict) and _returns_bigint(spec.get("beh"))
    return beh[0] == "ret" and beh[1] == BIGINT


def run_real(case):
    desc = case["reg"]
    real = Real(desc, case["ver"], case["uj"], case["pool"])
    res = Result()
    res.case = case
    res.post = None
    token, loaded = parse_outcome(case["body"], real.cfg)
    res.parse_error = token == "E"
    if case["body"] == "":
        # `not data`: the dispatcher raises inside its parse try before calling loads (which returns None for "") — the model is
        # told that the body is empty (`marshaledDispatchBody s true _`), not what loads would have made of it
        token = "Z"
    res.loaded = loaded
    res.observed = observe_opaque(desc, loaded) if token != "E" else {}
    k, v = real.dispatch(case["body"])
    res.kind, res.raw = k, v
    res.reply = canon_real_reply(k, v)
    res.log = list(real.log)
    res.effects = strip_opaque_effects([canon_effect_real(e, desc) for e in real.log if e[0] == "enqueue" or e[4]], desc)
    if case.get("post") and case["pool"] != "full":
        real2 = Real(desc, case["ver"], case["uj"], case["pool"])
        try:
            res.post = real2.post(case["body"])
        except (Exception,) + tuple(BASE_EXC.values()) as ex:  # noqa: BLE001
            res.post = ("raised", "%s: %s" % (type(ex).__name__, str(ex)[:200]), None)
    # the model's integers are unbounded: a result of more than sys.get_int_max_str_digits() digits (json.dumps raises
    # ValueError) is not described by it
    bigint = any(e[0] == "call" and _returns_bigint(beh_of(desc, e[1], e[2])) for e in real.log)
    if token is None or bigint:
        res.line = None
    else:
        try:
            res.line = "srv %s %s %s %s" % (enc_cfg(case["ver"], case["uj"]), enc_registry(desc, res.observed),
                                            POOL_TOKEN[case["pool"]], token)
        except (pyval.Unencodable, UnicodeEncodeError):
            res.line = None
    return res


def run_cases(ctx, cases):
    """Runs every case on the real code and on the model; returns the Result list (model fields filled)."""
    results = [run_real(c) for c in cases]
    lines = [r.line for r in results if r.line is not None]
    outs = ctx.lean(lines) if lines else []
    it = iter(outs)
    for r in results:
        if r.line is None:
            r.model_reply, r.model_effects = ("unmodelled",), []
            continue
        out = next(it)
        r.model_reply, r.model_effects = canon_model_line(out, r.case["reg"])
    return results


def compare(ctx, r, project):
    """Correspondence on the projection a property cares about.  Returns True when compared."""
    if r.model_reply == ("unmodelled",):
        return False
    real_p = project(r.reply, r.effects)
    model_p = project(r.model_reply, r.model_effects if r.model_effects is not None else [])
    if r.model_reply[0] == "raise" and r.reply[0] == "raise":
        model_p = real_p if r.model_reply[1] == r.reply[1] else model_p
    if struct_key(real_p) != struct_key(model_p):
        ctx.disagree(brief(r.case), repr(real_p)[:1500], repr(model_p)[:1500], component="srv")
    return True


def brief(case):
    c = dict(case)
    return c


def full_projection(reply, effects):
    return [list(reply), effects]


# --------------------------------------------------------------------------------------------
# the oracle of the monitors: what the property texts say about one request entry.
# Written from properties.jsonl (C02-C05) and Python's own call binding; never consults the model.

UNSPEC = "unspecified"


def _norm_json(v):
    return json.loads(json.dumps(v))


def json_same(a, b):
    """Same JSON value, type-strictly (0 is not false is not 0.0)."""
    try:
        return struct_key(_norm_json(a)) == struct_key(_norm_json(b))
    except (TypeError, ValueError, RecursionError):
        return False


def json_able(v):
    """Does the value have a JSON form (finite numbers only)?"""
    try:
        json.dumps(v, allow_nan=False)
        return True
    except (TypeError, ValueError, RecursionError):
        return False


def _ret_expect(v, uj, exp):
    if v == RAISING and isinstance(v, str):
        if uj:
            exp["code"] = -32603      # "return values whose conversion fails"
            exp["exc"] = ("ValueError", "cannot serialize")
        else:
            exp["code"] = UNSPEC      # a result without JSON form: the texts fix the id and the count, not the code
    elif isinstance(v, str) and v in VALUE_MARKERS:
        exp["code"] = UNSPEC
    elif not json_able(v):
        exp["code"] = UNSPEC
    else:
        exp["code"] = None


def _beh_expect(beh, uj, exp, params=None):
    ex = raised_exception(beh)
    if ex is not None:
        exp["code"] = -32603
        exp["exc"] = (type(ex).__name__, str(ex))
    elif beh[0] == "ret":
        _ret_expect(beh[1], uj, exp)
    elif beh[0] == "echo" and not json_able(params):
        # the dispatch function returns the arguments it was given, and the class translator made them values without JSON
        # form (bytes, a set, ...): a result that cannot be sent — the texts fix the id and the count, not the code
        exp["code"] = UNSPEC
    else:
        exp["code"] = None


def _pick(d, method):
    if d[0] == "table":
        return d[1].get(method, d[2])
    return d


def expect_entry(entry, desc, uj, observed=None):
    """
    answered : does the entry get a response object
    id       : the id the response must carry (null when the entry has no id with a JSON value)
    code     : expected error code; None for a result; a tuple of admissible codes; UNSPEC when the texts do not decide
    exc      : (class name, text) the -32603 message must mention
    calls    : {(target, name): n} invocations this entry must cause (None: not decided)
    notif    : a well-formed notification
    """
    exp = {"answered": True, "id": None, "code": UNSPEC, "exc": None, "calls": {}, "notif": False}
    if not isinstance(entry, dict):
        exp["code"] = -32600
        return exp
    rid = entry.get("id", None)
    # "or null when that entry had no usable id": an id without JSON value (an instance, a set, tuple keys) cannot be echoed
    exp["id"] = rid if json_able(rid) else None
    has_marker = "jsonrpc" in entry or "id" in entry
    method = entry.get("method")
    params = entry.get("params", [])
    if isinstance(method, (bytes, bytearray)) and has_marker:
        # a method name the class translator turned into bytes: neither a JSON string nor one of the non-string JSON types the
        # texts list — not decided (nothing registered can be named by it: whatever runs is reported by the counters of C04)
        exp["code"] = UNSPEC
        exp["calls"] = None
        if "id" not in entry or rid is None or (isinstance(rid, str) and rid == ""):
            exp["notif"] = True
            exp["answered"] = False
        return exp
    if (not has_marker or not isinstance(method, str) or method == ""
            or not isinstance(params, (list, dict, tuple))):
        exp["code"] = -32600
        return exp
    if "id" not in entry or rid is None or (isinstance(rid, str) and rid == ""):
        exp["notif"] = True
        exp["answered"] = False
    if isinstance(params, tuple):
        exp["code"] = UNSPEC
        exp["calls"] = None
        return exp
    custom = desc.get("custom")
    if custom is not None:
        exp["calls"] = {("custom", method): 1}
        _beh_expect(_pick(custom, method), uj, exp, params)
        if exp["exc"]:
            exp["exc_fmt"] = "plain"
        return exp
    for name, c in desc.get("funcs", []):
        if name == method:
            return _callable_expect(c, "func", method, params, uj, exp, observed)
    inst = desc.get("inst")
    if inst is None:
        exp["code"] = -32601
        return exp
    if inst.get("dispatch") is not None:
        beh = _pick(inst["dispatch"], method)
        ex = raised_exception(beh)
        if ex is not None and isinstance(ex, AttributeError):
            exp["code"] = UNSPEC       # falls through to attribute resolution: not described by the properties
            exp["calls"] = None
            return exp
        exp["calls"] = {("instDispatch", method): 1}
        _beh_expect(beh, uj, exp, params)
        if exp["exc"]:
            exp["exc_fmt"] = "plain"
        return exp
    segs = method.split(".")
    if any(s.startswith("_") for s in segs):
        exp["code"] = -32601
        return exp
    children = inst.get("attrs", [])
    node = None
    for s in segs:
        if node == "none":
            exp["code"] = -32601       # None has no public attribute
            return exp
        node = None
        for n, a in children:
            if n == s:
                node = a
                break
        if node is None:
            exp["code"] = -32601
            return exp
        children = node[1] if node != "none" else []
    if node == "none" or node[0] is None:
        exp["code"] = UNSPEC           # an attribute that is None / not callable: outside the stated domain; nothing can run
        return exp
    return _callable_expect(node[0], "attr", method, params, uj, exp, observed)


def _observed_row(observed, beh, params):
    want = struct_key(params)
    for p, out in (observed or {}).get(opaque_key(beh), []):
        if struct_key(p) == want:
            return out
    return None


def _own_signature_binds(obj, params):
    """Python's own verdict on whether the registered object accepts the arguments — by its *own* signature (a decorator
    wrapper's `(*args, **kwargs)`, a partial's reduced signature); None when it publishes none (`dict`)."""
    try:
        sig = inspect.signature(obj, follow_wrapped=False)
    except (TypeError, ValueError):
        return None
    try:
        if isinstance(params, list):
            sig.bind(*params)
        else:
            sig.bind(**params)
        return True
    except TypeError:
        return False


def _callable_expect(c, target, method, params, uj, exp, observed=None):
    sig, beh = c[0], c[1]
    if beh[0] == "opaque":
        return _opaque_expect(beh, target, method, params, uj, exp, observed)
    if isinstance(params, dict) and not all(isinstance(k, str) for k in params):
        exp["code"] = -32602
        return exp
    if not python_binds(sig, params):
        exp["code"] = -32602
        return exp
    exp["calls"] = {(target, method): 1}
    _beh_expect(beh, uj, exp)
    return exp


def _opaque_expect(beh, target, method, params, uj, exp, observed):
    """A builtin / partial / callable object / decorated function: judged by what Python itself does with a twin."""
    out = _observed_row(observed, beh, params)
    if out is None:
        exp["code"] = UNSPEC
        exp["calls"] = None
        return exp
    entered = out[-1]
    exp["calls"] = {(target, method): entered} if entered else {}
    binds = _own_signature_binds(make_opaque(beh, method, target, []), params)
    if out[0] == "ret":
        _ret_expect(out[1], uj, exp)
        return exp
    ex, depth = out[1], out[2]
    if isinstance(ex, TypeError) and depth == 0:
        # the callable refused the call without a frame of its own: an argument mismatch when its signature says so; when
        # the arguments bind (len(5)) or no signature is published (dict(1)) the texts allow both readings
        exp["code"] = -32602 if binds is False else (-32602, -32603)
        return exp
    exp["code"] = -32603
    exp["exc"] = (type(ex).__name__, str(ex))
    return exp


def expected_entries(r):
    """(top-level kind, [expectations]) for a case whose body was parsed: kind in single/batch/nodata."""
    v = r.loaded
    uj = r.case["uj"]
    desc = r.case["reg"]
    try:
        falsy = not v
    except Exception:  # noqa: BLE001
        falsy = False
    if falsy:
        return "nodata", [{"answered": True, "id": None, "code": -32600, "exc": None, "calls": {}, "notif": False}]
    if isinstance(v, list):
        return "batch", [_unusable_id(e, expect_entry(e, desc, uj, r.observed)) for e in v]
    return "single", [_unusable_id(v, expect_entry(v, desc, uj, r.observed))]


def _unusable_id(entry, exp):
    """An id without JSON value (a bean, a set, tuple keys) cannot be sent: the response of that entry is answered with a
    null id, and the texts do not say with which code."""
    if isinstance(entry, dict) and not json_able(entry.get("id", None)):
        exp["code"] = UNSPEC
        exp["exc"] = None
    return exp


def responses_of(r):
    """The response objects of the real reply as a list (or None when it is not a document)."""
    if r.reply[0] == "empty":
        return []
    if r.reply[0] != "doc":
        return None
    return r.reply[1] if isinstance(r.reply[1], list) else [r.reply[1]]


def case_domain(r):
    """Common domain guard of the monitors."""
    if r.case["pool"] == "full":
        return False       # a bounded, full notification queue: outside the quantifier of every property
    if not in_c02_domain(r.case["body"]):
        return False
    if not r.parse_error and has_nonfinite(r.loaded):
        return False       # DESIGN 3.2: floats are finite; a literal that overflows a double (1e400) is read as inf
    return True


# ---- C02 ------------------------------------------------------------------------------------

def wf_error(e):
    return (isinstance(e, dict) and type(e.get("code")) is int and "code" in e
            and isinstance(e.get("message"), str))


def wf_response(d):
    if not isinstance(d, dict):
        return "response is not an object"
    if "jsonrpc" in d:
        if d["jsonrpc"] != "2.0" or not isinstance(d["jsonrpc"], str):
            return "jsonrpc member is %r" % (d["jsonrpc"],)
        if "id" not in d:
            return "2.0 response without id"
        if ("result" in d) == ("error" in d):
            return "2.0 response must have exactly one of result/error"
        if "error" in d and not wf_error(d["error"]):
            return "ill-formed error object %r" % (d["error"],)
        return None
    for k in ("result", "error", "id"):
        if k not in d:
            return "1.0 response without %s" % k
    if d["error"] is None:
        return None
    if d["result"] is not None:
        return "1.0 failure with non-null result"
    if not wf_error(d["error"]):
        return "ill-formed error object %r" % (d["error"],)
    return None


def _reject_constant(name):
    raise ValueError("non-standard literal %s" % name)


def monitor_c02(r):
    if not case_domain(r):
        return None
    if r.kind == "err":
        return "dispatcher raised %s: %s" % (type(r.raw).__name__, str(r.raw)[:200])
    text = r.raw
    if not isinstance(text, str):
        return "dispatcher returned %r" % (text,)
    if text == "":
        return None
    try:
        text.encode("utf-8")
    except UnicodeEncodeError as ex:
        return "reply is not a character sequence that can be sent (UTF-8): %s" % str(ex)[:120]
    try:
        doc = json.loads(text, parse_constant=_reject_constant)
    except ValueError as ex:
        return "reply is not JSON: %s" % ex
    if isinstance(doc, list):
        if not doc:
            return "reply is an empty array"
        for x in doc:
            m = wf_response(x)
            if m:
                return m
        return None
    return wf_response(doc)


def monitor_post(r):
    """do_POST through a fake connection: it does not raise, answers once, never with a server-error status when the
    dispatcher itself returned, and sends the dispatcher's reply as the body."""
    if r.post is None or not case_domain(r):
        return None
    status, body, _headers = r.post
    if status == "raised":
        return "do_POST raised %s" % body
    if len(status) != 1:
        return "do_POST sent %d status lines %r" % (len(status), status)
    if r.kind == "ok" and isinstance(r.raw, str):
        if status[0] >= 500:
            return "do_POST answered status %r although the dispatcher returned a reply" % (status[0],)
        a = canon_real_reply("ok", body.decode("utf-8"))
        if struct_key(list(a)) != struct_key(list(r.reply)):
            return "do_POST body differs from the dispatcher's reply"
    return None


# ---- C03 / C04 --------------------------------------------------------------------------------

def monitor_c03(r):
    if not case_domain(r) or r.parse_error:
        return None
    kind, exps = expected_entries(r)
    answered = [e for e in exps if e["answered"]]
    if r.kind == "err":
        # no reply at all: "exactly one response per non-notification entry" / "a batch that produces no response yields an
        # empty body" cannot hold, whatever the ids were
        if answered:
            return "%d entries must be answered (ids %s), the dispatcher raised %s: %s instead of replying" % (
                len(answered), ascii([e["id"] for e in answered])[:200], type(r.raw).__name__, str(r.raw)[:120])
        return "no entry calls for a response: the body must be empty, the dispatcher raised %s: %s" % (
            type(r.raw).__name__, str(r.raw)[:120])
    resp = responses_of(r)
    if resp is None:
        return None
    if not answered:
        if r.reply[0] != "empty":
            return "no entry calls for a response, yet the reply is %r" % (r.raw[:200],)
        return None
    if r.reply[0] == "empty":
        return "%d entries must be answered, the body is empty" % len(answered)
    if kind == "batch" and not isinstance(r.reply[1], list):
        return "a batch must be answered with an array, the reply is the single object %r" % (r.raw[:200],)
    if kind != "batch" and isinstance(r.reply[1], list):
        return "a single request was answered with an array"
    if len(resp) != len(answered):
        return "%d responses for %d entries to answer" % (len(resp), len(answered))
    for i, (d, e) in enumerate(zip(resp, answered)):
        if not isinstance(d, dict) or "id" not in d:
            return "response %d has no id" % i
        if not json_same(d["id"], e["id"]):
            return "response %d carries id %r, its entry has %r" % (i, d["id"], e["id"])
    return None


def call_counts(log):
    counts = {}
    for e in log:
        if e[0] == "call":
            k = (e[1], e[2] if isinstance(e[2], str) else repr(e[2]))
            counts[k] = counts.get(k, 0) + 1
    return counts


def monitor_c04(r):
    """Notifications: never answered (count of responses, HTTP body), executed exactly once (invocation counters after the
    drain) — also when the dispatcher blows up on them."""
    if not case_domain(r):
        return None
    if r.parse_error:
        # "a well-formed request": what the body is, is not for the parser under test to say — a JSON text (RFC 8259) that
        # holds a well-formed notification and was answered as a parse failure has been answered, and has not been executed
        import servercases_ws as sw
        r2 = sw.reread(r)
        m = monitor_c04(r2) if r2 is not None else None
        return ("RFC 8259 accepts the body, which holds a well-formed notification, yet it was turned away as a parse "
                "failure: " + m) if m else None
    kind, exps = expected_entries(r)
    if not any(e["notif"] for e in exps):
        return None
    if r.kind == "err":
        return ("the dispatcher raised %s: %s on a body holding a well-formed notification (it must be executed once and "
                "never answered)" % (type(r.raw).__name__, str(r.raw)[:120]))
    if r.post is not None and all(e["notif"] for e in exps):
        status, body, _h = r.post
        if status == "raised":
            return "do_POST raised %s on a notification" % body
        if body:
            return "a notification was answered over HTTP (status %r) with the body %r" % (status, body[:200])
    resp = responses_of(r)
    if resp is None:
        return None
    n_answer = len([e for e in exps if e["answered"]])
    if len(resp) > n_answer:
        return "%d response objects although only %d entries are not notifications" % (len(resp), n_answer)
    if len(resp) < n_answer:
        return ("%d response objects although %d entries are not notifications (an id other than absent/null/'' was "
                "taken for a notification)" % (len(resp), n_answer))
    if any(e["calls"] is None for e in exps):
        return None
    want = {}
    for e in exps:
        for k, n in e["calls"].items():
            want[k] = want.get(k, 0) + n
    got = call_counts(r.log)
    if want != got:
        return "invocation counters %r, expected %r" % (sorted(got.items()), sorted(want.items()))
    return None


# ---- C05 ------------------------------------------------------------------------------------

def _code_ok(want, code):
    if isinstance(want, tuple):
        return code in want
    return code == want


def _rfc_rejects(body):
    import servercases_ext as sx
    return sx.rfc8259_accepts(body) is False


def monitor_c05(r):
    if not case_domain(r):
        return None
    if r.parse_error:
        # -32700 is for malformed JSON: a body RFC 8259 accepts (read by the harness itself, servercases_ws.reread) whose
        # entries call for a result or another code did not get them
        import servercases_ws as sw
        r2 = sw.reread(r)
        m = monitor_c05(r2) if r2 is not None else None
        if m:
            return "RFC 8259 accepts the body, yet it was answered as a parse failure: " + m
    if r.kind == "err":
        if r.parse_error or _rfc_rejects(r.case["body"]):
            # "Malformed JSON (or a payload the class translator rejects) is answered with a single -32700 error"
            return "a body the parser/translator rejects was not answered with -32700: the dispatcher raised %s: %s" % (
                type(r.raw).__name__, str(r.raw)[:120])
        return None
    resp = responses_of(r)
    if resp is None:
        return None
    # "Malformed JSON ... texts rejected by RFC 8259": judged by the recogniser of the harness (servercases_ext.rfc8259_accepts),
    # not by what the parser under test made of the body.  The empty body is such a text (`ws value ws` needs a value);
    # bodies that *parse* to a falsy value (null, [], {}, 0, false, "") are "no request data" (-32600, expected_entries).
    rejected = r.parse_error
    why = "the parser/translator rejects the body"
    if not rejected:
        import servercases_ext as sx
        if sx.rfc8259_accepts(r.case["body"]) is False:
            rejected = True
            why = "RFC 8259 rejects the body"
    if rejected:
        if r.reply[0] != "doc" or isinstance(r.reply[1], list):
            return "%s: it must be answered with a single -32700 error object, the reply is %r" % (why, (r.raw or "")[:200])
        d = r.reply[1]
        code = d.get("error", {}).get("code") if isinstance(d, dict) and isinstance(d.get("error"), dict) else None
        if code != -32700:
            return "%s, answered with code %r: %r" % (why, code, (r.raw or "")[:200])
        if r.log:
            return "%s, yet something was invoked: %r" % (why, r.log[:2])
        return None
    if r.parse_error:
        if r.reply[0] != "doc" or isinstance(r.reply[1], list):
            return "a parse failure must be answered with a single error object"
        d = r.reply[1]
        code = d.get("error", {}).get("code") if isinstance(d.get("error"), dict) else None
        if code != -32700:
            return "parse failure answered with code %r" % (code,)
        if r.log:
            return "parse failure, yet something was invoked: %r" % (r.log[:2],)
        return None
    kind, exps = expected_entries(r)
    answered = [e for e in exps if e["answered"]]
    if len(resp) != len(answered):
        rejected = [e["code"] for e in answered if isinstance(e["code"], int)]
        if rejected:
            return "%d responses for %d entries to answer, among them rejected ones (codes %r)" % (
                len(resp), len(answered), sorted(set(rejected)))
    if len(resp) == len(answered):
        for i, (d, e) in enumerate(zip(resp, answered)):
            if e["code"] == UNSPEC or not isinstance(d, dict):
                continue
            err = d.get("error")
            code = err.get("code") if isinstance(err, dict) else None
            if e["code"] is None:
                if err is not None:
                    return "entry %d succeeds, answered with error %r" % (i, err)
                continue
            if not _code_ok(e["code"], code):
                return "entry %d must fail with %r, answered %r" % (i, e["code"], str(d)[:400])
            if code == -32603 and e["exc"]:
                msg = err.get("message")
                if not isinstance(msg, str) or e["exc"][0] not in msg or e["exc"][1] not in msg:
                    return "entry %d: -32603 message %r does not name %s / %r" % (
                        i, msg if not isinstance(msg, str) else msg[:300], e["exc"][0], e["exc"][1][:300])
    # rejected entries run nothing: every invocation belongs to an entry that was accepted (how often an accepted entry
    # runs is C04's and C01's business, not this property's)
    if all(e["calls"] is not None for e in exps):
        allowed = set()
        for e in exps:
            allowed.update(e["calls"])
        got = call_counts(r.log)
        extra = sorted(k for k in got if k not in allowed)
        if extra:
            return "invoked %r although every entry naming it was rejected (expected invocations only of %r)" % (
                extra, sorted(allowed))
    return None


def client_check(case, method, params, tamper=None):
    """
    A real ServerProxy wired to a real dispatcher: returns ('ok', value) / ('err', exception) and the expectation.
    `tamper(body) -> body` damages the request on the wire (parse errors, invalid requests).
    """
    real = Real(case["reg"], case["ver"], case["uj"], "absent")

    def handler(body):
        if tamper is not None:
            body = tamper(body)
        return real.disp._marshaled_dispatch(body, real.custom)

    cfg = jsonrpclib.config.Config(version=case["ver"], use_jsonclass=case["uj"])
    proxy = jsonrpclib.jsonrpc.ServerProxy("http://localhost/", transport=impl.LoopTransport(handler), config=cfg)
    k, v = impl.outcome(proxy._request, method, params)
    return k, v, real


# --------------------------------------------------------------------------------------------
# case generators

def wire_version(ver):
    return "2.0" if ver >= 2 else "absent"


def systematic_product(alpha_j, alpha_i, alpha_m, alpha_p):
    for j, i, m, p in itertools.product(alpha_j, alpha_i, alpha_m, alpha_p):
        yield build_request(j, i, m, p)


ALPHA9 = {
    "jsonrpc": ["absent", "2.0", "1.0", 2.0, None, "", [], {}, 0],
    "id": ["absent", None, "", 0, 1.5, "s", False, [1], {"k": 1}],
    "method": ["absent", "add", "boom", "nosuch", "ns._hidden", "", None, 7, ["add"]],
    "params": ["absent", [], [1, 2], {"a": 1, "b": 2}, {"c": 3}, [1], None, 5, "s"],
}


def batch_alphabet(k):
    """Seven kinds of batch entry; `k` varies the id."""
    rid = [1, 0, "s", 1.5, False, [1], {"k": 1}, -1, "0", True][k % 10]
    return [
        ("call", {"jsonrpc": "2.0", "id": rid, "method": "add", "params": [1, 2]}),
        ("notif", {"jsonrpc": "2.0", "method": "noargs"}),
        ("invalid", [{"jsonrpc": "2.0", "id": rid, "method": 5}, 1, {}, {"method": "add", "params": []}, "x", None, [],
                     {"jsonrpc": "2.0", "id": rid, "method": "add", "params": 3}][k % 8]),
        ("fail", {"jsonrpc": "2.0", "id": rid, "method": "boom", "params": [k]}),
        ("unknown", {"id": rid, "method": "nosuch", "params": []}),
        ("badargs", {"jsonrpc": "2.0", "id": rid, "method": "add", "params": {"a": 1}}),
        ("notif-fail", [{"jsonrpc": "2.0", "method": "boom"}, {"id": None, "method": "boom", "params": []},
                        {"jsonrpc": "2.0", "id": "", "method": "nosuch"}, {"jsonrpc": "2.0", "method": "add", "params": [1]},
                        {"jsonrpc": "2.0", "id": None, "method": "typeerr"}][k % 5]),
    ]


def all_batches(maxlen):
    n = 0
    for ln in range(1, maxlen + 1):
        for combo in itertools.product(range(7), repeat=ln):
            entries = []
            kinds = []
            for pos, c in enumerate(combo):
                kind, e = batch_alphabet(n + pos)[c]
                kinds.append(kind)
                entries.append(e)
            n += 1
            yield "+".join(kinds), entries


def random_batch(rng, maxlen, methods):
    ln = rng.randint(1, maxlen)
    kinds, entries = [], []
    for _ in range(ln):
        if rng.random() < 0.6:
            kind, e = rng.choice(batch_alphabet(rng.randrange(40)))
        else:
            kind = "rand"
            e = build_request(rng.choice(["2.0", "2.0", "absent", 2]), rng.choice(IDS), rng.choice(methods), rng.choice(PARAMS))
        kinds.append(kind)
        entries.append(e)
    return "+".join(kinds), entries


def random_single(rng, regname):
    methods = METHODS[regname]
    r = rng.random()
    j = rng.choice(["2.0", "2.0", "2.0", "absent"]) if r < 0.8 else rng.choice(JSONRPC)
    i = rng.choice(IDS)
    m = rng.choice(methods) if rng.random() < 0.9 else rng.choice(BAD_METHODS)
    p = rng.choice(PARAMS) if rng.random() < 0.9 else rng.choice(BAD_PARAMS)
    return build_request(j, i, m, p)


def descriptor_bodies(rng, n, methods):
    out = []
    for _ in range(n):
        d = rng.choice(DESCRIPTORS)
        where = rng.choice(["id", "params-item", "params", "method", "jsonrpc", "whole", "entry", "extra", "batch-of"])
        req = {"jsonrpc": "2.0", "id": rng.choice([1, "s", None]), "method": rng.choice(methods), "params": rng.choice(PARAMS[1:6])}
        if where == "id":
            req["id"] = d
        elif where == "params-item":
            req["params"] = [d]
        elif where == "params":
            req["params"] = d
        elif where == "method":
            req["method"] = d
        elif where == "jsonrpc":
            req["jsonrpc"] = d
        elif where == "whole":
            req = d
        elif where == "entry":
            req = [req, d, {"jsonrpc": "2.0", "id": d, "method": "add", "params": [1, 2]}]
        elif where == "extra":
            req["extra"] = d
        else:
            req = descriptor("builtins.list", [[req, {"jsonrpc": "2.0", "method": "noargs"}, dict(req, id=d)]])
        out.append(("descriptor/" + where, json.dumps(req)))
    return out


VALID_POOL_TEXTS = [
    '{"jsonrpc": "2.0", "method": "add", "params": [1, 2], "id": 1}',
    '{"jsonrpc":"2.0","method":"opt","params":{"a":"é\\u00e9","b":[1.5e3,-0.0,true,null]},"id":"x"}',
    '[{"jsonrpc": "2.0", "method": "add", "params": [1,2], "id": "1"}, {"jsonrpc": "2.0", "method": "noargs"}, {"id": 7, "method": "boom", "params": []}]',
    '{"id": null, "method": "noargs", "params": []}',
    ' {"method" : "star" , "id" : 0 , "jsonrpc" : "2.0" } ',
]


def std_cases(ctx, em):
    """
    The mixed case stream.  `em` (emphasis) scales the parts: keys single, batch, damaged, descriptor, noise,
    pool, randreg, post.  Every case is (registry, body, version, use_jsonclass, pool).
    """
    rng = ctx.rng
    cases = []

    def add(reg, body, kind, ver=None, uj=None, pool="absent", post=False):
        cases.append(make_case(reg, body, ver=rng.choice([1.0, 2.0]) if ver is None else ver,
                               uj=(rng.random() < 0.35) if uj is None else uj, pool=pool, kind=kind, post=post))

    regnames = ["funcs", "inst", "both", "instdisp", "custom", "customecho", "empty"] + NEW_REGISTRIES
    # a) single request objects
    if ctx.thorough and em.get("exhaustive_single"):
        for ver in (1.0, 2.0):
            for req in systematic_product(ALPHA9["jsonrpc"], ALPHA9["id"], ALPHA9["method"], ALPHA9["params"]):
                add(REGISTRIES["both"], json.dumps(req), "single/systematic", ver=ver, uj=False)
        ctx.exhaustive = not ctx.searching
    for _ in range(int(ctx.budget(420, 6000) * em.get("single", 1))):
        rn = rng.choice(regnames)
        add(REGISTRIES[rn], json.dumps(random_single(rng, rn)), "single/" + rn, post=rng.random() < em.get("post", 0.05))
    # every method of every registry at least once per run, as call and as notification
    for rn in regnames:
        for m in METHODS[rn]:
            p = rng.choice(PARAMS)
            add(REGISTRIES[rn], json.dumps(build_request("2.0", 1, m, p)), "single/" + rn, ver=2.0)
            add(REGISTRIES[rn], json.dumps(build_request("absent", rng.choice([None, ""]), m, p)), "notif/" + rn)
    # b) batches
    if ctx.thorough and em.get("exhaustive_batch"):
        for ver in (1.0, 2.0):
            for rn in ("both", "custom"):
                for kinds, entries in all_batches(3):
                    add(REGISTRIES[rn], json.dumps(entries), "batch/exhaustive", ver=ver, uj=False)
        ctx.exhaustive = not ctx.searching
    else:
        pick = list(all_batches(3))
        for kinds, entries in rng.sample(pick, int(60 * em.get("batch", 1))):
            add(REGISTRIES[rng.choice(["both", "custom", "instdisp"])], json.dumps(entries), "batch/sampled")
    for _ in range(int(ctx.budget(120, 2500) * em.get("batch", 1))):
        rn = rng.choice(["both", "both", "custom", "instdisp", "inst"])
        kinds, entries = random_batch(rng, 6, METHODS[rn])
        add(REGISTRIES[rn], json.dumps(entries), "batch/random%d" % len(entries), post=rng.random() < em.get("post", 0.05))
    # c) damaged texts
    texts = list(VALID_POOL_TEXTS)
    for t in texts:
        n = int(ctx.budget(16, 300) * em.get("damaged", 1))
        for body in damaged_texts(t, rng, n):
            add(REGISTRIES["both"], body, "damaged", post=rng.random() < em.get("post", 0.05))
    if ctx.thorough and em.get("exhaustive_damage"):
        t = VALID_POOL_TEXTS[0]
        for i in range(len(t)):
            add(REGISTRIES["both"], t[:i], "damaged/truncation", ver=2.0, uj=False)
            for ch in "{\"x":
                add(REGISTRIES["both"], t[:i] + ch + t[i + 1:], "damaged/corruption", ver=2.0, uj=False)
    # d) noise
    for body in NOISE:
        add(REGISTRIES["funcs"], body, "noise", post=True)
    for _ in range(int(ctx.budget(30, 600) * em.get("noise", 1))):
        v = gen.json_value(rng, 5, 3)
        add(REGISTRIES["both"], json.dumps(v), "noise/json")
        add(REGISTRIES["both"], "".join(rng.choice("{}[]\":,01 aé日\\\n-.eE+truefalsn") for _ in range(rng.randint(1, 25))), "noise/text")
    # e) descriptor-bearing bodies, class translation on
    for kind, body in descriptor_bodies(rng, int(ctx.budget(90, 2500) * em.get("descriptor", 1)), METHODS["both"]):
        add(REGISTRIES["both"], body, kind, uj=True)
    # f) notification pools
    for _ in range(int(ctx.budget(60, 1200) * em.get("pool", 1))):
        rn = rng.choice(["both", "custom", "instdisp"])
        if rng.random() < 0.5:
            body = json.dumps(build_request(rng.choice(["2.0", "absent"]), rng.choice(NOTIF_IDS + [1, 0]), rng.choice(METHODS[rn]),
                                            rng.choice(PARAMS)))
        else:
            body = json.dumps(random_batch(rng, 5, METHODS[rn])[1])
        add(REGISTRIES[rn], body, "pool/accepting", pool="accepting")
    for _ in range(4):
        rn = rng.choice(["both", "custom"])
        entries = random_batch(rng, 4, METHODS[rn])[1]
        entries.insert(rng.randint(0, len(entries)), {"jsonrpc": "2.0", "method": "add", "params": [1, 2]})
        add(REGISTRIES[rn], json.dumps(entries), "pool/full", pool="full")
    # g) random registries: signatures x argument shapes, instance trees, the whole exception space, opaque callables
    for _ in range(int(ctx.budget(60, 1500) * em.get("randreg", 1))):
        desc = random_registry(rng)
        ms = registry_methods(desc, rng)
        for _i in range(5):
            m = rng.choice(ms)
            sig = sig_of(desc, "func", m) or sig_of(desc, "attr", m)
            req = build_request(rng.choice(["2.0", "absent"]), rng.choice([1, 1, "s", None, "absent", 0]), m, random_params(rng, sig))
            add(desc, json.dumps(req), "randreg")
        if rng.random() < 0.3:
            entries = [build_request("2.0", rng.choice([i, "absent"]), rng.choice(ms), random_params(rng)) for i in range(rng.randint(2, 5))]
            add(desc, json.dumps(entries), "randreg/batch")
    # h) frame depth of exceptions, expression TypeErrors, builtins / partials / callable objects / decorators, None attributes,
    #    exceptions built without / with many / with non-JSON arguments, long texts, results the JSON library rejects:
    #    every method of the three registries against a spread of argument values, as call and as notification, per version
    depth_params = [[], [5], [[1, 2]], [1, 2], {"a": 1}, {"a": 1, "b": 2}, [1, 2, 3], {"obj": [1]}, {}]
    for rn in NEW_REGISTRIES:
        for m in METHODS[rn]:
            for p in rng.sample(depth_params, int(ctx.budget(3, 9))):
                add(REGISTRIES[rn], json.dumps(build_request("2.0", rng.choice([1, "x", 0]), m, p)), "depth/" + rn, post=rng.random() < 0.05)
            add(REGISTRIES[rn], json.dumps(build_request(rng.choice(["2.0", "absent"]), rng.choice(["absent", None, ""]), m,
                                                         rng.choice(depth_params))), "depth/notif", post=rng.random() < 0.3)
        for _ in range(int(ctx.budget(6, 60))):
            entries = [build_request(rng.choice(["2.0", "absent"]), rng.choice([i, i, "absent", None]), rng.choice(METHODS[rn]),
                                     rng.choice(depth_params)) for i in range(rng.randint(2, 6))]
            add(REGISTRIES[rn], json.dumps(entries), "depth/batch", pool=rng.choice(["absent", "absent", "accepting"]))
    # i) names that are not the registered name: padded, case-changed, NUL, NFKC look-alikes
    for rn in ("funcs", "inst", "depth", "instdisp", "custom"):
        base = [n for n in registry_methods(REGISTRIES[rn]) if n and not n.startswith("_")][:14]
        for n in rng.sample(base, min(len(base), int(ctx.budget(4, 14)))):
            for v in rng.sample(name_variants(n), int(ctx.budget(4, 15))):
                add(REGISTRIES[rn], json.dumps(build_request("2.0", 1, v, [1, 2])), "name-variant/" + rn)
    # j) long batches: one response per entry, whatever the length
    sizes = [64, 257] + ([1000] if ctx.budget(0, 1) or rng.random() < 0.34 else [])
    for n in sizes:
        entries = []
        for i in range(n):
            k = rng.random()
            if k < 0.7:
                entries.append({"jsonrpc": "2.0", "id": i, "method": "add", "params": [i, 1]})
            elif k < 0.8:
                entries.append({"jsonrpc": "2.0", "method": "noargs"})
            elif k < 0.9:
                entries.append({"jsonrpc": "2.0", "id": i, "method": "nosuch"})
            else:
                entries.append(i)
        add(REGISTRIES["funcs"], json.dumps(entries), "batch/long%d" % n, uj=False)
    add(REGISTRIES["funcs"], json.dumps([{"jsonrpc": "2.0", "id": i, "method": "add", "params": [i, 1]} for i in range(120)]),
        "batch/long120", ver=2.0, uj=False, post=True)
    # k) ids and members with escaped lone surrogates / non-BMP characters (valid JSON texts, pure ASCII on the wire), over
    #    HTTP too; numbers that overflow a double (outside the domain, must not crash the check)
    for rid in ["\ud800", "a\udc00b", ["\udfff"], "\U0001f600", {"k\ud83d": 1}]:
        add(REGISTRIES["funcs"], json.dumps(build_request("2.0", rid, "add", [1, 2])), "surrogate/id", post=True)
        add(REGISTRIES["funcs"], json.dumps([build_request("2.0", rid, "boom", []), build_request("2.0", 2, "add", [1, 2])]),
            "surrogate/batch", post=True)
    add(REGISTRIES["funcs"], json.dumps(build_request("2.0", 3, "one", ["\ud800"])), "surrogate/params", post=True)
    add(REGISTRIES["funcs"], json.dumps(build_request("2.0", 3, "add\udc80", [])), "surrogate/method", post=True)
    add(REGISTRIES["customecho"], json.dumps(build_request("2.0", 3, "e", ["\ud800\udc00", "\udc00\ud800"])), "surrogate/echo", post=True)
    for t in OVERFLOW_TEXTS:
        add(REGISTRIES["funcs"], t, "nondomain/overflow", post=True)
    # l) results the JSON library rejects next to results it accepts, translation off and on
    for uj in (False, True):
        for m in ("tuplekey", "setres", "bigint", "badser"):
            add(REGISTRIES["depth"], json.dumps(build_request("2.0", rng.choice([7, "x", [1]]), m, [])), "unserialisable/single", uj=uj)
            add(REGISTRIES["depth"], json.dumps([build_request("2.0", 1, "add", [1, 2]), build_request(rng.choice(["2.0", "absent"]), 2, m, []),
                                                 build_request("2.0", 3, "add", [3, 4])]), "unserialisable/batch", uj=uj,
                post=rng.random() < 0.3)
    # m) the input classes of harness/servercases_ext.py: values built by the class translator from builtin / standard-library
    #    types (translated/…), ids that are arrays / objects (structid/…), one forbidden production of RFC 8259 applied to a valid
    #    request (malformed/…, wellformed/…); scaled by em["translated"], em["structid"], em["malformed"] (absent: not generated)
    import servercases_ext as sx
    sx.extend_cases(ctx, em, rng, cases)
    # n) the input classes of harness/servercases_ws.py: the requests generated above wrapped in insignificant white space
    #    (ws/…, em["ws"]) or followed / preceded by text that is not white space (garbage/…, em["garbage"])
    import servercases_ws as sw
    sw.extend_cases(ctx, em, rng, cases)
    # o) the input class of harness/servercases_base.py: methods / dispatch functions raising an exception that is NOT an instance
    #    of Exception (SystemExit, KeyboardInterrupt, GeneratorExit, …: baseexc/…, em["baseexc"]; absent: not generated)
    if em.get("baseexc"):
        import servercases_base as sb
        sb.extend_cases(ctx, em, rng, cases)
    # p) the input classes of harness/servercases_names.py: reserved-looking and odd METHOD NAMES registered as functions, reachable
    #    on the instance, unregistered, next to real introspection (names/…, em["names"]); LONG BODIES of 1 KiB … 1 MiB with
    #    multi-byte characters at every alignment around powers of two, long ids / method names / params (longbody/…, em["longbody"])
    if em.get("names") or em.get("longbody"):
        import servercases_names as sn
        sn.extend_cases(ctx, em, rng, cases)
    return cases


# --------------------------------------------------------------------------------------------
# the run shared by C02..C05

def outcome_class(r):
    resp = responses_of(r)
    if r.kind == "err":
        return "raise"
    if not resp:
        return "empty"
    codes = []
    for d in resp[:4]:
        e = d.get("error") if isinstance(d, dict) else None
        codes.append(str(e.get("code")) if isinstance(e, dict) else "result")
    return ("batch:" if isinstance(r.reply[1], list) else "") + ",".join(codes)


def standard_run(ctx, pid, monitors, project, em, rule):
    ctx.rule = rule
    cases = std_cases(ctx, em)
    try:
        results = run_cases(ctx, cases)
    finally:
        stop_shared_pool()
    unmodelled = 0
    for r in results:
        for name, mon in monitors:
            m = mon(r)
            if m:
                ctx.violate(brief(r.case), "%s: %s" % (name, m), key="%s:%s" % (name, re.sub(r"[0-9]+", "#", m)[:70]))
        if compare(ctx, r, project):
            ctx.traces_validated += 1
        else:
            unmodelled += 1
        oc = outcome_class(r)
        ctx.count(case_repr={"kind": r.case["kind"], "body": r.case["body"][:300], "version": r.case["ver"],
                             "use_jsonclass": r.case["uj"], "pool": r.case["pool"],
                             "reply": (r.raw if isinstance(r.raw, str) else repr(r.raw))[:300]},
                  nontrivial_key=(r.case["kind"].split("/")[0], r.case["ver"], r.case["uj"], r.case["pool"], oc,
                                  "P" if not r.parse_error else "E") if oc != "empty" or r.log else None,
                  kind=r.case["kind"].split("/")[0] + "/" + ("raise" if r.kind == "err" else oc.split(",")[0][:12]))
        hk = r.case.get("hist")
        for k in ([hk] if isinstance(hk, str) else (hk or [])):
            ctx.hist["class:" + k] += 1
    if em.get("ws"):
        import servercases_ws as sw
        sw.twin_check(ctx, results, monitors[0][0])
    if em.get("textlayer"):
        import servercases_ext as sx
        sx.text_layer_check(ctx, results)
        ctx.assumptions.append(
            "text layer: the request body is judged by the recogniser of the RFC 8259 grammar (JRV.Model.JsonText) — compared on every "
            "body of the run with the parser the library really calls (jsonrpclib.jsonrpc.jloads; backend recorded as json_backend) "
            "and with an independent recogniser in the harness; integers beyond the int/str conversion limit and nesting beyond "
            "the parser's recursion limit (parse failures of RFC-valid texts) are not described")
    ctx.extra["unmodelled_cases"] = unmodelled
    ctx.extra["nondomain_cases"] = len([r for r in results if not case_domain(r)])
    ctx.assumptions.extend([
        "server model: instances of translated classes are truthy and compare unequal to None and '' (no __bool__/__len__/__eq__ overrides; Decimal/Fraction zero are not generated)",
        "server model: Python signatures without keyword-only / positional-only parameters; call binding validated against real defs on every run",
        "server model: the notification pool accepts tasks (unbounded queue, the default); a full bounded queue raises queue.Full out of the dispatcher (modelled, outside the properties' quantifier)",
        "server model: error message texts are compared as template tags (+ exception class and text for -32603), see harness/servercases.py canon_message",
        "domain: floats are finite (DESIGN 3.2) — a body whose numbers overflow a double (1e400) or that uses NaN/Infinity is generated, run and counted (nondomain_cases) but not judged; raised classes are ordinary exceptions (subclasses of Exception) with single-line rendering (no SyntaxError family, no exception groups)",
        "server model: a result integer of more than sys.get_int_max_str_digits() digits is not described by the model (judged by the monitors only)",
        "opaque callables (builtins, partials, callable objects, decorated functions): their behaviour on each argument value of a case is observed on a twin by Python itself and handed to the model as a table (ptable); their invocations are counted by the monitors where the callable can log, and are not part of the effect-log correspondence",
        "values that the line protocol cannot carry (bytes, foreign instances) are skipped and counted as unmodelled_cases",
    ])
    return results


def replay_case(payload, monitors):
    case = payload.get("case") or {}
    print("replaying body %r on registry with funcs %s (version %s, use_jsonclass %s, pool %s)" % (
        case.get("body"), [n for n, _ in case.get("reg", {}).get("funcs", [])], case.get("ver"), case.get("uj"), case.get("pool")))
    try:
        r = run_real(case)
    finally:
        stop_shared_pool()
    print("dispatcher ->", r.kind, repr(r.raw)[:1000])
    print("invocation log:", [e[:3] for e in r.log])
    bad = 0
    if "bare" in case:
        import servercases_ws as sw
        try:
            m = sw.replay_twin(case)
        finally:
            stop_shared_pool()
        if m:
            print("VIOLATION reproduced: %s" % m)
            bad = 1
    for name, mon in monitors:
        m = mon(r)
        if m:
            print("VIOLATION reproduced: %s: %s" % (name, m))
            bad = 1
    if not bad:
        print("no violation on this input")
    return bad


# ---- projections for the correspondence ------------------------------------------------------

def _resp_list(reply):
    if reply[0] != "doc":
        return None
    return reply[1] if isinstance(reply[1], list) else [reply[1]]


def proj_shape(reply, effects):
    """C02: raise / empty / document structure (member names, error member typing, jsonrpc value)."""
    rs = _resp_list(reply)
    if rs is None:
        return list(reply)

    def shape(d):
        if not isinstance(d, dict):
            return type(d).__name__
        out = {}
        for k, v in d.items():
            if k == "jsonrpc":
                out[k] = v
            elif k == "error":
                out[k] = dict((kk, type(vv).__name__) for kk, vv in v.items()) if isinstance(v, dict) else (None if v is None else "other")
            elif k == "result":
                out[k] = "null" if v is None else "value"
            else:
                out[k] = "present"
        return out
    return ["doc", isinstance(reply[1], list), [shape(d) for d in rs]]


def proj_ids(reply, effects):
    """C03: empty / single / array, and the ids in order."""
    rs = _resp_list(reply)
    if rs is None:
        return list(reply)
    return ["doc", isinstance(reply[1], list), [d.get("id", "<no id>") if isinstance(d, dict) else "<not an object>" for d in rs]]


def proj_notif(reply, effects):
    """C04: number of response objects and the effect log (calls made inline, tasks enqueued)."""
    rs = _resp_list(reply)
    if rs is None:
        return [list(reply), effects]
    return [["doc", isinstance(reply[1], list), len(rs)], effects]


def proj_codes(reply, effects):
    """C05: the error code of every response and — only where the property speaks of the message, i.e. for -32603 — the
    canonical message (exception class and text); and the effect log.  The -32700/-32600/-32601/-32602 texts are not
    compared: a reworded message is not a violation."""
    rs = _resp_list(reply)
    if rs is None:
        return [list(reply), effects]
    out = []
    for d in rs:
        e = d.get("error") if isinstance(d, dict) else None
        if not isinstance(e, dict):
            out.append("result")
        elif e.get("code") == -32603:
            out.append([e.get("code"), e.get("message")])
        else:
            out.append([e.get("code")])
    return [["doc", isinstance(reply[1], list), out], effects]
