"""
Input class `baseexc/…` of the server properties (harness/servercases.py, std_cases, em["baseexc"]): METHOD OUTCOMES THAT RAISE
AN EXCEPTION WHICH IS NOT AN INSTANCE OF `Exception`.

The property texts quantify over "all method outcomes (return, raise, unknown, bad arguments)".  `raise` is not only
`raise ValueError(..)`: a "quit" / "shutdown" handler calling `sys.exit()` raises SystemExit, a handler interrupted from the
console KeyboardInterrupt, a generator being closed GeneratorExit, a cancelled coroutine asyncio.CancelledError, and a user
class may derive from BaseException directly.  None of these is caught by `except Exception`; only a bare `except:` (the
handler around the method call in `SimpleJSONRPCDispatcher._dispatch`) or `except BaseException` does.  The other generators
draw raised classes from `servercases.EXC` (subclasses of Exception) only.

What is generated (histogram keys `class:baseexc/<path>/<flavour>/<shape>` and `class:baseexc-frame/<depth>`):

  path      func      a registered function raises it                                  (`_dispatch`, bare `except:`)
            attr      a callable attribute of the registered instance raises it        (same handler)
            opaque    a partial / callable object / decorated function raises it       (same handler, no Python frame of `_dispatch`'s callee)
            inst      the registered instance's own `_dispatch(method, params)` raises it   (`except AttributeError` in `_dispatch`
                      lets it through, `except BaseException` in `_marshaled_single_dispatch` takes it)
            custom    the custom dispatch function handed to `_marshaled_dispatch` raises it  (`except BaseException` there)
  flavour   SystemExit (sys.exit() with an integer / a text / nothing), a subclass of SystemExit, KeyboardInterrupt, GeneratorExit,
            BaseException itself, asyncio.CancelledError, a user class deriving from BaseException directly
  frame     raised in the callable's own frame (depth 1), in a helper (2), two helpers down (3)
  shape     the three notification shapes (2.0 without id, id null, id ""), a call with an id; alone, and inside a batch at the
            first / a middle / the last position next to calls and other notifications; both server versions; notification pool
            absent and (func / attr paths) accepting; a share over do_POST.

The monitors are the ones of the property (servercases.monitor_c04 …): nothing here judges.  All five paths are modelled
(`JRV.Callable.CallOutcome.raisedBase`; since fix 43f3faa the handler around the synchronous call of a dispatch function is
`except BaseException`, like the bare `except:` around a method call) and compared with the model like every other case.
"""
import json

import servercases as sc

FLAVOURS = [
    ("SystemExit-int", "SystemExit", None, [3]),
    ("SystemExit-text", "SystemExit", None, ["bye: now | really"]),
    ("SystemExit-none", "SystemExit", None, []),
    ("SystemExit-sub", "MyExit", None, [0]),
    ("KeyboardInterrupt", "KeyboardInterrupt", None, []),
    ("GeneratorExit", "GeneratorExit", None, []),
    ("BaseException", "BaseException", "base itself", None),
    ("CancelledError", "CancelledError", None, []),
    ("UserBase", "MyBaseError", "hé 日本", None),
    ("UserBase-args", "MyBaseError", None, [2, "two", "$opaque"]),
]
SIG_STAR = [[], 0, True, False]
SIG_ONE = [["a"], 1, False, True]


def _beh(cls, text, args, depth):
    opts = {"depth": depth}
    if args is not None:
        opts["args"] = args
    return ["raise", cls, text, opts]


def _name(i, depth):
    return "quit%d_%d" % (i, depth)


def _registries():
    """{registry name: (descriptor, [(path, method, flavour label, depth)])}"""
    funcs, attrs, targets_f, targets_a, targets_o = [], [], [], [], []
    ns_children = []
    for i, (label, cls, text, args) in enumerate(FLAVOURS):
        for depth in (1, 2, 3):
            n = _name(i, depth)
            funcs.append([n, [SIG_STAR if depth != 2 else SIG_ONE, _beh(cls, text, args, depth)]])
            targets_f.append(("func", n, label, depth))
            if depth == 1:
                attrs.append([n, [[SIG_STAR, _beh(cls, text, args, depth)], []]])
                targets_a.append(("attr", n, label, depth))
            else:
                ns_children.append([n, [[SIG_STAR, _beh(cls, text, args, depth)], []]])
                targets_a.append(("attr", "ns." + n, label, depth))
    attrs.append(["ns", [None, ns_children]])
    funcs.append(["add", [sc.SIGS[2], ["ret", 3]]])
    funcs.append(["noargs", [sc.SIGS[0], ["ret", "ok"]]])
    funcs.append(["boom", [sc.SIGS[5], ["raise", "ValueError", "boom"]]])
    attrs.append(["ok", [[sc.SIGS[5], ["ret", "ok"]], []]])
    opaque = []
    for i, (label, cls, text, args) in enumerate(FLAVOURS[:6]):
        kind = ["partial", "object", "deco"][i % 3]
        spec = {"sig": SIG_STAR, "beh": _beh(cls, text, args, 1)}
        if kind == "partial":
            spec["bound"] = []
        opaque.append(["o" + _name(i, 1), sc._opaque(kind, spec)])
        targets_o.append(("opaque", "o" + _name(i, 1), label, 1))
    table = dict((_name(i, 2), _beh(cls, text, args, 2)) for i, (label, cls, text, args) in enumerate(FLAVOURS))
    table.update({"known": ["ret", "fine"], "boom": ["raise", "ValueError", "ordinary"]})
    targets_d = [(_name(i, 2), label) for i, (label, _c, _t, _a) in enumerate(FLAVOURS)]
    return {
        "basefuncs": ({"funcs": funcs + opaque, "inst": None, "custom": None}, targets_f + targets_o),
        "baseattrs": ({"funcs": funcs[-3:], "inst": {"dispatch": None, "attrs": attrs}, "custom": None}, targets_a),
        "baseinst": ({"funcs": funcs[-3:], "inst": {"dispatch": ["table", table, ["raise", "AttributeError", "fall through"]],
                                                    "attrs": [["ok", [[sc.SIGS[5], ["ret", "ok"]], []]]]}, "custom": None},
                     [("inst", m, label, 2) for m, label in targets_d]),
        "basecustom": ({"funcs": funcs[-3:], "inst": None, "custom": ["table", table, ["raise", "KeyError", "no such method"]]},
                       [("custom", m, label, 2) for m, label in targets_d]),
    }


REGS = _registries()

NEIGHBOURS = [
    {"jsonrpc": "2.0", "id": 1, "method": "add", "params": [1, 2]},
    {"jsonrpc": "2.0", "method": "noargs"},
    {"jsonrpc": "2.0", "id": "n", "method": "boom", "params": []},
]


def _request(form, rid, method, params):
    return sc.build_request("2.0" if form == "2.0" else "absent", rid, method, params)


def _shapes(rng, thorough):
    """(shape label, jsonrpc form, id) — a 1.0 request without id is not a request at all, so `absent` goes with 2.0 only."""
    out = [("notif-noid", "2.0", "absent"), ("notif-null", rng.choice(["2.0", "1.0"]), None),
           ("notif-empty", rng.choice(["2.0", "1.0"]), ""), ("call", rng.choice(["2.0", "1.0"]), rng.choice([7, "x", 0, [1]]))]
    if thorough:
        out += [("notif-null", "1.0", None), ("notif-null", "2.0", None), ("notif-empty", "1.0", ""), ("notif-empty", "2.0", ""),
                ("call", "1.0", 5), ("call", "2.0", "s")]
    return out


def base_cases(ctx, rng, share, call_share=0.34):
    """`share` scales the number of (path, flavour, frame) targets beyond one per (path, flavour); `call_share` is the share of
    targets that also get the call-with-an-id shape in the quick tier (C03 asks for all of them)."""
    out = []

    def add(rn, path, label, depth, shape, where, body, pool="absent", post=False, ver=None):
        out.append(dict(sc.make_case(REGS[rn][0], json.dumps(body), ver=rng.choice([1.0, 2.0]) if ver is None else ver,
                                     uj=rng.random() < 0.2, pool=pool, kind="baseexc/%s/%s" % (path, where), post=post),
                        hist=["baseexc/%s/%s/%s-%s" % (path, label.split("-")[0], shape, where), "baseexc-frame/%d" % depth,
                              "baseexc-flavour/" + label],
                        basepath=path))

    for rn in ("basefuncs", "baseattrs", "baseinst", "basecustom"):
        targets = REGS[rn][1]
        if not ctx.thorough:
            # every flavour on every path in every run; the frame depths / shapes are spread over the run
            by = {}
            for t in targets:
                by.setdefault((t[0], t[2]), []).append(t)
            targets = [rng.choice(v) for _k, v in sorted(by.items())]
            extra = [t for t in REGS[rn][1] if t not in targets]
            targets += rng.sample(extra, min(len(extra), int(6 * share)))
        for path, method, label, depth in targets:
            params = rng.choice([[], [1], {"a": 1}]) if depth == 2 and path in ("func",) else rng.choice([[], [1, 2]])
            shapes = _shapes(rng, ctx.thorough)
            if not ctx.thorough:
                # the notification shapes are the subject; a call with an id on one target in three
                shapes = rng.sample(shapes[:3], 2) + ([shapes[3]] if rng.random() < call_share else [])
            for shape, form, rid in shapes:
                req = _request(form, rid, method, params)
                pool = "accepting" if (path in ("func", "attr") and rng.random() < 0.12) else "absent"
                add(rn, path, label, depth, shape, "alone", req, pool=pool, post=rng.random() < 0.25)
                pos = rng.choice(["first", "middle", "last"])
                nb = list(NEIGHBOURS)
                rng.shuffle(nb)
                nb = nb[:rng.randint(1, 3)]
                if pos == "first":
                    entries = [req] + nb
                elif pos == "last":
                    entries = nb + [req]
                else:
                    k = rng.randint(1, len(nb)) if len(nb) > 1 else 1
                    entries = nb[:k] + [req] + (nb[k:] or [NEIGHBOURS[0]])
                if ctx.thorough or rng.random() < 0.6:
                    add(rn, path, label, depth, shape, "batch-" + pos, entries, post=rng.random() < 0.15)
        # several notifications of this kind in one batch, and nothing else: the reply must be empty
        ms = [t[1] for t in REGS[rn][1]]
        for _ in range(2 if not ctx.thorough else 12):
            entries = [_request("2.0", rng.choice(["absent", None, ""]), rng.choice(ms), []) for _i in range(rng.randint(2, 4))]
            add(rn, REGS[rn][1][0][0], "mixed", 0, "notif-only", "batch-all", entries, post=rng.random() < 0.5)
    return out


def extend_cases(ctx, em, rng, cases):
    """Called at the end of servercases.std_cases."""
    cases.extend(base_cases(ctx, rng, em["baseexc"], em.get("baseexc_calls", 0.34)))
