"""
Input classes added to the case stream of the server properties C02 / C03 / C05 (harness/servercases.py, std_cases):

  translated/…   ids, params, argument values, method / jsonrpc / extra members, batch entries and whole bodies that the
                 class translator (`jsonclass.load`, use_jsonclass on) turns into instances of builtin or standard-library
                 types — bytes, bytearray, complex, set, frozenset, tuple, range, Decimal, Fraction, date/time types, UUID,
                 deque, OrderedDict, an integer beyond the int->str conversion limit, an exception instance, … — through
                 every response path (result, echoed result, result the JSON library rejects, -32600, -32601, -32602,
                 -32603 of a method / of a custom dispatcher / of an instance `_dispatch`), single and inside a batch, in
                 both request forms and server versions.
  structid/…     ids that are JSON arrays / objects (empty, nested, holding null / false / 0), through the same response
                 paths, single and at every position of a batch, both forms, both versions, with and without a pool.
  malformed/…    request texts built from valid requests by one production that RFC 8259 forbids (and the standard parser
                 enforces), next to the closest texts it allows: raw control characters U+0000-U+001F inside a string
                 (argument, named argument, id, method name, member name), unknown / short / non-hexadecimal escapes,
                 numbers (leading zeros, bare or leading '+', missing digits, hexadecimal / octal / underscores, non-ASCII
                 digits), literals in other spellings, single quotes and other string syntaxes, trailing / leading / doubled /
                 missing commas and colons, unquoted and non-string member names, comments, unbalanced brackets, white space
                 other than SP / TAB / LF / CR between tokens, byte-order marks, trailing text, empty and blank bodies.

  rfc8259_accepts   an RFC 8259 recogniser written from the grammar of the RFC: the judge of the C05 monitor ("texts
                    rejected by RFC 8259"); it looks neither at the code under test nor at the model.
  text_layer_check  correspondence of the text layer: the verdict of the Lean recogniser (JRV.Model.JsonText.verdict,
                    driver component `jsontext`) against what the real `jsonrpclib.jsonrpc.jloads` does with every body
                    of the run, and against the recogniser above.
"""
import json
import re

import impl
import servercases as sc

jsonrpclib = impl.jsonrpclib
import jsonrpclib.jsonlib  # noqa: E402

# --------------------------------------------------------------------------------------------
# RFC 8259, written from the grammar (sections 2-7)

_RFC_WS = " \t\n\r"
_RFC_NUMBER = re.compile(r"-?(?:0|[1-9][0-9]*)(?:\.[0-9]+)?(?:[eE][-+]?[0-9]+)?")
_RFC_STRING = re.compile(r'"(?:[^"\\\x00-\x1f]|\\(?:["\\/bfnrt]|u[0-9a-fA-F]{4}))*"')
_RFC_MAX_DEPTH = 400


class _TooDeep(Exception):
    pass


def _rfc_ws(t, i):
    n = len(t)
    while i < n and t[i] in _RFC_WS:
        i += 1
    return i


def _rfc_value(t, i, depth):
    """Index after the value that starts at t[i], or -1."""
    if depth > _RFC_MAX_DEPTH:
        raise _TooDeep()
    if i >= len(t):
        return -1
    c = t[i]
    if c == '"':
        m = _RFC_STRING.match(t, i)
        return m.end() if m else -1
    if c == "[":
        i = _rfc_ws(t, i + 1)
        if i < len(t) and t[i] == "]":
            return i + 1
        while True:
            i = _rfc_value(t, i, depth + 1)
            if i < 0:
                return -1
            i = _rfc_ws(t, i)
            if i >= len(t):
                return -1
            if t[i] == "]":
                return i + 1
            if t[i] != ",":
                return -1
            i = _rfc_ws(t, i + 1)
    if c == "{":
        i = _rfc_ws(t, i + 1)
        if i < len(t) and t[i] == "}":
            return i + 1
        while True:
            m = _RFC_STRING.match(t, i) if i < len(t) and t[i] == '"' else None
            if not m:
                return -1
            i = _rfc_ws(t, m.end())
            if i >= len(t) or t[i] != ":":
                return -1
            i = _rfc_value(t, _rfc_ws(t, i + 1), depth + 1)
            if i < 0:
                return -1
            i = _rfc_ws(t, i)
            if i >= len(t):
                return -1
            if t[i] == "}":
                return i + 1
            if t[i] != ",":
                return -1
            i = _rfc_ws(t, i + 1)
    for lit in ("true", "false", "null"):
        if t.startswith(lit, i):
            return i + len(lit)
    m = _RFC_NUMBER.match(t, i)
    return m.end() if m else -1


def rfc8259_accepts(text):
    """Is the text a JSON-text of RFC 8259 (`ws value ws`)?  None when it nests deeper than the recogniser follows."""
    try:
        i = _rfc_value(text, _rfc_ws(text, 0), 0)
    except (_TooDeep, RecursionError):
        return None
    if i < 0:
        return False
    return _rfc_ws(text, i) == len(text)


# --------------------------------------------------------------------------------------------
# malformed/… : one forbidden production applied to a valid request

# templates: @S a site inside a string literal, @V a value site, @W a white-space site between tokens
STRING_TEMPLATES = [
    ("arg", '{"jsonrpc": "2.0", "method": "one", "params": ["a@Sb"], "id": 4}'),
    ("named", '{"jsonrpc": "2.0", "method": "opt", "params": {"a": "x@Sy"}, "id": "r1"}'),
    ("id", '{"jsonrpc": "2.0", "method": "star", "params": [1], "id": "i@Sd"}'),
    ("id-v1", '{"method": "star", "params": [], "id": "@S"}'),
    ("method", '{"jsonrpc": "2.0", "method": "star@S", "params": [], "id": 5}'),
    ("member", '{"jsonrpc": "2.0", "method": "star", "params": [], "id": 6, "x@Stra": 0}'),
    ("batch", '[{"jsonrpc": "2.0", "method": "add", "params": [1, 2], "id": 1}, {"jsonrpc": "2.0", "method": "one", "params": ["@S"], "id": 2}]'),
    ("notif", '{"jsonrpc": "2.0", "method": "one", "params": ["n@S"]}'),
]
VALUE_TEMPLATES = [
    ("arg", '{"jsonrpc": "2.0", "method": "star", "params": [@V], "id": 7}'),
    ("arg-v1", '{"method": "star", "params": [0, @V], "id": 8}'),
    ("named", '{"jsonrpc": "2.0", "method": "kw", "params": {"k": @V}, "id": 9}'),
    ("id", '{"jsonrpc": "2.0", "method": "star", "params": [], "id": @V}'),
    ("batch", '[{"jsonrpc": "2.0", "method": "star", "params": [@V], "id": 1}, {"jsonrpc": "2.0", "method": "add", "params": [1, 2], "id": 2}]'),
    ("notif", '{"jsonrpc": "2.0", "method": "star", "params": [@V]}'),
]
WS_TEMPLATES = [
    ("lead", '@W{"jsonrpc": "2.0", "method": "star", "params": [1], "id": 10}'),
    ("trail", '{"jsonrpc": "2.0", "method": "star", "params": [1], "id": 11}@W'),
    ("colon", '{"jsonrpc":@W"2.0", "method": "star", "params": [1], "id": 12}'),
    ("comma", '{"jsonrpc": "2.0",@W"method": "star", "params": [1,@W2], "id": 13}'),
    ("bracket", '[@W{"method": "star", "params": [@W], "id": 14}@W]'),
]
WHOLE_BASES = [
    '{"jsonrpc": "2.0", "method": "star", "params": [1], "id": 20}',
    '[{"jsonrpc": "2.0", "method": "star", "params": [], "id": 21}]',
    '{"method": "noargs", "params": [], "id": 22}',
]

_CONTROL = [(("control/U+%04X" % i), chr(i)) for i in range(32)]
STRING_BAD = _CONTROL + [
    ("escape/a", "\\a"), ("escape/v", "\\v"), ("escape/0", "\\0"), ("escape/e", "\\e"), ("escape/x41", "\\x41"),
    ("escape/apostrophe", "\\'"), ("escape/U8", "\\U00000041"), ("escape/N", "\\N{DOLLAR SIGN}"), ("escape/u-short2", "\\u12"),
    ("escape/u-short3", "\\u123"), ("escape/u-nonhex", "\\u12G4"), ("escape/u-sign", "\\u+123"), ("escape/u-space", "\\u 123"),
    ("escape/u-underscore", "\\u1_23"), ("escape/uu", "\\uu0041"), ("escape/d", "\\d"), ("escape/paren", "\\("),
    ("escape/newline", "\\\n"), ("escape/space", "\\ "), ("escape/u-nonascii-hex", "\\u00\u00e99"), ("escape/u-fullwidth", "\\u\uff10\uff10\uff14\uff11"),
    ("escape/octal", "\\101"), ("escape/upper-T", "\\T"), ("escape/u-upper", "\\U0041"), ("quote/bare", 'q"q'),
    ("escape/u-end", "\\u004"), ("control/CRLF", "\r\n"),
]
STRING_GOOD = [
    ("raw/U+007F", "\x7f"), ("raw/U+0080", "\x80"), ("raw/U+009F", "\x9f"), ("raw/U+00A0", "\xa0"), ("raw/U+2028", "\u2028"),
    ("raw/U+2029", "\u2029"), ("raw/U+FEFF", "\ufeff"), ("raw/U+FFFF", "\uffff"), ("raw/U+10FFFF", "\U0010ffff"), ("raw/e-acute", "\u00e9"),
    ("raw/slash", "/"), ("raw/apostrophe", "'"), ("raw/space", " "), ("raw/nothing", ""),
    ("escape/quote", '\\"'), ("escape/backslash", "\\\\"), ("escape/solidus", "\\/"), ("escape/b", "\\b"), ("escape/f", "\\f"),
    ("escape/n", "\\n"), ("escape/r", "\\r"), ("escape/t", "\\t"), ("escape/u0041", "\\u0041"), ("escape/u-mixed-case", "\\uabCD"),
    ("escape/u-lone-high", "\\ud800"), ("escape/u-lone-low", "\\uDFFF"), ("escape/u-pair", "\\ud83d\\ude00"), ("escape/u0000", "\\u0000"),
    ("escape/u001f", "\\u001f"), ("escape/double-backslash-t", "\\\\t"),
]
VALUE_BAD = [
    ("number/leading-zero", "01"), ("number/double-zero", "00"), ("number/neg-leading-zero", "-01"), ("number/trailing-point", "1."),
    ("number/leading-point", ".5"), ("number/neg-leading-point", "-.5"), ("number/point-exp", "1.e5"), ("number/exp-nodigit", "1e"),
    ("number/exp-plus-nodigit", "1e+"), ("number/exp-minus-nodigit", "1e-"), ("number/Exp-nodigit", "1E"), ("number/plus", "+1"),
    ("number/plus-zero", "+0"), ("number/hex", "0x10"), ("number/HEX", "0X1F"), ("number/octal", "0o7"), ("number/binary", "0b1"),
    ("number/underscore", "1_000"), ("number/arabic-digits", "\u0661\u0662"), ("number/fullwidth-digit", "\uff11"),
    ("number/ascii-then-arabic", "1\u0662"), ("number/minus", "-"), ("number/double-minus", "--1"), ("number/minus-space", "- 1"),
    ("number/two-points", "1.5.5"), ("number/two-exps", "1e5e5"), ("number/exp-fraction", "1e5.5"), ("number/suffix-L", "1L"),
    ("number/suffix-f", "1.0f"), ("number/fraction-bar", "1/2"), ("number/sum", "1+2"), ("number/parens", "(1)"), ("number/inf", "inf"),
    ("number/nan", "nan"), ("number/power", "2**3"), ("number/exp-point", "1e.5"), ("number/neg-exp-only", "-e5"), ("number/percent", "50%"),
    ("literal/True", "True"), ("literal/False", "False"), ("literal/None", "None"), ("literal/TRUE", "TRUE"), ("literal/Null", "Null"),
    ("literal/nul", "nul"), ("literal/tru", "tru"), ("literal/truee", "truee"), ("literal/nullx", "nullx"), ("literal/undefined", "undefined"),
    ("literal/nil", "nil"), ("literal/yes", "yes"), ("literal/t", "t"), ("literal/null-fullwidth", "nu\uff4cl"),
    ("string/single-quotes", "'single'"), ("string/backticks", "`tick`"), ("string/unterminated", '"open'), ("string/triple", '"""t"""'),
    ("string/concatenation", '"a" "b"'), ("string/bytes-prefix", 'b"x"'), ("string/raw-prefix", 'r"x"'), ("string/u-prefix", 'u"x"'),
    ("string/f-prefix", 'f"x"'), ("string/raw-newline", '"line\nbreak"'), ("string/raw-tab", '"tab\there"'), ("string/curly-quotes", "\u201cx\u201d"),
    ("string/bare-word", "word"), ("string/lone-quote", '"'), ("string/backslash-end", '"x\\"'),
    ("array/trailing-comma", "[1,]"), ("array/leading-comma", "[,1]"), ("array/double-comma", "[1,,2]"), ("array/only-comma", "[,]"),
    ("array/missing-comma", "[1 2]"), ("array/semicolon", "[1;2]"), ("array/unclosed-inner", "[1, [2]"), ("array/extra-close", "[1]]"),
    ("array/mismatch", "[1}"), ("array/parens", "(1, 2)"), ("array/angle", "<1>"), ("array/set-braces", "{1, 2}"), ("array/colon", "[1:2]"),
    ("object/trailing-comma", '{"a":1,}'), ("object/double-comma", '{"a":1,,"b":2}'), ("object/leading-comma", '{,"a":1}'),
    ("object/missing-colon", '{"a" 1}'), ("object/equals", '{"a"=1}'), ("object/arrow", '{"a"=>1}'), ("object/no-value", '{"a":}'),
    ("object/no-colon-value", '{"a"}'), ("object/no-name", "{:1}"), ("object/unquoted-name", "{a:1}"), ("object/single-quoted-name", "{'a':1}"),
    ("object/number-name", "{1:2}"), ("object/null-name", "{null:1}"), ("object/true-name", "{true:1}"), ("object/array-name", '{["a"]:1}'),
    ("object/missing-comma", '{"a":1 "b":2}'), ("object/extra-close", '{"a":1}}'), ("object/mismatch", '{"a":1]'), ("object/double-colon", '{"a"::1}'),
    ("object/spread", '{"a":1, **{}}'), ("object/comma-only", "{,}"), ("object/semicolon", '{"a":1;"b":2}'),
    ("comment/block-before", "/* c */ 1"), ("comment/block-after", "1 /* c */"), ("comment/line-before", "// c\n1"), ("comment/line-after", "1 // c"),
    ("comment/hash-before", "# c\n1"), ("comment/hash-after", "1 # c"), ("comment/html", "<!-- c --> 1"), ("comment/block-inside-array", "[1, /* c */ 2]"),
    ("empty/nothing", ""), ("empty/comma", ","),
]
VALUE_GOOD = [
    ("number/zero", "0"), ("number/neg-zero", "-0"), ("number/zero-fraction", "0.0"), ("number/neg-zero-exp", "-0.0e0"), ("number/Exp", "1E5"),
    ("number/exp-plus", "1e+5"), ("number/exp-minus", "1e-5"), ("number/ten", "10"), ("number/long", "123456789012345678901234567890"),
    ("number/fraction-Exp", "1.5E-3"), ("number/zero-exp", "0e0"), ("number/exp-leading-zeros", "1e007"), ("number/fraction-trailing-zeros", "1.500"),
    ("literal/true", "true"), ("literal/false", "false"), ("literal/null", "null"),
    ("string/empty", '""'), ("string/apostrophe", '"it\'s"'), ("string/comment-inside", '"/* not a comment */"'), ("string/brackets-inside", '"[1,]"'),
    ("array/empty", "[]"), ("array/spaced", "[ 1 , 2 ]"), ("array/nested-empty", "[[], {}]"), ("array/newlines", "[\n1,\r\n2\t]"),
    ("object/empty", "{}"), ("object/spaced", '{ "a" : 1 }'), ("object/empty-name", '{"": 0}'), ("object/duplicate-names", '{"a": 1, "a": 2}'),
    ("object/nested", '{"a": {"b": [null]}}'),
]
WS_BAD = [
    ("ws/form-feed", "\x0c"), ("ws/vertical-tab", "\x0b"), ("ws/NUL", "\x00"), ("ws/U+001C", "\x1c"), ("ws/U+001D", "\x1d"), ("ws/U+001E", "\x1e"),
    ("ws/U+001F", "\x1f"), ("ws/backspace", "\x08"), ("ws/NEL", "\x85"), ("ws/NBSP", "\xa0"), ("ws/ogham", "\u1680"), ("ws/en-quad", "\u2000"),
    ("ws/thin-space", "\u2009"), ("ws/hair-space", "\u200a"), ("ws/zero-width-space", "\u200b"), ("ws/line-separator", "\u2028"),
    ("ws/paragraph-separator", "\u2029"), ("ws/narrow-nbsp", "\u202f"), ("ws/math-space", "\u205f"), ("ws/ideographic-space", "\u3000"),
    ("ws/BOM", "\ufeff"), ("ws/DEL", "\x7f"), ("ws/comment", "/**/"), ("ws/line-comment", "//\n"), ("ws/escaped-n", "\\n"), ("ws/comma", ","),
]
WS_GOOD = [("ws/space", " "), ("ws/tab", "\t"), ("ws/LF", "\n"), ("ws/CR", "\r"), ("ws/CRLF", "\r\n"), ("ws/mixed", " \t\n\r "), ("ws/none", "")]
WHOLE = [
    ("whole/BOM-prefix", lambda t: "\ufeff" + t), ("whole/BOM-suffix", lambda t: t + "\ufeff"), ("whole/trailing-word", lambda t: t + " x"),
    ("whole/twice", lambda t: t + t), ("whole/twice-newline", lambda t: t + "\n" + t), ("whole/trailing-comma", lambda t: t + ","),
    ("whole/trailing-bracket", lambda t: t + "]"), ("whole/trailing-brace", lambda t: t + "}"), ("whole/trailing-NUL", lambda t: t + "\x00"),
    ("whole/leading-NUL", lambda t: "\x00" + t), ("whole/truncated-1", lambda t: t[:-1]), ("whole/truncated-half", lambda t: t[:len(t) // 2]),
    ("whole/leading-word", lambda t: "x" + t), ("whole/trailing-semicolon", lambda t: t + ";"), ("whole/parens", lambda t: "(" + t + ")"),
    ("whole/single-quoted", lambda t: t.replace('"', "'")), ("whole/python-repr", lambda t: t.replace("null", "None").replace('"id"', "'id'")),
    ("whole/jsonp", lambda t: "cb(" + t + ");"), ("whole/assignment", lambda t: "x = " + t), ("whole/trailing-form-feed", lambda t: t + "\x0c"),
    ("whole/leading-vertical-tab", lambda t: "\x0b" + t), ("whole/html-escaped", lambda t: t.replace('"', "&quot;")),
    ("whole/unquoted-names", lambda t: re.sub(r'"(\w+)":', r"\1:", t)), ("whole/backslash-quotes", lambda t: t.replace('"', '\\"')),
]
WHOLE_GOOD = [("whole/padded", lambda t: " \r\n\t" + t + "\n"), ("whole/as-is", lambda t: t)]
BLANK = [("blank/space", " "), ("blank/newline", "\n"), ("blank/tab-crlf", "\t\r\n"), ("blank/BOM", "\ufeff"), ("blank/NUL", "\x00"),
         ("blank/form-feed", "\x0c"), ("blank/NBSP", "\xa0")]


def malformed_texts():
    """[(site, production, body)] — the verdict (malformed / wellformed) is the recogniser's, computed on the body itself."""
    out = []
    for tn, tpl in STRING_TEMPLATES:
        for key, ins in STRING_BAD + STRING_GOOD:
            out.append(("string-" + tn, key, tpl.replace("@S", ins)))
    for tn, tpl in VALUE_TEMPLATES:
        for key, ins in VALUE_BAD + VALUE_GOOD:
            out.append(("value-" + tn, key, tpl.replace("@V", ins)))
    for tn, tpl in WS_TEMPLATES:
        for key, ins in WS_BAD + WS_GOOD:
            out.append(("between-tokens-" + tn, key, tpl.replace("@W", ins)))
    for i, base in enumerate(WHOLE_BASES):
        for key, f in WHOLE + WHOLE_GOOD:
            out.append(("body-%d" % i, key, f(base)))
    for key, body in BLANK:
        out.append(("body", key, body))
    for key, ins in VALUE_BAD + VALUE_GOOD:
        # the production as the whole body (top-level scalars are JSON texts)
        out.append(("top-level", key, ins))
    return out


def malformed_registry():
    """The callables the templates address (a small registry: the class has thousands of members)."""
    want = ("add", "noargs", "one", "opt", "star", "kw")
    return {"funcs": [f for f in sc.REGISTRIES["funcs"]["funcs"] if f[0] in want], "inst": None, "custom": None}


def malformed_cases(ctx, rng, share):
    """Cases of the malformed/… class.  `share` >= 1 or the thorough tier: every production at every site; below, every
    production at one site drawn by the seed plus a sample of the rest."""
    texts = malformed_texts()
    if share < 1 and not ctx.thorough:
        by_prod = {}
        for t in texts:
            by_prod.setdefault(t[1], []).append(t)
        picked = [rng.choice(v) for _k, v in sorted(by_prod.items())]
        chosen = set(id(t) for t in picked)
        rest = [t for t in texts if id(t) not in chosen]
        picked += rng.sample(rest, min(len(rest), int(len(texts) * share)))
        texts = picked
    reg = malformed_registry()
    out = []
    for site, prod, body in texts:
        ok = rfc8259_accepts(body)
        cls = "wellformed" if ok else "malformed"
        for ver in ((1.0, 2.0) if ctx.thorough else (rng.choice([1.0, 2.0]),)):
            out.append(dict(sc.make_case(reg, body, ver=ver, uj=rng.random() < 0.25, kind="%s/%s" % (cls, prod.split("/")[0]),
                                         post=rng.random() < 0.04),
                            hist=["%s/%s" % (cls, prod), "%s-site/%s" % (cls, site)]))
    return out


# --------------------------------------------------------------------------------------------
# translated/… : values the class translator builds from builtin / standard-library types

def _d(cls, params, **attrs):
    return sc.descriptor(cls, params, **attrs)


HUGE_HEX = "f" * 5000      # int("f" * 5000, 16): a power-of-two base is not subject to the digit limit; json.dumps of it raises

TRANSLATED = [
    ("bytes-empty", _d("builtins.bytes", [])), ("bytes", _d("builtins.bytes", [[104, 105]])), ("bytes-encoded", _d("builtins.bytes", ["h\u00e9", "utf-8"])),
    ("bytearray", _d("builtins.bytearray", [[1, 2]])), ("bytearray-empty", _d("builtins.bytearray", [])),
    ("complex", _d("builtins.complex", [1, 2])), ("set", _d("builtins.set", [[1]])), ("set-empty", _d("builtins.set", [])),
    ("frozenset", _d("builtins.frozenset", [[2]])), ("frozenset-empty", _d("builtins.frozenset", [])),
    ("tuple", _d("builtins.tuple", [[1, 2]])), ("tuple-empty", _d("builtins.tuple", [])), ("tuple-nested", _d("builtins.tuple", [[[1], {"a": 2}]])),
    ("decimal", _d("decimal.Decimal", ["1.5"])), ("decimal-zero", _d("decimal.Decimal", ["0"])), ("decimal-nan", _d("decimal.Decimal", ["NaN"])),
    ("fraction", _d("fractions.Fraction", [1, 3])), ("fraction-zero", _d("fractions.Fraction", [0])),
    ("date", _d("datetime.date", [2020, 1, 2])), ("datetime", _d("datetime.datetime", [2020, 1, 2, 3, 4, 5])), ("time", _d("datetime.time", [1, 2])),
    ("timedelta", _d("datetime.timedelta", [1])), ("timedelta-zero", _d("datetime.timedelta", [])),
    ("range", _d("builtins.range", [3])), ("range-empty", _d("builtins.range", [0])), ("slice", _d("builtins.slice", [1])),
    ("object", _d("builtins.object", [])), ("uuid", _d("uuid.UUID", ["12345678123456781234567812345678"])),
    ("ordereddict", _d("collections.OrderedDict", [[["a", 1]]])), ("ordereddict-empty", _d("collections.OrderedDict", [])),
    ("deque", _d("collections.deque", [[1, 2]])), ("counter", _d("collections.Counter", ["ab"])), ("defaultdict", _d("collections.defaultdict", [])),
    ("int-huge", _d("builtins.int", [HUGE_HEX, 16])), ("int", _d("builtins.int", ["7"])), ("float", _d("builtins.float", ["2.5"])),
    ("str-empty", _d("builtins.str", [])), ("str", _d("builtins.str", ["x"])), ("bool-false", _d("builtins.bool", [])),
    ("dict-empty", _d("builtins.dict", [])), ("list-empty", _d("builtins.list", [])), ("namespace", _d("types.SimpleNamespace", {"a": 1})),
    ("purepath", _d("pathlib.PurePosixPath", ["a/b"])), ("ipv4", _d("ipaddress.IPv4Address", ["1.2.3.4"])), ("array", _d("array.array", ["i", [1, 2]])),
    ("exception", _d("builtins.ValueError", ["boom"])), ("template", _d("string.Template", ["$x"])), ("enumerate", _d("builtins.enumerate", [[1]])),
    ("bytes-in-list", [_d("builtins.bytes", [[1]])]), ("bytes-in-dict", {"k": _d("builtins.bytes", [[1]])}),
    ("tuple-of-bytes", _d("builtins.tuple", [[_d("builtins.bytes", [[1]])]])),
]

# response paths: (name, registry, method, params for an ordinary call)
PATHS = [
    ("result", "funcs", "star", [1]), ("unknown", "funcs", "nosuch", []), ("badargs", "funcs", "add", [1]), ("raise", "funcs", "boom", []),
    ("echo", "customecho", "e", [1]), ("unserialisable", "depth", "tuplekey", []), ("unserialisable-set", "depth", "setres", []),
    ("custom-raise", "custom", "raise", []), ("custom-result", "custom", "known", []), ("inst-dispatch-raise", "instdisp", "raise", []),
    ("inst-attr", "inst", "pub", []), ("badser", "funcs", "badser", []),
]
WHERE = ["id", "params-item", "params", "named", "method", "jsonrpc", "extra", "entry", "whole", "invalid-method", "invalid-params"]


def _translated_request(where, d, path, form):
    _pn, _rn, method, params = path
    req = {"method": method, "params": list(params), "id": 31}
    if form == "2.0":
        req["jsonrpc"] = "2.0"
    if where == "id":
        req["id"] = d
    elif where == "params-item":
        req["params"] = [d]
    elif where == "params":
        req["params"] = d
    elif where == "named":
        req["params"] = {"a": d}
    elif where == "method":
        req["method"] = d
    elif where == "jsonrpc":
        req["jsonrpc"] = d
    elif where == "extra":
        req["extra"] = d
    elif where == "invalid-method":
        req["id"] = d
        req["method"] = 5
    elif where == "invalid-params":
        req["id"] = d
        req["params"] = 3
    elif where == "entry":
        return [dict(req, id=1), d, dict(req, id=d)]
    elif where == "whole":
        return d
    return req


def translated_cases(ctx, rng, share):
    """Every translated type x position x response path x single/batch x form would be ~50 x 11 x 12 x 2 x 2: the quick tier
    takes every type at the id position through every path (the fallback serialisation is per response) plus a seeded sample
    of the rest; the thorough tier the whole product at the id position and a larger sample elsewhere."""
    out = []

    def add(label, where, path, req, batch, ver, post=False):
        body = json.dumps(req)
        kind = "translated/" + where
        out.append(dict(sc.make_case(sc.REGISTRIES[path[1]], body, ver=ver, uj=True, kind=kind, post=post),
                        hist=["translated/%s/%s" % (label, where), "translated-path/%s/%s" % (path[0], "batch" if batch else "single")]))

    def wrap(req, batch, pos):
        if not batch:
            return req
        neighbours = [{"jsonrpc": "2.0", "method": "star", "params": [0], "id": 1}, {"method": "star", "params": [], "id": 3}]
        return neighbours[:pos] + [req] + neighbours[pos:]

    n_paths = len(PATHS) if ctx.thorough else max(2, int(4 * share))
    for label, d in TRANSLATED:
        paths = PATHS if ctx.thorough else ([PATHS[0]] + rng.sample(PATHS[1:], n_paths - 1))
        for path in paths:
            for batch in ((False, True) if ctx.thorough else (rng.random() < 0.4,)):
                form = rng.choice(["2.0", "1.0"])
                req = _translated_request("id", d, path, form)
                add(label, "id", path, wrap(req, batch, rng.randrange(3)), batch, rng.choice([1.0, 2.0]), post=rng.random() < 0.05)
        others = [w for w in WHERE if w != "id"]
        for where in (others if ctx.thorough else rng.sample(others, max(1, int(3 * share)))):
            path = rng.choice(PATHS)
            batch = where not in ("entry", "whole") and rng.random() < 0.3
            req = _translated_request(where, d, path, rng.choice(["2.0", "1.0"]))
            add(label, where, path, wrap(req, batch, rng.randrange(3)) if batch else req, batch, rng.choice([1.0, 2.0]))
    return out


# --------------------------------------------------------------------------------------------
# structid/… : ids that are JSON arrays / objects

STRUCT_IDS = [[], {}, [1], [1, "a"], {"k": 1}, {"k": [1]}, [[]], [{}], [None], {"": None}, [0], [False], [[1, [2, [3]]]], {"a": {"b": {"c": []}}},
              ["\u00e9", 1.5, True, None], {"jsonrpc": "2.0", "id": 1, "method": "add"}, [1] * 40]


def structid_cases(ctx, rng, share):
    out = []
    paths = PATHS + [("invalid-method", "funcs", 5, []), ("invalid-params", "funcs", "star", 3), ("notification-neighbour", "funcs", "noargs", [])]
    for i, rid in enumerate(STRUCT_IDS):
        label = "id%02d-%s" % (i, "array" if isinstance(rid, list) else "object")
        for path in (paths if ctx.thorough else rng.sample(paths, max(3, int(6 * share)))):
            pn, rn, method, params = path
            for form in (("2.0", "1.0") if ctx.thorough else (rng.choice(["2.0", "1.0"]),)):
                req = {"method": method, "params": params, "id": rid}
                if form == "2.0":
                    req["jsonrpc"] = "2.0"
                shapes = [("single", req)]
                pos = rng.randrange(3)
                nb = [{"jsonrpc": "2.0", "method": "star", "params": [0], "id": 1}, {"jsonrpc": "2.0", "method": "noargs"},
                      {"method": "star", "params": [], "id": [rid]}]
                shapes.append(("batch", nb[:pos] + [req] + nb[pos:]))
                for shape, body in (shapes if ctx.thorough else [rng.choice(shapes)]):
                    pool = "accepting" if rng.random() < 0.15 else "absent"
                    out.append(dict(sc.make_case(sc.REGISTRIES[rn], json.dumps(body), ver=rng.choice([1.0, 2.0]), uj=rng.random() < 0.3,
                                                 pool=pool, kind="structid/" + pn, post=rng.random() < 0.03),
                                    hist=["structid/%s/%s/%s" % (label.split("-")[1], pn, shape), "structid-id/%s/%s" % (label, form)]))
    return out


def extend_cases(ctx, em, rng, cases):
    """Called at the end of servercases.std_cases."""
    if em.get("translated"):
        cases.extend(translated_cases(ctx, rng, em["translated"]))
    if em.get("structid"):
        cases.extend(structid_cases(ctx, rng, em["structid"]))
    if em.get("malformed"):
        cases.extend(malformed_cases(ctx, rng, em["malformed"]))


# --------------------------------------------------------------------------------------------
# the text layer: model verdict / real parser / RFC recogniser

MAX_TEXT = 200000
MAX_INT_DIGITS = re.compile(r"[0-9]{4000}")


def text_domain(body):
    """Bodies on which the three judges are compared: the line protocol can carry them (UTF-8), no NaN/Infinity literal
    (outside the domain), no integer beyond the int/str conversion limit and no nesting the real parser answers with
    RecursionError (both are parse failures of an RFC-valid text: allowed by the properties, not described by the grammar)."""
    if len(body) > MAX_TEXT or not sc.in_c02_domain(body) or MAX_INT_DIGITS.search(body):
        return False
    try:
        body.encode("utf-8")
    except UnicodeEncodeError:
        return False
    return True


def text_layer_check(ctx, results):
    """For every distinct body of the run: the model's verdict (wellformed / malformed), what the real text-layer
    parser (`jsonrpclib.jsonrpc.jloads`, the function `loads` calls) does, and the RFC recogniser.  A difference between the
    model and the real parser is a disagreement (component `jsontext`)."""
    bodies = []
    seen = set()
    for r in results:
        b = r.case["body"]
        if b not in seen and text_domain(b) and not r.case.get("notext"):
            seen.add(b)
            bodies.append(b)
    if not bodies:
        return
    outs = ctx.lean(["jsontext S" + b.encode("utf-8").hex() for b in bodies])
    stats = {"wellformed": 0, "malformed": 0}
    for b, o in zip(bodies, outs):
        rfc = rfc8259_accepts(b)
        if rfc is None:
            continue
        k, v = impl.outcome(jsonrpclib.jsonrpc.jloads, b)
        if k == "err" and isinstance(v, RecursionError):
            continue
        real = "malformed" if k == "err" else "wellformed"
        real_loads = real
        if b != "":
            # `loads` returns None for the empty text without parsing it (the answer to a notification, client side); the
            # dispatcher rejects the empty body itself (fact emptyBodyRejectedInParseTry, `Z` cases of the srv component)
            k2, _v2 = impl.outcome(jsonrpclib.loads, b, jsonrpclib.config.Config(use_jsonclass=False))
            real_loads = "malformed" if k2 == "err" else "wellformed"
        want = "wellformed" if rfc else "malformed"
        if o != real or o != real_loads:
            ctx.disagree({"body": b[:600]}, "jloads: %s, loads: %s" % (real, real_loads), o, component="jsontext")
        if o != want:
            ctx.disagree({"body": b[:600]}, "RFC 8259 recogniser of the harness: " + want, o, component="jsontext-rfc")
        stats[o] = stats.get(o, 0) + 1
        ctx.traces_validated += 1
    for k, n in stats.items():
        ctx.hist["textlayer/" + k] += n
    ctx.extra["json_backend"] = type(jsonrpclib.jsonlib.get_handler()).__name__
