"""
Two input classes of the server properties C02-C05 (harness/servercases.py, std_cases):

`names/…` (em["names"]) — METHOD NAMES.  The property texts quantify over requests whose method "succeeds, raises or does not
exist": any non-empty string is a method name, and what a name *looks like* must not change how the request is treated.  The
other generators draw names from identifiers (`add`, `ns.meth`, …) and mutations of registered names.  Here every name of
`NAMES` — reserved-looking (`rpc.x`, `rpc`, `system.listMethods`, `system.x`), dots at the ends / doubled, digits first, Unicode
(also look-alikes of the reserved prefixes), white space, very long, Python keywords and constants, JSON-RPC member names,
format directives, names equal to attributes of the dispatcher class — is

    registered as a function          registry `oddfuncs`   (returns / raises / needs an argument, by position in the list)
    reachable on the instance         registry `oddinst`    (nested attributes built from the dotted name; names with an empty or
                                                             `_`-leading segment are unreachable there: unknown methods)
    not registered at all             registry `oddnone`
    next to real introspection        registry `oddintro`   (`register_introspection_functions()` on the real dispatcher; the three
                                                             `system.*` functions are opaque callables observed on a twin)

and requested as notification (2.0 without id, id null, id "") and as call, alone and inside batches, both server versions,
pool absent / accepting, a share over do_POST.  Histogram keys `class:names/<group>/<registry>/<shape>`.

`longbody/…` (em["longbody"]) — LONG BODIES.  "For every character sequence submitted as a request body": length is not bounded
by the property, and a body is characters, not bytes — anything on the reply path that works on the UTF-8 bytes (excerpts,
buffers, Content-Length) meets multi-byte characters at arbitrary byte offsets.  Generated: unparsable bodies (a truncated
valid request; plain text) and well-formed requests of 1 KiB … 1 MiB in which a 2-, 3- or 4-byte character starts at every
offset from B-4 to B of a power of two B (1024, 2048, 4096, 65536 in every run; the other powers up to 1 MiB sampled, all of
them in the thorough tier) — i.e. straddles B in every possible way or ends / starts exactly on it —, and long ids / method
names / parameter lists.  Histogram keys `class:longbody/<malformed|text|wellformed|member>/<B>/w<width>k<offset>`.

Nothing here judges: the monitors of the properties do.
"""
import json

import servercases as sc

S = sc.S

# ---- names ---------------------------------------------------------------------------------------------------------------

_DISPATCHER_ATTRS = ["register_function", "register_instance", "register_introspection_functions", "funcs", "instance",
                     "json_config", "encoding", "set_notification_pool", "system_listMethods", "system_methodHelp",
                     "allow_none", "use_builtin_types"]

GROUPS = {
    "reserved": ["rpc.x", "rpc.heartbeat", "rpc", "rpc.", ".rpc", "rpc..x", "rpc.x.y", "RPC.x", "Rpc.x", "rpcx", "rpc_x", "rpc.rpc.x",
                 "x.rpc.y", " rpc.x", "rpc. x"],
    "system": ["system.listMethods", "system.methodHelp", "system.methodSignature", "system.multicall", "system.x", "system",
               "system.", "System.listMethods", "system.listMethods.x", "system_listMethods"],
    "dots": [".", "..", "a.", ".a", "a..b", "a.b.c.d.e.f.g.h", "...a"],
    "digits": ["1st", "0", "123", "1.5", "-1", "1e3", "0x10", "3.x"],
    "unicode": ["é", "日本.語", "\U0001f600", "ｒｐｃ.x", "rрc.x", "rpc․x", "ſystem.x", "á", "İ", "ß.ß",
                "‮rpc.x"],
    "space": [" ", "a b", "\t", "x\n", " lead", "trail ", "a. b", "\r\n", " ", "　x"],
    "long": ["m" * 300, "n" * 3000, "a." * 40 + "b", "é" * 500],
    "keyword": ["class", "def", "None", "True", "False", "lambda", "import", "return", "self", "print", "exec", "__import__", "pass"],
    "member": ["jsonrpc", "id", "method", "params", "result", "error", "null", "true", "code", "message"],
    "format": ["*", "%s", "{0}", "{}", "%(x)s", "a/b", "a:b", "a|b", "\"q\"", "\\", "\x00", "a\x00b", "<x>", "a,b", "$x", "#", "?", "-"],
    "dispattr": _DISPATCHER_ATTRS + ["_dispatch", "_marshaled_dispatch", "__init__", "__class__", "__dict__"],
}
NAMES = [(g, n) for g in sorted(GROUPS) for n in GROUPS[g]]

SIG_STAR = [[], 0, True, True]
SIG_NEED = [["a"], 0, False, False]


def _callable(i):
    """By position: returns / raises / needs one argument (bad arguments when called without)."""
    k = i % 4
    if k == 0:
        return [SIG_STAR, ["ret", "r%d" % i]]
    if k == 1:
        return [SIG_STAR, ["raise", "ValueError", "odd %d" % i]]
    if k == 2:
        return [SIG_NEED, ["ret", i]]
    return [SIG_STAR, ["ret", None]]


def _reachable(name):
    segs = name.split(".")
    return all(s and not s.startswith("_") for s in segs)


def _tree(named):
    """Instance attribute tree [[name, [callable or None, children]]] in which every reachable dotted name is callable."""
    root = []

    def child(children, seg):
        for n, a in children:
            if n == seg:
                return a
        a = [None, []]
        children.append([seg, a])
        return a

    for name, c in named:
        if not _reachable(name):
            continue
        node = None
        children = root
        for seg in name.split("."):
            node = child(children, seg)
            children = node[1]
        node[0] = c
    return root


def _registries():
    """One registry of each kind per name group (a case line carries the registry: keep it to the names of the group)."""
    plain = [["add", [sc.SIGS[2], ["ret", 3]]], ["noargs", [sc.SIGS[0], ["ret", "ok"]]], ["boom", [sc.SIGS[5], ["raise", "ValueError", "boom"]]]]
    regs = {}
    i = 0
    for g in sorted(GROUPS):
        named = []
        for n in GROUPS[g]:
            named.append((n, _callable(i)))
            i += 1
        regs["oddfuncs/" + g] = {"funcs": [[n, c] for n, c in named] + plain, "inst": None, "custom": None}
        regs["oddinst/" + g] = {"funcs": plain, "inst": {"dispatch": None, "attrs": _tree(named)}, "custom": None}
    regs["oddnone"] = {"funcs": plain, "inst": {"dispatch": None, "attrs": [["ok", [[sc.SIGS[5], ["ret", "ok"]], []]]]}, "custom": None}
    intro_names = ["add", "noargs", "boom", "rpc.x", "system.x", "rpc.heartbeat"]
    intro_funcs = plain + [["rpc.x", _callable(0)], ["system.x", _callable(1)], ["rpc.heartbeat", _callable(3)]]
    all_names = sorted(intro_names + ["system.listMethods", "system.methodHelp", "system.methodSignature"])
    for fn in ("system.listMethods", "system.methodHelp", "system.methodSignature"):
        intro_funcs.append([fn, sc._opaque("intro", {"fn": fn, "names": all_names})])
    regs["oddintro"] = {"funcs": intro_funcs, "inst": None, "custom": None, "introspection": True}
    return regs


REGS = _registries()
INTRO_METHODS = [("system", "system.listMethods"), ("system", "system.methodHelp"), ("system", "system.methodSignature"),
                 ("system", "system.x"), ("system", "system.multicall"), ("reserved", "rpc.x"), ("reserved", "rpc.heartbeat"),
                 ("reserved", "rpc.missing"), ("system", "system.")]


def intro_twin(spec):
    """A dispatcher with the same names registered and real introspection: its `system.*` function stands for the real one."""
    d = S.SimpleJSONRPCDispatcher()
    for n in spec["names"]:
        if not n.startswith("system.list") and not n.startswith("system.method"):
            d.register_function(lambda *a, **k: None, n)
    d.register_introspection_functions()
    return d.funcs[spec["fn"]]


NEIGHBOURS = [
    {"jsonrpc": "2.0", "id": 1, "method": "add", "params": [1, 2]},
    {"jsonrpc": "2.0", "method": "noargs"},
    {"jsonrpc": "2.0", "id": "n", "method": "boom", "params": []},
]


def name_cases(ctx, rng, share):
    out = []

    def add(rn, group, shape, body, pool="absent", post=False, ver=None):
        reg = REGS[rn] if rn in REGS else REGS[rn + "/" + group]
        out.append(dict(sc.make_case(reg, json.dumps(body), ver=rng.choice([1.0, 2.0]) if ver is None else ver, uj=rng.random() < 0.15,
                                     pool=pool, kind="names/%s/%s" % (group, rn), post=post),
                        hist="names/%s/%s/%s" % (group, rn, shape)))

    def shapes():
        # (label, jsonrpc, id): a 1.0 request without id is no request at all, so `absent` goes with 2.0 only
        return [("notif-noid", "2.0", "absent"), ("notif-null", rng.choice(["2.0", "absent"]), None),
                ("notif-empty", rng.choice(["2.0", "absent"]), ""), ("call", rng.choice(["2.0", "absent"]), rng.choice([7, "x", 0]))]

    targets = [(rn, g, n) for rn in ("oddfuncs", "oddinst", "oddnone") for g, n in NAMES] + [("oddintro", g, n) for g, n in INTRO_METHODS]
    for rn, group, name in targets:
        sh = shapes()
        if not ctx.thorough:
            # per name and registry: one or two notification shapes and, one time in two, the call
            k = 2 if rng.random() < min(1.0, 0.5 * share) else 1
            sh = rng.sample(sh[:3], k) + ([sh[3]] if rng.random() < 0.5 * min(1.0, share) else [])
        for label, form, rid in sh:
            params = rng.choice([[], [], [1], {"a": 1}])
            if name == "system.methodHelp":
                params = [rng.choice(["add", "system.listMethods", "rpc.x", "nosuch"])]
            req = sc.build_request(form, rid, name, params)
            pool = "accepting" if rng.random() < 0.1 else "absent"
            add(rn, group, label + "-alone", req, pool=pool, post=rng.random() < 0.1)
            if ctx.thorough or rng.random() < 0.35 * min(1.0, share):
                nb = list(NEIGHBOURS)
                rng.shuffle(nb)
                nb = nb[:rng.randint(1, 3)]
                k = rng.randint(0, len(nb))
                add(rn, group, label + "-batch", nb[:k] + [req] + nb[k:], post=rng.random() < 0.05)
    # notifications only, several odd names in one batch: the reply must be empty
    for rn in ("oddfuncs", "oddinst", "oddnone", "oddintro"):
        for _ in range(4 if not ctx.thorough else 30):
            group = rng.choice(["reserved", "system", "reserved", rng.choice(sorted(GROUPS))])
            pool_names = GROUPS[group] if rn != "oddintro" else [n for _g, n in INTRO_METHODS]
            entries = [sc.build_request("2.0", rng.choice(["absent", None, ""]), rng.choice(pool_names), []) for _i in range(rng.randint(2, 5))]
            add(rn, group, "notif-only-batch", entries, post=rng.random() < 0.5)
    return out


# ---- long bodies ---------------------------------------------------------------------------------------------------------

CHARS = [("é", 2), ("日", 3), ("\U0001f600", 4)]
BOUNDARIES_ALWAYS = [1024, 2048, 4096, 65536]
BOUNDARIES_MORE = [512, 8192, 16384, 32768, 131072, 262144, 524288, 1048576]


def _at(prefix, ch, offset, tail):
    """`prefix` (ASCII) padded with ASCII so that `ch` starts at UTF-8 byte `offset` of the text, then `tail`."""
    pad = offset - len(prefix)
    assert pad >= 0
    return prefix + "x" * pad + ch + tail


def long_cases(ctx, rng, share):
    out = []

    def add(group, b, tag, body, post=False, ver=None):
        c = dict(sc.make_case(sc.REGISTRIES["funcs"], body, ver=rng.choice([1.0, 2.0]) if ver is None else ver, uj=rng.random() < 0.2,
                              kind="longbody/" + group, post=post),
                 hist="longbody/%s/%d/%s" % (group, b, tag))
        if len(body) > (6000 if not ctx.thorough else 70000):
            c["notext"] = True      # the text-layer comparison (one pass of the Lean recogniser per body) is kept to the short ones
        out.append(c)

    more = BOUNDARIES_MORE if ctx.thorough else rng.sample(BOUNDARIES_MORE, max(1, int(2 * share)))
    head = '{"jsonrpc": "2.0", "id": 1, "method": "one", "params": ["'
    for b in BOUNDARIES_ALWAYS + sorted(more):
        big = b > 70000
        # bodies the parser accepts travel to the model as values (two hex digits per byte): all alignments up to 4 KiB (64 KiB in the thorough
        # tier), a sample of the alignments above, none beyond 256 KiB in the quick tier; bodies it rejects cost nothing: every alignment, every size
        sh = min(1.0, share)
        if b <= 4096:
            p_parsed = 1.0
        elif ctx.thorough:
            p_parsed = sh if b <= 70000 else (0.25 * sh if b <= 262144 else 0.1 * sh)
        else:
            p_parsed = 0.25 * sh if b <= 70000 else (0.1 * sh if b <= 262144 else 0.0)
        for ch, w in CHARS:
            for k in range(0, w + 1):
                tag = "w%dk%d" % (w, k)
                filler = (ch * rng.randint(1, 40) + "y" * rng.randint(0, 64))
                inner = _at(head, ch, b - k, filler)
                # the body size varies from just past the boundary to about twice the boundary
                inner += ("z" + ch) * rng.choice([0, 3, b // (8 * (w + 1))])
                r = rng.random()
                post = rng.random() < 0.15 and not big
                # a) a valid request cut inside / after the long string: unparsable
                add("malformed", b, tag, inner, post=post)
                # b) the request itself: well-formed, the long string is a parameter (echoed nowhere) …
                if rng.random() < p_parsed:
                    add("wellformed", b, tag, inner + '"]}', post=post)
                # c) plain text, no JSON at all
                if r < 0.5 or ctx.thorough:
                    add("text", b, tag, _at("request ", ch, b - k, " " + filler + " end"))
                # d) … or the method name / the id (echoed in the reply)
                if rng.random() < p_parsed * (0.4 if not ctx.thorough else 1.0):
                    pre = '{"jsonrpc": "2.0", "params": [], "method": "'
                    add("member", b, tag + "-method", _at(pre, ch, b - k, filler + '", "id": 5}'))
                    pre = '{"jsonrpc": "2.0", "params": [1, 2], "method": "add", "id": "'
                    add("member", b, tag + "-id", _at(pre, ch, b - k, filler + '"}'))
    # long parameter lists / maps, one long unparsable array, a valid request followed by a long run of white space and a character
    n = 5000 if not ctx.thorough else 150000
    add("member", n, "params-list", json.dumps({"jsonrpc": "2.0", "id": 1, "method": "star", "params": list(range(n))}))
    add("member", n, "params-map", json.dumps({"jsonrpc": "2.0", "id": 1, "method": "kw", "params": dict(("k%d" % i, "é") for i in range(n // 10))}))
    add("malformed", n, "open-array", "[" + "1," * n)
    add("malformed", n, "trailing", '{"jsonrpc": "2.0", "method": "add", "params": [1, 2], "id": 1}' + " " * n + "日")
    return out


def extend_cases(ctx, em, rng, cases):
    """Called at the end of servercases.std_cases."""
    if em.get("names"):
        cases.extend(name_cases(ctx, rng, em["names"]))
    if em.get("longbody"):
        cases.extend(long_cases(ctx, rng, em["longbody"]))
