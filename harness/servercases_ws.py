"""
Input classes of the server properties C04 / C05 that concern the TEXT around and between the tokens of a request
(harness/servercases.py, std_cases / standard_run):

  ws/…        RFC 8259, section 2: `JSON-text = ws value ws`, and `ws` may stand around each of the six structural characters.
              Every request the generators of the run produce (singles, notifications of the three shapes, batches,
              pool cases, descriptor bodies, structured ids, …) that is a JSON text is run a second time with insignificant
              white space — SP, TAB, LF, CR, CRLF, mixed runs — before it, after it, on both sides, between its tokens, and
              everywhere at once.  The twin must behave *exactly* as the bare request (same reply, same invocations):
              a notification in it runs exactly once and is never answered (C04), a call gets its code (C05).
              histogram keys  class:ws/<where>/<characters>
  garbage/…   a complete JSON value followed (or preceded) by text that is not white space — a word, a second value,
              a closing bracket, a comma, a comment, NUL, a byte-order mark, form feed, NBSP …: RFC 8259 rejects the text,
              so it is answered with the single -32700 error object and nothing is invoked (C05).
              histogram keys  class:garbage/<where>/<what>

  reread      what a body *is*, decided without the parser under test: the RFC 8259 recogniser of the harness
              (servercases_ext.rfc8259_accepts) + CPython's json.loads called by the harness itself.  The monitors of C04 / C05
              use it when the library answered a parse failure: a JSON text holding a well-formed notification that was
              turned away has not been executed (C04), a well-formed call that was turned away did not get its code (C05).
"""
import json
import re

import servercases as sc
import servercases_ext as sx

WS_CLASSES = [("SP", " "), ("TAB", "\t"), ("LF", "\n"), ("CR", "\r"), ("CRLF", "\r\n")]
WS_WHERE = ["lead", "trail", "both", "inside", "all"]

_TOKEN = re.compile(r'"(?:[^"\\]|\\.)*"|-?[0-9][0-9.eE+\-]*|true|false|null|[\[\]{}:,]')
_WS = " \t\n\r"


def tokens(text):
    """The tokens of a JSON text (strings, numbers, literals, structural characters), or None when something else is in it."""
    out = []
    i, n = 0, len(text)
    while i < n:
        if text[i] in _WS:
            i += 1
            continue
        m = _TOKEN.match(text, i)
        if not m:
            return None
        out.append(m.group(0))
        i = m.end()
    return out


def ws_run(rng, cls):
    if cls == "mixed":
        return "".join(rng.choice(_WS) for _ in range(rng.randint(2, 5)))
    return dict(WS_CLASSES)[cls] * rng.choice([1, 1, 1, 2, 3])


def wrap(text, where, cls, rng):
    """The text with white space of the class added `where`; None when the text cannot be re-tokenised."""
    def run():
        return ws_run(rng, cls)
    if where == "lead":
        return run() + text
    if where == "trail":
        return text + run()
    if where == "both":
        return run() + text + run()
    toks = tokens(text)
    if toks is None or len(toks) < 2:
        return None
    dense = where == "all" or rng.random() < 0.5
    parts = [toks[0]]
    for t in toks[1:]:
        if dense or rng.random() < 0.4:
            parts.append(run())
        parts.append(t)
    inner = "".join(parts)
    if inner == "".join(toks):
        inner = toks[0] + run() + "".join(toks[1:])
    if where == "all":
        return run() + inner + run()
    return inner


def is_json_text(body):
    return isinstance(body, str) and len(body) < 20000 and sx.text_domain(body) and sx.rfc8259_accepts(body) is True


# the requests every white-space form and every kind of garbage is applied to, whatever the seed: the three notification
# shapes x the four method outcomes (returns, raises, unknown, bad arguments), a batch with notifications at the first, a
# middle and the last position, a call, a 1.0 call
def _systematic_bases():
    out = []
    for m, p in (("noargs", []), ("boom", []), ("nosuch", []), ("add", [1])):
        out.append(("notif-2.0", {"jsonrpc": "2.0", "method": m, "params": p}))
        out.append(("notif-null", {"method": m, "params": p, "id": None}))
        out.append(("notif-empty", {"jsonrpc": "2.0", "method": m, "params": p, "id": ""}))
    n = {"jsonrpc": "2.0", "method": "noargs"}
    c = {"jsonrpc": "2.0", "method": "add", "params": [1, 2], "id": 7}
    out.append(("batch", [dict(n), dict(c), {"method": "star", "params": ["x y"], "id": None}, dict(c, id="k"), {"jsonrpc": "2.0", "method": "boom", "id": ""}]))
    out.append(("batch-notifs", [dict(n), dict(n, method="star", params={"k": [1, {"a": None}]})]))
    out.append(("call", dict(c)))
    out.append(("call-1.0", {"method": "opt", "params": {"a": "text with  spaces\\t", "b": -1.5e3}, "id": 0}))
    return out


def _has_notification(body, desc, uj):
    try:
        v = json.loads(body)
    except (ValueError, RecursionError):
        return False
    entries = v if isinstance(v, list) else [v]
    try:
        return any(sc.expect_entry(e, desc, uj)["notif"] for e in entries[:50])
    except Exception:  # noqa: BLE001
        return False


def ws_cases(ctx, rng, em, cases):
    """Twins of the cases generated so far.  em["ws"]: share of the eligible cases that get a twin in the quick tier (five
    times that share, at most all, in the thorough tier); em["ws_focus"] == "notif": bodies holding a notification are taken first."""
    out = []
    tag = [0]

    def twin(case, where, cls, systematic=False):
        body = wrap(case["body"], where, cls, rng)
        if body is None or body == case["body"] or not is_json_text(body):
            return
        if "tag" not in case:
            tag[0] += 1
            case["tag"] = tag[0]
        t = dict(case)
        t.pop("tag", None)
        t.update(body=body, bare=case["body"], bare_tag=case["tag"], kind="ws/" + where,
                 post=case.get("post") or rng.random() < (0.25 if systematic else 0.08),
                 hist=["ws/%s/%s" % (where, cls)] + (["ws-systematic/%s" % where] if systematic else []))
        out.append(t)

    classes = [c for c, _ in WS_CLASSES] + ["mixed"]
    # a) systematic: every base x every place x every class
    bases = []
    for name, req in _systematic_bases():
        text = json.dumps(req)
        base = dict(sc.make_case(sc.REGISTRIES["funcs"], text, ver=rng.choice([1.0, 2.0]), uj=False, kind="ws-base/" + name), hist=["ws-base/" + name])
        bases.append(base)
        cases.append(base)
    for base in bases:
        for where in WS_WHERE:
            for cls in (classes if (ctx.thorough or base["kind"].startswith("ws-base/notif") or base["kind"].startswith("ws-base/batch"))
                        else rng.sample(classes, 3)):
                twin(base, where, cls, systematic=True)
    # pooled notifications: the twin must be enqueued once, like the bare one
    for name, req in _systematic_bases()[:3] + _systematic_bases()[12:14]:
        base = dict(sc.make_case(sc.REGISTRIES["both"], json.dumps(req), ver=2.0, uj=False, pool="accepting", kind="ws-base/pool-" + name),
                    hist=["ws-base/pool"])
        cases.append(base)
        for where in WS_WHERE:
            twin(base, where, rng.choice(classes), systematic=True)
    # b) the requests of the generators
    eligible = [c for c in cases if not c["kind"].startswith("ws") and c["pool"] != "full" and is_json_text(c["body"])
                and tokens(c["body"]) is not None]
    share = min(1.0, em["ws"] * 5) if ctx.thorough else em["ws"]
    if share >= 1.0:
        chosen = eligible
    else:
        n = int(len(eligible) * share)
        if not ctx.thorough:
            n = min(n, 350)      # a quick run stays a quick run, also with the escalated budgets of a changed source
        if em.get("ws_focus") == "notif":
            notif = [c for c in eligible if _has_notification(c["body"], c["reg"], c["uj"])]
            ids = set(id(c) for c in notif)
            rest = [c for c in eligible if id(c) not in ids]
            chosen = rng.sample(notif, min(len(notif), (2 * n) // 3))
            chosen += rng.sample(rest, min(len(rest), n - len(chosen)))
        else:
            chosen = rng.sample(eligible, min(len(eligible), n))
    for c in chosen:
        twin(c, rng.choice(WS_WHERE), rng.choice(classes))
    return out


GARBAGE = [
    ("word", "x"), ("spaced-word", " x"), ("second-object", " {}"), ("second-array", "\n[]"), ("second-request", None), ("number", "1"),
    ("spaced-number", " 0"), ("null", "null"), ("string", '""'), ("comma", ","), ("colon", ":"), ("close-brace", "}"), ("close-bracket", "]"),
    ("open-brace", "{"), ("semicolon", ";"), ("line-comment", " // c"), ("block-comment", "/* c */"), ("hash-comment", "\n# c"),
    ("NUL", "\x00"), ("BOM", "\ufeff"), ("form-feed", "\x0c"), ("vertical-tab", "\x0b"), ("NBSP", "\xa0"), ("NEL", "\x85"),
    ("line-separator", "\u2028"), ("ideographic-space", "\u3000"), ("escaped-newline", "\\n"), ("backslash", "\\"), ("quote", '"'),
    ("DEL", "\x7f"), ("U+001F", "\x1f"), ("zero-width-space", "\u200b"),
]


def _garbage(text, where, what, g, rng):
    if g is None:
        g = text
    pad = rng.choice(["", "", " ", "\n", "\r\n\t"])
    if where == "suffix":
        return text + pad + g
    if where == "suffix-then-ws":
        return text + pad + g + rng.choice([" ", "\n"])
    return g + pad + text


def garbage_cases(ctx, rng, em, cases):
    out = []

    def twin(case, where, what, g, systematic=False):
        body = _garbage(case["body"], where, what, g, rng)
        if sx.rfc8259_accepts(body) is not False or not sx.text_domain(body):
            return       # `5` + `1` is the JSON text 51
        t = dict(case)
        t.pop("tag", None)
        t.update(body=body, kind="garbage/" + where, post=rng.random() < 0.06,
                 hist=["garbage/%s/%s" % (where, what)] + (["garbage-systematic"] if systematic else []))
        out.append(t)

    bases = [c for c in cases if c["kind"].startswith("ws-base/") and c["pool"] == "absent"]
    if not bases:
        for name, req in _systematic_bases():
            bases.append(sc.make_case(sc.REGISTRIES["funcs"], json.dumps(req), ver=rng.choice([1.0, 2.0]), uj=False, kind="ws-base/" + name))
    for what, g in GARBAGE:
        for base in (bases if ctx.thorough else rng.sample(bases, 3)):
            twin(base, "suffix", what, g, systematic=True)
        twin(rng.choice(bases), "suffix-then-ws", what, g, systematic=True)
        twin(rng.choice(bases), "prefix", what, g, systematic=True)
    eligible = [c for c in cases if not c["kind"].startswith(("ws", "garbage")) and c["pool"] != "full" and is_json_text(c["body"])]
    share = min(1.0, em["garbage"] * 5) if ctx.thorough else em["garbage"]
    chosen = eligible if share >= 1.0 else rng.sample(eligible, min(len(eligible), int(len(eligible) * share)))
    for c in chosen:
        what, g = rng.choice(GARBAGE)
        twin(c, rng.choice(["suffix", "suffix", "suffix", "suffix-then-ws", "prefix"]), what, g)
    return out


def extend_cases(ctx, em, rng, cases):
    """Called at the end of servercases.std_cases (after servercases_ext.extend_cases)."""
    if em.get("ws"):
        cases.extend(ws_cases(ctx, rng, em, cases))
    if em.get("garbage"):
        cases.extend(garbage_cases(ctx, rng, em, cases))


# --------------------------------------------------------------------------------------------
# reading a body without the parser under test


def _has_descriptor(v, depth=0):
    if depth > 100:
        return True
    if isinstance(v, dict):
        return "__jsonclass__" in v or any(_has_descriptor(x, depth + 1) for x in v.values())
    if isinstance(v, list):
        return any(_has_descriptor(x, depth + 1) for x in v)
    return False


def independent_value(case):
    """(value,) when the body is a JSON text by RFC 8259 and stands for that value whatever the library's parser says;
    None when this cannot be said: not a text the recogniser accepts, NaN/Infinity, numbers beyond a double / the int-str
    limit, nesting the reference parser refuses, or class descriptors with translation on (the translator may reject them)."""
    body = case["body"]
    if not is_json_text(body):
        return None
    try:
        v = json.loads(body)
    except (ValueError, RecursionError):
        return None
    if sc.has_nonfinite(v):
        return None
    if case["uj"] and _has_descriptor(v):
        return None
    return (v,)


def reread(r):
    """A Result like `r` (same reply, same invocation log) whose `loaded` value is the independent reading of the body, for
    a case the library answered as a parse failure; None when the body has no independent reading."""
    got = independent_value(r.case)
    if got is None:
        return None
    r2 = sc.Result()
    for k in sc.Result.__slots__:
        setattr(r2, k, getattr(r, k, None))
    r2.loaded = got[0]
    r2.parse_error = False
    r2.observed = sc.observe_opaque(r.case["reg"], got[0])
    return r2


# --------------------------------------------------------------------------------------------
# the twin behaves exactly as the bare request


def _behaviour(r):
    """(comparable form, readable form) of what a case did: outcome, canonical reply, invocation counters, effect log, HTTP reply."""
    calls = sorted((k, n) for k, n in sc.call_counts(r.log).items())
    effects = list(r.effects)
    if r.case["pool"] == "accepting":
        effects = sorted(effects)
    post = shown_post = None
    if r.post is not None:
        status, body, _h = r.post
        if status == "raised":
            post = shown_post = ("raised", body)
        else:
            shown_post = (list(status), body[:200])
            post = (list(status), sc.struct_key(list(sc.canon_real_reply("ok", body.decode("utf-8", "replace")))))
    outcome = "ok" if r.kind == "ok" else "raise " + type(r.raw).__name__
    return ((outcome, sc.struct_key(list(r.reply)), calls, effects, post),
            (outcome, list(r.reply), calls, effects, shown_post))


def monitor_same_as_bare(r, bare):
    """RFC 8259: insignificant white space around the value and around the structural characters does not change the text's
    meaning — the twin is the same request."""
    (a, sa), (b, sb) = _behaviour(r), _behaviour(bare)
    n = 5 if (bare.post is not None and r.post is not None) else 4
    names = ("outcome", "reply", "invocation counters", "effects", "HTTP reply")
    for name, x, y, shown_x, shown_y in list(zip(names, a, b, sa, sb))[:n]:
        if x != y:
            return ("the request wrapped in insignificant white space (%s) is not handled as the bare request: %s differ(s) — bare %s, "
                    "wrapped %s" % ("/".join(r.case.get("hist", ["ws"])[:1]), name, _short(shown_y), _short(shown_x)))
    return None


def _short(v):
    s = repr(v)
    return s if len(s) < 300 else s[:300] + "..."


def twin_check(ctx, results, prefix):
    """After the run: every ws/… twin against its bare case (same registry, version, flags)."""
    by_tag = {}
    for r in results:
        if "tag" in r.case:
            by_tag[r.case["tag"]] = r
    n = 0
    for r in results:
        t = r.case.get("bare_tag")
        if t is None or t not in by_tag or not sc.case_domain(r):
            continue
        m = monitor_same_as_bare(r, by_tag[t])
        n += 1
        if m:
            ctx.violate(sc.brief(r.case), "%s: %s" % (prefix, m), key="ws-twin:" + re.sub(r"[0-9]+", "#", m)[:60])
    ctx.extra["ws_twins_compared"] = n


def replay_twin(case):
    """For servercases.replay_case: the twin's verdict against its bare body, run now."""
    if "bare" not in case:
        return None
    r = sc.run_real(case)
    bare_case = dict(case, body=case["bare"])
    bare_case.pop("bare", None)
    bare = sc.run_real(bare_case)
    print("bare body %r ->" % (case["bare"][:300],), bare.kind, repr(bare.raw)[:300], "invocations", sorted(sc.call_counts(bare.log).items()))
    print("wrapped body %r ->" % (case["body"][:300],), r.kind, repr(r.raw)[:300], "invocations", sorted(sc.call_counts(r.log).items()))
    return monitor_same_as_bare(r, bare)
