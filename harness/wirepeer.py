"""
Recording peers for C17: what the library really puts on the wire.

  RecConn   an http.client.HTTPConnection whose socket is an in-memory object: the real putrequest / putheader /
            endheaders / send run (request-line validation and encoding included), the bytes they emit are kept in
            `.sent`, the arguments of putrequest in `.requests`; the reply is a canned HTTP response.  No kernel socket.
  WirePeer  a raw socket peer (TCP on 127.0.0.1 or a Unix socket) that records the bytes of each connection, answers a
            minimal JSON-RPC reply and hands the records over in connection order.  `collect()` sends a sentinel
            connection and waits for it, so the harness never guesses with sleeps whether a request was made.

Both produce `Record`s parsed by `parse_request`.  Infrastructure trouble (cannot bind, peer does not answer) raises
core.InfraError.
"""
import http.client
import io
import json
import os
import queue
import socket
import threading

import core

SENTINEL = b"SENTINEL / X\r\n\r\n"


class Record(object):
    """One HTTP request as bytes: request line (without CRLF), header lines [(name, value)] (bytes), body bytes."""

    def __init__(self, raw, note=""):
        self.raw = bytes(raw)
        self.note = note  # "", "short-body" (fewer body bytes than declared arrived), "no-eof"
        head, sep, rest = self.raw.partition(b"\r\n\r\n")
        self.complete_head = bool(sep)
        lines = head.split(b"\r\n")
        self.request_line = lines[0]
        self.headers = []
        for ln in lines[1:]:
            k, _, v = ln.partition(b":")
            self.headers.append((k.strip(), v.strip()))
        self.after_head = rest  # body (and anything that followed it)

    def header_values(self, name):
        name = name.lower().encode("ascii")
        return [v for k, v in self.headers if k.lower() == name]

    def target(self):
        """The request target of `POST <target> HTTP/1.1` as bytes, or None when the line has another shape."""
        parts = self.request_line.split(b" ")
        if len(parts) == 3 and parts[0] == b"POST" and parts[2] == b"HTTP/1.1":
            return parts[1]
        return None


def reply_for(body):
    """A minimal HTTP reply for the request body: a JSON-RPC result for a call, an empty body otherwise."""
    out = b""
    try:
        req = json.loads(body.decode("utf-8"))
        if isinstance(req, dict) and req.get("id") is not None:
            out = json.dumps({"jsonrpc": "2.0", "id": req["id"], "result": "pong"}).encode("utf-8")
    except (ValueError, UnicodeDecodeError):
        pass
    return (b"HTTP/1.1 200 OK\r\nContent-Type: application/json-rpc\r\nContent-Length: " + str(len(out)).encode("ascii")
            + b"\r\nConnection: close\r\n\r\n" + out)


# --------------------------------------------------------------------------------------------
# in-memory connection


class _MemSock(object):
    def __init__(self, conn):
        self.conn = conn

    def sendall(self, data):
        self.conn.sent += bytes(data)

    def makefile(self, mode="rb", *a, **k):
        rec = Record(self.conn.sent)
        return io.BytesIO(reply_for(rec.after_head))

    def settimeout(self, t):
        pass

    def setsockopt(self, *a):
        pass

    def close(self):
        pass


class RecConn(http.client.HTTPConnection):
    """Real http.client request writer over an in-memory socket."""

    def __init__(self, host=None):
        http.client.HTTPConnection.__init__(self, "localhost")
        self.given_host = host
        self.requests = []  # (method, url) as given to putrequest
        self.sent = b""

    def connect(self):
        self.sock = _MemSock(self)

    def putrequest(self, method, url, *a, **kw):
        self.requests.append((method, url))
        return http.client.HTTPConnection.putrequest(self, method, url, *a, **kw)

    def record(self):
        return Record(self.sent) if self.sent else None


def recording_transport(base, *args, **kwargs):
    """An instance of the real transport class `base` whose make_connection returns a fresh RecConn (everything else -
    request, single_request, send_request, send_content, parse_response - is the library's)."""

    class T(base):
        def make_connection(self, host):
            c = RecConn(host)
            self.rec_conns.append(c)
            return c

    t = T(*args, **kwargs)
    t.rec_conns = []
    return t


# --------------------------------------------------------------------------------------------
# raw socket peer


class WirePeer(object):
    def __init__(self, kind, tmpdir, io_timeout=5.0):
        self.kind = kind  # "tcp" | "unix"
        self.io_timeout = io_timeout
        self.records = queue.Queue()
        self.path = os.path.join(tmpdir, "w.sock") if kind == "unix" else None
        self.port = None
        try:
            if kind == "tcp":
                s = socket.socket(socket.AF_INET, socket.SOCK_STREAM)
                s.setsockopt(socket.SOL_SOCKET, socket.SO_REUSEADDR, 1)
                s.bind(("127.0.0.1", 0))
                self.port = s.getsockname()[1]
            else:
                s = socket.socket(socket.AF_UNIX, socket.SOCK_STREAM)
                s.bind(self.path)
            s.listen(16)
            s.settimeout(None)
        except OSError as ex:
            raise core.InfraError("recording peer (%s) cannot listen: %s" % (kind, ex))
        self.listener = s
        self.stopping = False
        self.thread = threading.Thread(target=self._loop)
        self.thread.daemon = True
        self.thread.start()

    # ---- addresses
    def netloc(self):
        return "127.0.0.1:%d" % self.port

    def _connect(self):
        if self.kind == "tcp":
            c = socket.socket(socket.AF_INET, socket.SOCK_STREAM)
            c.settimeout(self.io_timeout * 3)
            c.connect(("127.0.0.1", self.port))
        else:
            c = socket.socket(socket.AF_UNIX, socket.SOCK_STREAM)
            c.settimeout(self.io_timeout * 3)
            c.connect(self.path)
        return c

    # ---- serving
    def _loop(self):
        while True:
            try:
                conn, _ = self.listener.accept()
            except OSError:
                return
            if self.stopping:
                conn.close()
                return
            try:
                self._handle(conn)
            except Exception as ex:  # noqa: BLE001 - reported to the harness as a record, never swallowed
                self.records.put(("error", repr(ex)))
            finally:
                try:
                    conn.close()
                except OSError:
                    pass

    def _recv(self, conn):
        try:
            return conn.recv(65536)
        except socket.timeout:
            return None

    def _handle(self, conn):
        conn.settimeout(self.io_timeout)
        data = b""
        note = ""
        while b"\r\n\r\n" not in data:
            chunk = self._recv(conn)
            if not chunk:
                break
            data += chunk
        if data == SENTINEL:
            self.records.put(("sentinel", None))
            return
        if b"\r\n\r\n" not in data:
            self.records.put(("request", Record(data, "no-head")))
            return
        rec = Record(data)
        cl = rec.header_values("content-length")
        try:
            want = int(cl[0]) if cl else 0
        except ValueError:
            want = 0
        body = rec.after_head
        while len(body) < want:
            chunk = self._recv(conn)
            if chunk is None:
                note = "short-body"
                break
            if not chunk:
                note = "short-body"
                break
            body += chunk
            data += chunk
        try:
            conn.sendall(reply_for(body[:want]))
        except OSError:
            note = note or "reply-failed"
        # whatever else the client sends before it closes (bytes beyond the declared length)
        while True:
            chunk = self._recv(conn)
            if chunk is None:
                note = note or "no-eof"
                break
            if not chunk:
                break
            data += chunk
        self.records.put(("request", Record(data, note)))

    # ---- harness side
    def collect(self):
        """Records of all the connections made so far, in order (a sentinel connection marks the end)."""
        try:
            c = self._connect()
            c.sendall(SENTINEL)
            c.close()
        except OSError as ex:
            raise core.InfraError("recording peer (%s) unreachable: %s" % (self.kind, ex))
        out = []
        while True:
            try:
                kind, rec = self.records.get(timeout=self.io_timeout * 6)
            except queue.Empty:
                raise core.InfraError("recording peer (%s) did not hand over its records in time" % self.kind)
            if kind == "sentinel":
                return out
            if kind == "error":
                raise core.InfraError("recording peer (%s) failed: %s" % (self.kind, rec))
            out.append(rec)

    def stop(self):
        self.stopping = True
        try:
            c = self._connect()
            c.close()
        except OSError:
            pass
        self.thread.join(5)
        try:
            self.listener.close()
        except OSError:
            pass
        if self.path:
            try:
                os.unlink(self.path)
            except OSError:
                pass
