"""
Input class `session/…` of C17 (harness/props/c17.py): SEQUENCES OF RESPONSES THROUGH ONE TRANSPORT OBJECT.

A transport lives as long as its ServerProxy and parses every response of it: over a kept-alive connection, over a new
connection after an error, and — within a single call — the second attempt of xmlrpc.client.Transport.request after a
connection reset.  Responses do not always end well: a read can raise in the middle of the body (connection reset, time-out,
IncompleteRead of a chunked body, a truncated gzip stream).  The property — "received bodies are reassembled independently of
how the bytes are split into reads … the decoded text equals the decoding of the whole" — is about the response being read:
what came through the same transport before it, and how that ended, must not show in its text.

Stage A (`parse_response` on one real Transport / SafeTransport / UnixTransport object, fake response objects with short reads):
  sequences of 2..6 responses; each is healthy (read to its end: identity or gzip, any chunking, ASCII / multi-byte / empty /
  bytes without UTF-8 decoding) or fails part-way: after 0, 1 or several chunks a read raises ConnectionResetError / BrokenPipeError /
  socket.timeout / http.client.IncompleteRead / OSError / EOFError (truncated gzip stream, through the real GzipDecodedResponse).
  What each response delivered to the parser before it ended is observed on a reference reader (the same `stream.read(1024)`
  loop over an identical response object: CPython, not the code under test) and handed to the model (`wsession`).
Stage B (the whole client: a real ServerProxy on a real Transport whose connections are in-memory http.client connections
  with SCRIPTED replies): a reply that breaks in the middle of its body — garbage chunk header of a chunked body, connection
  reset (retried by Transport.request on a new connection), time-out, truncated gzip — after at least one 1024-byte read, then
  healthy replies over the same proxy; the text `parse_response` returned for each reply is recorded by a pass-through subclass.

Monitor (both stages), from the property statement: the text returned for a response read to its end is the strict UTF-8
decoding of the bytes of THAT response (for gzip: of the decompressed body) — all of them, nothing more; bytes that have no
UTF-8 decoding never become a text; a response whose read raised yields no text at all.
"""
import errno
import gzip
import http.client
import io
import json
import socket

import bytecases
import impl

ENDINGS = [
    ("ConnectionResetError", lambda: ConnectionResetError(errno.ECONNRESET, "Connection reset by peer")),
    ("BrokenPipeError", lambda: BrokenPipeError(errno.EPIPE, "Broken pipe")),
    ("timeout", lambda: socket.timeout("timed out")),
    ("IncompleteRead", lambda: http.client.IncompleteRead(b"part", 10)),
    ("OSError", lambda: OSError("read failed")),
]

ALPHABET = "ab{}\":, \u00e9\u65e5\U0001f600\u0301"
SAMPLE_TEXTS = ["", "{}", "\u00e9", "\u65e5\u672c\u8a9e", '{"jsonrpc": "2.0", "id": 1, "result": "\u00e9"}', "\ufeff{}", "x" * 40, "\x00",
                '{"jsonrpc": "2.0", "id": 7, "result": [1, 2, 3]}', "[]"]


def hx(b):
    return b.hex() if b else "-"


class ScriptedResponse(object):
    """What http.client hands to Transport.parse_response: read(n) returns the next chunk (short reads); when the chunks are
    used up it returns b"" (end of body) or raises the scripted exception."""

    def __init__(self, chunks, ending=None, headers=None):
        self.chunks = list(chunks)
        self.ending = ending
        self.headers = headers or {}

    def getheader(self, name, default=None):
        return self.headers.get(name.lower(), default)

    def read(self, n=-1):
        if n is None or n < 0:
            # GzipDecodedResponse reads the whole compressed body first
            out = b"".join(self.chunks)
            self.chunks = []
            if self.ending is not None:
                raise self.ending()
            return out
        if self.chunks:
            c = self.chunks.pop(0)
            if len(c) > n:
                self.chunks.insert(0, c[n:])
                c = c[:n]
            return c
        if self.ending is not None:
            raise self.ending()
        return b""

    def close(self):
        pass


def reference_reads(resp):
    """The loop of xmlrpc.client.Transport.parse_response on an identical response object, without any parser: the chunks the
    successive `stream.read(1024)` return, and how the stream ends (None = end of body, else the exception)."""
    import xmlrpc.client as xc
    if resp.getheader("content-encoding", "") == "gzip":
        try:
            stream = xc.GzipDecodedResponse(resp)
        except Exception as ex:  # noqa: BLE001 - the compressed body could not even be read
            return [], ex
    else:
        stream = resp
    chunks = []
    try:
        while True:
            data = stream.read(1024)
            if not data:
                return chunks, None
            chunks.append(data)
    except Exception as ex:  # noqa: BLE001
        return chunks, ex


def cuts(rng, b, maxparts=5, maxlen=1024):
    n = len(b)
    if n == 0:
        return []
    k = rng.randint(0, min(maxparts - 1, n - 1))
    pts = sorted(rng.sample(range(1, n), k)) if n > 1 and k else []
    parts, prev = [], 0
    for c in pts + [n]:
        parts.append(b[prev:c])
        prev = c
    out = []
    for p in parts:
        while len(p) > maxlen:
            out.append(p[:maxlen])
            p = p[maxlen:]
        out.append(p)
    return out


def random_text(rng, big=False):
    r = rng.random()
    if r < 0.35:
        return rng.choice(SAMPLE_TEXTS)
    n = rng.randint(1500, 4000) if big else rng.randint(0, 60)
    return "".join(rng.choice(ALPHABET) for _ in range(n))


def spec_response(rng, healthy, force_bytes=None):
    """A response specification (JSON-able: it goes into replay files)."""
    gz = rng.random() < 0.25
    if force_bytes is not None:
        body, gz = force_bytes, False
    else:
        body = random_text(rng, big=gz and not healthy).encode("utf-8")
    spec = {"body_hex": body.hex(), "gzip": gz, "healthy": healthy}
    if gz:
        raw = gzip.compress(body)
        if not healthy:
            # a truncated gzip stream: the real GzipDecodedResponse raises EOFError once the decompressor runs dry
            raw = raw[: max(1, int(len(raw) * rng.choice([0.3, 0.6, 0.9])))]
            spec["ending"] = None
        spec["chunks_hex"] = [c.hex() for c in cuts(rng, raw)]
    else:
        if healthy:
            spec["chunks_hex"] = [c.hex() for c in cuts(rng, body)]
        else:
            # cut the body somewhere (possibly inside a character, possibly before the first byte) and fail there
            keep = body[: rng.randint(0, len(body))] if rng.random() < 0.8 else body
            spec["chunks_hex"] = [c.hex() for c in cuts(rng, keep)]
            spec["ending"] = rng.choice(ENDINGS)[0]
    return spec


def build_response(spec):
    ending = dict(ENDINGS).get(spec.get("ending")) if spec.get("ending") else None
    headers = {"content-encoding": "gzip"} if spec["gzip"] else {}
    return ScriptedResponse([bytes.fromhex(c) for c in spec["chunks_hex"]], ending, headers)


def random_session(rng):
    n = rng.randint(2, 6)
    kinds = [rng.random() < 0.55 for _ in range(n)]
    if all(kinds):
        kinds[rng.randrange(n - 1)] = False          # at least one failure that is followed by something
    if not any(kinds):
        kinds[-1] = True
    specs = []
    for h in kinds:
        fb = None
        if h and rng.random() < 0.08:
            fb = rng.choice([b"\xff\xfe{}", b"\xc3", b"{}\xe6\x97", b"\xed\xa0\x80"])   # bytes without a UTF-8 decoding
        specs.append(spec_response(rng, h, fb))
    return specs


SYSTEMATIC = [
    # (failure fed chunks, ending) then a healthy body: the shapes of the property's counter-scenario, every run
    ([b'{"jsonrpc": "2.0", ', b'"id": 1, "resu'], "ConnectionResetError", b'{"jsonrpc": "2.0", "id": 2, "result": "ok"}'),
    ([b"x" * 1024], "IncompleteRead", b"{}"),
    ([b"\xc3"], "timeout", "\u00e9".encode("utf-8")),
    ([], "OSError", b"[]"),
    ([b"{}"], "BrokenPipeError", b""),
]


def systematic_sessions():
    out = []
    for fed, ending, body in SYSTEMATIC:
        bad = {"body_hex": b"".join(fed).hex(), "gzip": False, "healthy": False, "chunks_hex": [c.hex() for c in fed], "ending": ending}
        good = {"body_hex": body.hex(), "gzip": False, "healthy": True, "chunks_hex": [body.hex()] if body else []}
        out.append([bad, good])
        out.append([good, bad, good, bad, bad, good])
    return out


def judge(spec, k, out):
    """The property statement on the outcome of one response of a sequence -> problem or None."""
    body = bytes.fromhex(spec["body_hex"])
    if spec["healthy"]:
        want = bytecases.strict_text(body)
        if want is not None:
            if k != "ok" or out != want:
                return ("the text returned for this response (%s %r) differs from the decoding of its own bytes %r"
                        % (k, out if not isinstance(out, (str, bytes)) else out[:120], want[:120]))
        elif k == "ok" and isinstance(out, str):
            return "a text %r was made of bytes that have no UTF-8 decoding (%s)" % (out[:60], body[:24].hex())
        return None
    if k == "ok" and isinstance(out, (str, bytes)) and out != "":
        return "the read of this response raised part-way, yet a text %r was returned for it" % (out[:80],)
    return None


def transports(J, cfg):
    return [("Transport", lambda: J.Transport(cfg)), ("SafeTransport", lambda: J.SafeTransport(cfg, None)),
            ("UnixTransport", lambda: J.UnixTransport(cfg, "/nonexistent.sock"))]


def run_session(make_transport, specs):
    """One real transport object, every response of the sequence through its parse_response.
    -> ([(kind, value)], model line, implementation rendering, [chunks delivered to the parser per response])"""
    t = make_transport()
    outs, toks, rend, nfed = [], [], [], []
    for spec in specs:
        fed, end = reference_reads(build_response(spec))
        nfed.append(len(fed))
        toks.append(("eof:" if end is None else "err:") + (",".join(hx(c) for c in fed) if fed else "-"))
        k, v = impl.outcome(t.parse_response, build_response(spec))
        outs.append((k, v))
        if k != "ok":
            rend.append("raised")
        elif isinstance(v, str):
            try:
                rend.append("text " + hx(v.encode("utf-8")))
            except UnicodeEncodeError:
                rend.append("text ?")
        else:
            rend.append("raw " + hx(bytes(v)))
    return outs, "wsession " + " ".join(toks), " | ".join(rend), nfed


def pattern(specs):
    return "".join("H" if s["healthy"] else "F" for s in specs)


def stage_a(ctx, J, cfg, lines, impl_out):
    rng = ctx.derive_rng("sessions")
    ts = transports(J, cfg)
    sessions = [(s, i) for i, s in enumerate(systematic_sessions())]
    for i in range(ctx.budget(120, 2500)):
        sessions.append((random_session(rng), i))
    for specs, i in sessions:
        tname, mk = ts[i % len(ts)]
        outs, line, rend, nfed = run_session(mk, specs)
        case = {"via": "session/parse_response", "transport": tname, "responses": specs}
        for n, (spec, (k, v)) in enumerate(zip(specs, outs)):
            m = judge(spec, k, v)
            if m:
                ctx.violate(case, "response %d of %d through one %s object (%s): %s" % (n + 1, len(specs), tname, pattern(specs), m),
                            key="client-session")
        lines.append(line)
        impl_out.append(rend)
        pat = pattern(specs)
        after_fail = any(not a["healthy"] and b["healthy"] for a, b in zip(specs, specs[1:]))
        ctx.hist["class:session/parse_response/%d-responses" % len(specs)] += 1
        ctx.hist["class:session/healthy-after-failure/%s" % ("yes" if after_fail else "no")] += 1
        for s, fed in zip(specs, nfed):
            if not s["healthy"]:
                ctx.hist["class:session/failure/%s/fed-%s" % ("gzip-truncated" if s["gzip"] else s["ending"],
                                                              "0" if fed == 0 else ("1" if fed == 1 else "2+"))] += 1
        ctx.count(case_repr={"session": pat, "transport": tname, "responses": [dict(s, chunks_hex=s["chunks_hex"][:4], body_hex=s["body_hex"][:60]) for s in specs][:4]},
                  nontrivial_key=("sess", tname, pat, specs[0]["body_hex"][:24]) if after_fail else None,
                  kind="session/parse_response/" + ("healthy-after-failure" if after_fail else "other"))


# ---- stage B: the whole client over scripted in-memory connections -------------------------------------------------------

class _ScriptRaw(io.RawIOBase):
    """Bytes of one scripted reply; when they are used up: end of stream, or the scripted exception."""

    def __init__(self, data, ending):
        self.data = data
        self.ending = ending

    def readable(self):
        return True

    def readinto(self, b):
        if self.data:
            n = min(len(b), len(self.data))
            b[:n] = self.data[:n]
            self.data = self.data[n:]
            return n
        if self.ending is not None:
            raise self.ending()
        return 0


class _ScriptSock(object):
    def __init__(self, script):
        self.script = script

    def sendall(self, data):
        pass

    def makefile(self, mode="rb", *a, **k):
        data, ending = self.script.pop(0) if self.script else (b"HTTP/1.1 500 Script exhausted\r\nContent-Length: 0\r\n\r\n", None)
        return io.BufferedReader(_ScriptRaw(data, ending), 1024)

    def settimeout(self, t):
        pass

    def setsockopt(self, *a):
        pass

    def close(self):
        pass


class ScriptedConn(http.client.HTTPConnection):
    """Real http.client connection over an in-memory socket that answers each request with the next scripted reply."""

    def __init__(self, script):
        http.client.HTTPConnection.__init__(self, "localhost")
        self.script = script

    def connect(self):
        self.sock = _ScriptSock(self.script)


def http_reply(spec):
    """(bytes of the HTTP reply, ending) for a stage-B reply specification."""
    body = bytes.fromhex(spec["body_hex"])
    head = [b"HTTP/1.1 200 OK", b"Content-Type: application/json-rpc"]
    mode = spec["mode"]
    ending = None
    if mode == "healthy":
        if spec.get("gzip"):
            body = gzip.compress(body)
            head.append(b"Content-Encoding: gzip")
        head.append(b"Content-Length: %d" % len(body))
        payload = body
    elif mode == "bad-chunk":
        # chunked body: one chunk of `fed` bytes, then a chunk header that is not a number
        fed = spec["fed"]
        head.append(b"Transfer-Encoding: chunked")
        payload = (b"%x\r\n" % fed) + body[:fed] + b"\r\nZZ-not-a-size\r\n" + body[fed:] + b"\r\n0\r\n\r\n"
    elif mode in ("reset", "timeout"):
        head.append(b"Content-Length: %d" % len(body))
        payload = body[:spec["fed"]]
        ending = dict(ENDINGS)["ConnectionResetError" if mode == "reset" else "timeout"]
    elif mode == "gzip-truncated":
        raw = gzip.compress(body)
        raw = raw[: int(len(raw) * 0.7)]
        head += [b"Content-Encoding: gzip", b"Content-Length: %d" % len(raw)]
        payload = raw
    else:
        raise ValueError(mode)
    return b"\r\n".join(head) + b"\r\n\r\n" + payload, ending


def big_json(rng, token):
    pad = "".join(rng.choice("abcdefghijklmnopqrstuvwxyz\u00e9\u65e5") for _ in range(rng.randint(2200, 3200)))
    return json.dumps({"jsonrpc": "2.0", "id": 1, "result": {"token": token, "pad": pad}}, ensure_ascii=False).encode("utf-8")


def proxy_sessions(rng, thorough):
    """[[reply spec, ...], ...]: a reply that breaks after >= 1024 bytes of body, then healthy ones."""
    out = []
    modes = ["bad-chunk", "reset", "timeout", "gzip-truncated"]
    for n, mode in enumerate(modes * (3 if thorough else 1)):
        bad = {"mode": mode, "body_hex": big_json(rng, "broken-%d" % n).hex(), "fed": rng.choice([1024, 2048])}
        goods = [{"mode": "healthy", "gzip": rng.random() < 0.3,
                  "body_hex": json.dumps({"jsonrpc": "2.0", "id": 1, "result": {"token": "ok-%d-%d" % (n, i), "t": random_text(rng)}},
                                         ensure_ascii=False).encode("utf-8").hex()} for i in range(rng.randint(1, 3))]
        seq = [bad] + goods
        if rng.random() < 0.4:
            seq = [goods[0]] + seq
        out.append(seq)
    return out


def run_proxy_session(J, cfg, replies):
    """A real ServerProxy on a real Transport; one call per scripted reply (a reset reply is followed by the library's own retry,
    which consumes the next reply within the same call).  -> [(reply index, text returned by parse_response | exception)], [call outcomes]"""
    script = [http_reply(s) for s in replies]
    served = []           # indices of the replies in the order they are handed out

    class T(J.Transport):
        def make_connection(self, host):
            # what xmlrpc.client.Transport.make_connection does, with the scripted connection
            if self._connection and host == self._connection[0]:
                return self._connection[1]
            c = ScriptedConn(script)
            self._connection = host, c
            return c

        def parse_response(self, response):
            idx = len(replies) - len(script) - 1
            try:
                text = J.Transport.parse_response(self, response)
            except Exception as ex:  # noqa: BLE001 - recorded and re-raised: a pass-through
                served.append((idx, "err", ex))
                raise
            served.append((idx, "ok", text))
            return text

    t = T(cfg)
    p = J.ServerProxy("http://localhost/", transport=t, config=cfg)
    calls = []
    guard = 0
    while script and guard < 20:
        guard += 1
        calls.append(impl.outcome(p.ping, 1))
    try:
        p("close")()
    except Exception:  # noqa: BLE001
        pass
    return served, calls


def stage_b(ctx, J, cfg):
    rng = ctx.derive_rng("proxy-sessions")
    for replies in proxy_sessions(rng, ctx.thorough):
        served, calls = run_proxy_session(J, cfg, replies)
        case = {"via": "session/proxy", "replies": replies}
        seen = set()
        for idx, k, v in served:
            seen.add(idx)
            spec = replies[idx]
            body = bytes.fromhex(spec["body_hex"])
            if spec["mode"] == "healthy":
                want = body.decode("utf-8")
                if k != "ok" or v != want:
                    ctx.violate(case, "reply %d of %d over one ServerProxy (%s): the text parse_response returned (%s, %d characters: %r…) "
                                "differs from the decoding of the body of that reply (%d characters: %r…)"
                                % (idx + 1, len(replies), "/".join(s["mode"] for s in replies), k,
                                   len(v) if isinstance(v, str) else -1, (v[:60] if isinstance(v, str) else v), len(want), want[:60]),
                                key="client-session")
            elif k == "ok" and v:
                ctx.violate(case, "reply %d (%s) broke in the middle of its body, yet parse_response returned the text %r…"
                            % (idx + 1, spec["mode"], v[:60]), key="client-session")
        for idx, spec in enumerate(replies):
            if spec["mode"] == "healthy" and idx not in seen:
                ctx.violate(case, "the healthy reply %d of %d was never parsed (calls: %r)" % (idx + 1, len(replies), [c[0] for c in calls]),
                            key="client-session-lost")
        ctx.hist["class:session/proxy/%s" % "/".join(s["mode"] for s in replies if s["mode"] != "healthy")] += 1
        ctx.count(case_repr={"proxy_session": [s["mode"] for s in replies], "calls": [c[0] for c in calls]},
                  nontrivial_key=("psess", tuple(s["mode"] for s in replies)), kind="session/proxy")


def run_sessions(ctx, env, cfgs, lines, impl_out):
    stage_a(ctx, env.J, cfgs[0], lines, impl_out)
    stage_b(ctx, env.J, cfgs[0])
    ctx.assumptions.append("sessions: what each response delivered to the parser before it ended (the chunks of `stream.read(1024)`, the "
                           "decompressed ones for gzip) is observed on a reference reader — the loop of xmlrpc.client.Transport.parse_response "
                           "over an identical response object, CPython's GzipDecodedResponse included — and handed to the model; "
                           "http.client's chunked / Content-Length body readers are CPython, outside the model")


def replay_session(J, cfg, case):
    """Replays a session case of a replay file -> list of problems."""
    problems = []
    if case.get("via") == "session/parse_response":
        mk = dict(transports(J, cfg))[case.get("transport", "Transport")]
        outs, line, rend, _nfed = run_session(mk, case["responses"])
        print(line[:600])
        print("->", rend[:600])
        for n, (spec, (k, v)) in enumerate(zip(case["responses"], outs)):
            m = judge(spec, k, v)
            if m:
                problems.append("response %d: %s" % (n + 1, m))
    else:
        served, calls = run_proxy_session(J, cfg, case["replies"])
        for idx, k, v in served:
            spec = case["replies"][idx]
            print("reply %d (%s): %s %r" % (idx + 1, spec["mode"], k, (v[:70] if isinstance(v, str) else v)))
            if spec["mode"] == "healthy":
                want = bytes.fromhex(spec["body_hex"]).decode("utf-8")
                if k != "ok" or v != want:
                    problems.append("reply %d: text differs from the decoding of its body" % (idx + 1))
            elif k == "ok" and v:
                problems.append("reply %d: broken body yet a text was returned" % (idx + 1))
    return problems
