-- Root of the JRV library: models, driver, generated facts, property theorems.
import JRV.Model.Json
import JRV.Model.Client
import JRV.Model.Backend
import JRV.Model.Payload
import JRV.Model.Headers
import JRV.Model.Wire
import JRV.Model.ConfigHeap
import JRV.Model.Transport
import JRV.Generated
import JRV.Driver
import JRV.Properties.C06
import JRV.Properties.C13
import JRV.Properties.C14
import JRV.Properties.C17
import JRV.Properties.C18
import JRV.Properties.C19
