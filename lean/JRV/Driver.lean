/-
  JRV.Driver — dispatch of line-protocol components (see Main.lean).
  Each cluster of models registers its components here.
-/
import JRV.Driver.Registry
import JRV.Driver.Client
import JRV.Driver.Payload
import JRV.Driver.Headers
import JRV.Driver.Wire
import JRV.Driver.ConfigHeap
import JRV.Driver.Transport
import JRV.Driver.ServerLife
import JRV.Driver.Server
import JRV.Driver.JsonClass
import JRV.Driver.EndToEnd
import JRV.Driver.Future
import JRV.Driver.Pool
import JRV.Driver.JsonText
import JRV.Driver.JsonClassExt
import JRV.Driver.ClientWire
import JRV.Driver.ByteBody
import JRV.Driver.ConfigHistory
import JRV.Driver.JsonString
import JRV.Driver.ServerContend
import JRV.Driver.WireSession

namespace JRV.Driver

def components : List (String × (List String → String)) := [
  ("echo", echo), ("norm", norm), ("truthy", truthyC), ("pyeq", pyeqC), ("cmpint", cmpIntC)
] ++ clientComponents ++ payloadComponents ++ headersComponents ++ wireComponents ++ configHeapComponents ++ transportComponents ++ serverLifeComponents ++ serverComponents ++ jsonClassComponents ++ endToEndComponents ++ futureComponents ++ poolComponents ++ jsonTextComponents ++ jsonClassExtComponents ++ clientWireComponents ++ byteBodyComponents ++ configHistoryComponents ++ jsonStringComponents ++ serverContendComponents ++ wireSessionComponents

def handle (line : String) : String :=
  match JRV.Codec.tokens line with
  | [] => "bad-op"
  | c :: rest =>
    match components.lookup c with
    | some f => f rest
    | none => "bad-op"

end JRV.Driver
