/-
  Line-protocol component for JRV.Model.ByteBody:

    bytebody <hex bytes of the body | ->     undecodable / malformed / wellformed
-/
import JRV.Driver.Codec
import JRV.Driver.Wire
import JRV.Model.ByteBody

namespace JRV.Driver
open JRV JRV.Codec JRV.ByteBody

def byteBodyC (toks : List String) : String :=
  match toks with
  | [t] =>
    match bytesOfHex? t with
    | some b =>
      match bodyVerdict b with
      | .undecodable => "undecodable"
      | .malformed => "malformed"
      | .wellFormed => "wellformed"
    | none => "bad-op"
  | _ => "bad-op"

def byteBodyComponents : List (String × (List String → String)) := [("bytebody", byteBodyC)]

end JRV.Driver
