/-
  Line-protocol components for JRV.Model.Client:
    cfe <reply>            check_for_errors
    proxy <reply>          ServerProxy._request result extraction
    notify <reply>         ServerProxy._request_notify
    mcget <i> <results>    MultiCallIterator[i]
    mciter/mclist <results>, mcunpack <n> <results>   iteration, list(), unpacking of a MultiCall result
-/
import JRV.Driver.Codec
import JRV.Model.Client

namespace JRV.Driver
open JRV JRV.Codec JRV.Client

def cfeC (toks : List String) : String :=
  match readVal toks with
  | some (v, []) => showResult (checkForErrors v)
  | _ => "bad-op"

def proxyC (toks : List String) : String :=
  match readVal toks with
  | some (v, []) => showResult (proxyResult v)
  | _ => "bad-op"

def notifyC (toks : List String) : String :=
  match readVal toks with
  | some (v, []) => showResult (proxyNotify v)
  | _ => "bad-op"

def mcgetC (toks : List String) : String :=
  match toks with
  | i :: rest =>
    match i.toNat?, readVal rest with
    | some n, some (.list xs, []) => showResult (multicallGet xs n)
    | _, _ => "bad-op"
  | _ => "bad-op"

/-- `mcrun <reply>`: `ok <list of results>` or the raised error. -/
def mcrunC (toks : List String) : String :=
  match readVal toks with
  | some (v, []) => showResult ((multicallRun v).map PyVal.list)
  | _ => "bad-op"

/-- `mciter <results>`: `ok <list of the values handed out> | done` or `… | err <Class> <arg>` (iteration). -/
def mciterC (toks : List String) : String :=
  match readVal toks with
  | some (.list xs, []) =>
    match multicallIter xs with
    | (ys, Option.none) => showResult (.ok (.list ys)) ++ " | done"
    | (ys, some e) => showResult (.ok (.list ys)) ++ " | " ++ showResult (.error e)
  | _ => "bad-op"

/-- `mclist <results>`: `list(results)`. -/
def mclistC (toks : List String) : String :=
  match readVal toks with
  | some (.list xs, []) => showResult ((multicallList xs).map PyVal.list)
  | _ => "bad-op"

/-- `mcunpack <n> <results>`: `a1, …, an = results`. -/
def mcunpackC (toks : List String) : String :=
  match toks with
  | i :: rest =>
    match i.toNat?, readVal rest with
    | some n, some (.list xs, []) => showResult ((multicallUnpack xs n).map PyVal.list)
    | _, _ => "bad-op"
  | _ => "bad-op"

def clientComponents : List (String × (List String → String)) := [
  ("cfe", cfeC), ("proxy", proxyC), ("notify", notifyC), ("mcget", mcgetC), ("mcrun", mcrunC),
  ("mciter", mciterC), ("mclist", mclistC), ("mcunpack", mcunpackC)
]

end JRV.Driver
