/-
  Line-protocol components for JRV.Model.ClientWire (the reply as bytes of an HTTP body; hex token, `-` = empty):
    wrun <n> <hexbody> <value>       `_run_request`: pieces of n bytes → JSONTarget → text → parser
    wcall / wnotify <n> <hexbody> <value>   a proxy call / a notification call over the wire
    wmc <n> <hexbody> <value>        `MultiCall._request` over the wire: the list of results
  `<value>` is what the JSON parser gives for the WHOLE decoded body (computed by the harness with CPython's parser):
  the parser parameter of the model is instantiated with the one-point function `text of the body ↦ value` — any
  other text (e.g. one the model would get by decoding differently) is `Unmodelled`.
-/
import JRV.Driver.Codec
import JRV.Driver.Wire
import JRV.Model.ClientWire

namespace JRV.Driver
open JRV JRV.Codec JRV.Client JRV.Wire JRV.ClientWire

def oracle (body : Bytes) (v : PyVal) : String → PyM PyVal :=
  fun s => if toBytes s == body then pure v else raise "Unmodelled" (.str "text other than the decoded body")

def wireArgs (toks : List String) : Option (Nat × Bytes × PyVal) :=
  match toks with
  | n :: hb :: rest =>
    match n.toNat?, bytesOfHex? hb, readVal rest with
    | some n, some body, some (v, []) => some (n, body, v)
    | _, _, _ => none
  | _ => none

def wrunC (toks : List String) : String :=
  match wireArgs toks with
  | some (n, body, v) => showResult (runRequest (oracle body v) n body)
  | none => "bad-op"

def wcallC (toks : List String) : String :=
  match wireArgs toks with
  | some (n, body, v) => showResult (wireCall (oracle body v) n body)
  | none => "bad-op"

def wnotifyC (toks : List String) : String :=
  match wireArgs toks with
  | some (n, body, v) => showResult (wireNotify (oracle body v) n body)
  | none => "bad-op"

def wmcC (toks : List String) : String :=
  match wireArgs toks with
  | some (n, body, v) => showResult ((wireMulticall (oracle body v) n body).map PyVal.list)
  | none => "bad-op"

def clientWireComponents : List (String × (List String → String)) := [
  ("wrun", wrunC), ("wcall", wcallC), ("wnotify", wnotifyC), ("wmc", wmcC)
]

end JRV.Driver
