/-
  JRV.Driver.Codec — the line protocol between the Python harness and the executable model
  (DESIGN.md appendix A).  Values travel as space-separated tokens in prefix form:

    N  T  F  I<int>  D<+|-><mant>e<exp>  S<hex utf-8>
    L<n> v1..vn   U<n> ..(tuple)   E<n> ..(set)   Z<n> ..(frozenset)
    M<n> k1 v1 .. kn vn (dict, insertion order)
    O<hex class>:<n> <hex name> v ..  (instance with fields)

  The reader is fuel-bounded structural recursion on the token list; an ill-formed line is
  rejected (`none`) — the driver then answers `bad-op`, it never defaults.
-/
import JRV.Model.Json

namespace JRV.Codec
open JRV

def hexDigit? (c : Char) : Option Nat :=
  if '0' ≤ c ∧ c ≤ '9' then some (c.toNat - '0'.toNat)
  else if 'a' ≤ c ∧ c ≤ 'f' then some (c.toNat - 'a'.toNat + 10)
  else if 'A' ≤ c ∧ c ≤ 'F' then some (c.toNat - 'A'.toNat + 10)
  else none

def hexBytes? : List Char → Option (List UInt8)
  | [] => some []
  | a :: b :: rest => do
    let x ← hexDigit? a
    let y ← hexDigit? b
    let tl ← hexBytes? rest
    pure (UInt8.ofNat (x * 16 + y) :: tl)
  | _ => none

def unhex? (s : String) : Option String := do
  let bs ← hexBytes? s.toList
  String.fromUTF8? (ByteArray.mk bs.toArray)

def hexNibble (n : Nat) : Char :=
  if n < 10 then Char.ofNat ('0'.toNat + n) else Char.ofNat ('a'.toNat + n - 10)

def hex (s : String) : String :=
  String.ofList (s.toUTF8.toList.flatMap fun b => [hexNibble (b.toNat / 16), hexNibble (b.toNat % 16)])

def parseFloat? (s : String) : Option PyFloat :=
  match s.toList with
  | sign :: rest =>
    match (String.ofList rest).splitOn "e" with
    | [m, e] => do
      let mant ← m.toNat?
      let exp ← e.toInt?
      if sign == '+' then some { neg := false, mant := mant, exp := exp }
      else if sign == '-' then some { neg := true, mant := mant, exp := exp }
      else none
    | _ => none
  | [] => none

mutual
  def parseVal (fuel : Nat) (toks : List String) : Option (PyVal × List String) :=
    match fuel with
    | 0 => none
    | fuel + 1 =>
      match toks with
      | [] => none
      | t :: rest =>
        match t.toList with
        | ['N'] => some (.none, rest)
        | ['T'] => some (.bool true, rest)
        | ['F'] => some (.bool false, rest)
        | 'I' :: ds => (String.ofList ds).toInt?.map fun i => (.int i, rest)
        | 'D' :: ds => (parseFloat? (String.ofList ds)).map fun f => (.float f, rest)
        | 'S' :: ds => (unhex? (String.ofList ds)).map fun s => (.str s, rest)
        | 'L' :: ds => do
          let n ← (String.ofList ds).toNat?
          let (xs, r) ← parseVals fuel n rest
          pure (.list xs, r)
        | 'U' :: ds => do
          let n ← (String.ofList ds).toNat?
          let (xs, r) ← parseVals fuel n rest
          pure (.tuple xs, r)
        | 'E' :: ds => do
          let n ← (String.ofList ds).toNat?
          let (xs, r) ← parseVals fuel n rest
          pure (.set xs, r)
        | 'Z' :: ds => do
          let n ← (String.ofList ds).toNat?
          let (xs, r) ← parseVals fuel n rest
          pure (.frozenset xs, r)
        | 'M' :: ds => do
          let n ← (String.ofList ds).toNat?
          let (kvs, r) ← parseKVs fuel n rest
          pure (.dict kvs, r)
        | 'O' :: ds =>
          match (String.ofList ds).splitOn ":" with
          | [c, n] => do
            let cls ← unhex? c
            let n ← n.toNat?
            let (fs, r) ← parseFields fuel n rest
            pure (.obj cls fs, r)
          | _ => none
        | _ => none
  def parseVals (fuel : Nat) (n : Nat) (toks : List String) : Option (List PyVal × List String) :=
    match fuel with
    | 0 => none
    | fuel + 1 =>
      match n with
      | 0 => some ([], toks)
      | n + 1 => do
        let (v, r) ← parseVal fuel toks
        let (vs, r') ← parseVals fuel n r
        pure (v :: vs, r')
  def parseKVs (fuel : Nat) (n : Nat) (toks : List String) : Option (List (PyVal × PyVal) × List String) :=
    match fuel with
    | 0 => none
    | fuel + 1 =>
      match n with
      | 0 => some ([], toks)
      | n + 1 => do
        let (k, r) ← parseVal fuel toks
        let (v, r1) ← parseVal fuel r
        let (kvs, r2) ← parseKVs fuel n r1
        pure ((k, v) :: kvs, r2)
  def parseFields (fuel : Nat) (n : Nat) (toks : List String) : Option (List (String × PyVal) × List String) :=
    match fuel with
    | 0 => none
    | fuel + 1 =>
      match n with
      | 0 => some ([], toks)
      | n + 1 =>
        match toks with
        | [] => none
        | k :: r => do
          let name ← unhex? k
          let (v, r1) ← parseVal fuel r
          let (fs, r2) ← parseFields fuel n r1
          pure ((name, v) :: fs, r2)
end

/-- Parse one value off the front of a token list. -/
def readVal (toks : List String) : Option (PyVal × List String) :=
  parseVal (2 * toks.length + 2) toks

/-- Parse `n` values off the front of a token list. -/
def readVals (n : Nat) (toks : List String) : Option (List PyVal × List String) :=
  parseVals (2 * toks.length + n + 2) n toks

def showFloat (f : PyFloat) : String :=
  "D" ++ (if f.neg then "-" else "+") ++ toString f.mant ++ "e" ++ toString f.exp

mutual
  def showVal : PyVal → String
    | .none => "N"
    | .bool true => "T"
    | .bool false => "F"
    | .int i => "I" ++ toString i
    | .float f => showFloat f
    | .str s => "S" ++ hex s
    | .list xs => "L" ++ toString xs.length ++ showVals xs
    | .tuple xs => "U" ++ toString xs.length ++ showVals xs
    | .set xs => "E" ++ toString xs.length ++ showVals xs
    | .frozenset xs => "Z" ++ toString xs.length ++ showVals xs
    | .dict kvs => "M" ++ toString kvs.length ++ showKVs kvs
    | .obj c fs => "O" ++ hex c ++ ":" ++ toString fs.length ++ showFields fs
  def showVals : List PyVal → String
    | [] => ""
    | x :: xs => " " ++ showVal x ++ showVals xs
  def showKVs : List (PyVal × PyVal) → String
    | [] => ""
    | (k, v) :: xs => " " ++ showVal k ++ " " ++ showVal v ++ showKVs xs
  def showFields : List (String × PyVal) → String
    | [] => ""
    | (k, v) :: xs => " " ++ hex k ++ " " ++ showVal v ++ showFields xs
end

/-- Result lines: `ok <value>` or `err <ClassName> <value>`. -/
def showResult : PyM PyVal → String
  | .ok v => "ok " ++ showVal v
  | .error e => "err " ++ e.cls ++ " " ++ showVal e.arg

def tokens (line : String) : List String :=
  (line.splitOn " ").filter (· ≠ "")

end JRV.Codec
