/-
  Line-protocol components for JRV.Model.ConfigHeap:
    c13hist <srvVersion tenths> <body>*       body = `[` entry* `]`, entry = v1 (valid, has jsonrpc) | v0 (valid, no jsonrpc) | i (invalid)
        → per body the list of reply forms `10`/`20` in entry order, bodies separated by `|`, then ` ; srv=<version>`
    c13copy <op>*     ops on a heap that starts with one default configuration at address 0:
        c<a>                      copy the object at address a (new address = number of objects so far)
        m<a>:<field>:<x>[:<y>]    mutate: version|ct|ua|jc|sm|ia (scalar x) | cls (key x value y) | hnd (key x value y)
        → the observation of every object after all ops: `<addr>=<version>,<ct>,<ua>,<jc>,<sm>,<ia>,{k:v;..},{k:v;..}` joined by ` `
-/
import JRV.Driver.Codec
import JRV.Model.ConfigHeap

namespace JRV.Driver
open JRV JRV.CH

def initHeap (ver : Nat) : Heap :=
  { cfgs := [⟨ver, "application/json-rpc", "ua", true, "_serialize", "_ignore", 0, 1⟩], dicts := [[], []] }

def parseBodies (toks : List String) : Option (List (List Entry)) :=
  let rec go (toks : List String) (cur : Option (List Entry)) (acc : List (List Entry)) : Option (List (List Entry)) :=
    match toks with
    | [] => if cur.isNone then some acc.reverse else none
    | "[" :: rest => if cur.isNone then go rest (some []) acc else none
    | "]" :: rest => match cur with | some es => go rest none (es.reverse :: acc) | none => none
    | "v1" :: rest => match cur with | some es => go rest (some (.valid ⟨true, .none⟩ :: es)) acc | none => none
    | "v0" :: rest => match cur with | some es => go rest (some (.valid ⟨false, .none⟩ :: es)) acc | none => none
    | "i" :: rest => match cur with | some es => go rest (some (.invalid .none :: es)) acc | none => none
    | _ => none
  go toks none []

def c13histC (toks : List String) : String :=
  match toks with
  | v :: rest =>
    match v.toNat?, parseBodies rest with
    | some ver, some bodies =>
      match serveHistory (fun cv _ => formOf cv) (fun cv _ => formOf cv) 0 (initHeap ver) bodies with
      | some (h', reps) =>
        let srv := match view h' 0 with | some cv => toString cv.version | none => "?"
        " | ".intercalate (reps.map fun rs => " ".intercalate (rs.map toString)) ++ " ; srv=" ++ srv
      | none => "err"
    | _, _ => "bad-op"
  | _ => "bad-op"

def showDict (d : DictObj) : String := "{" ++ ";".intercalate (d.map fun kv => kv.1 ++ ":" ++ kv.2) ++ "}"

def showView (a : Nat) (v : CfgView) : String :=
  toString a ++ "=" ++ ",".intercalate [toString v.version, v.contentType, v.userAgent, toString v.useJsonclass,
    v.serializeMethod, v.ignoreAttribute, showDict v.classes, showDict v.handlers]

def applyOp (h : Heap) (op : String) : Option Heap :=
  match op.toList with
  | 'c' :: ds => do
    let a ← (String.ofList ds).toNat?
    let (h1, _) ← copyCfg h a
    pure h1
  | 'm' :: ds =>
    match (String.ofList ds).splitOn ":" with
    | [a, "version", x] => do pure (applyMut h (← a.toNat?) (.setVersion (← x.toNat?)))
    | [a, "ct", x] => do pure (applyMut h (← a.toNat?) (.setContentType x))
    | [a, "ua", x] => do pure (applyMut h (← a.toNat?) (.setUserAgent x))
    | [a, "jc", x] => do pure (applyMut h (← a.toNat?) (.setUseJsonclass (x == "true")))
    | [a, "sm", x] => do pure (applyMut h (← a.toNat?) (.setSerializeMethod x))
    | [a, "ia", x] => do pure (applyMut h (← a.toNat?) (.setIgnoreAttribute x))
    | [a, "cls", x, y] => do pure (applyMut h (← a.toNat?) (.classesSet x y))
    | [a, "hnd", x, y] => do pure (applyMut h (← a.toNat?) (.handlersSet x y))
    | _ => none
  | _ => none

def c13copyC (toks : List String) : String :=
  match toks.foldlM applyOp (initHeap 20) with
  | some h =>
    " ".intercalate ((List.range h.cfgs.length).filterMap fun a => (view h a).map (showView a))
  | none => "bad-op"

def configHeapComponents : List (String × (List String → String)) := [
  ("c13hist", c13histC), ("c13copy", c13copyC)
]

end JRV.Driver
