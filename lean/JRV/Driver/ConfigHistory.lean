/-
  Line-protocol component for JRV.Model.ConfigHistory (C20): one `Config` object over time.

    cfghistory <cfg> <use_jsonclass:T|F> <classenv> <ops>
        cfg      = L3 <serialize_method:S> <ignore_attribute:S> L<n> (L2 <type tag:S> <handler id:I | N>)…   (as `jcdump`)
        classenv = as `jcdump`
        ops      = L<n> <op>…
        op       = L3 Sseth <type tag:S> <handler id:I|N>     config.serialize_handlers[T] = h
                 | L2 Sdelh <type tag:S>                       config.serialize_handlers.pop(T, None)
                 | L1 Sclearh                                  config.serialize_handlers.clear()
                 | L2 Sreplh L<n> (L2 S I|N)…                  config.serialize_handlers = {…}
                 | L2 Ssetm <name:S>                           config.serialize_method = name
                 | L2 Sseti <name:S>                           config.ignore_attribute = name
                 | L2 Ssetj <T|F>                              config.use_jsonclass = flag
                 | L3 Saddc <name:S> <class id:S> | L2 Sdelc <name:S> | L1 Sclearc        config.classes
                 | L5 Sdump <sm:S|N> <ia:S|N> <ignore:L…|N> <value>      jsonclass.dump(value, sm, ia, ignore, config)
                 | L2 Srpcdump <value>                         the value part of jsonrpc.dump(value, …, config=config)
        output   = one field per statement separated by ` | `: `-` for a store, `ok <value>` / `err <Class> <arg>` for a dump
-/
import JRV.Driver.Codec
import JRV.Driver.JsonClass
import JRV.Model.ConfigHistory

namespace JRV.Driver
open JRV JRV.Codec JRV.JsonClass JRV.ConfigHistory

def historyOp? : PyVal → Option Op
  | .list [.str "seth", .str t, .int i] => if i < 0 then none else some (.setHandler t (some i.toNat))
  | .list [.str "seth", .str t, .none] => some (.setHandler t Option.none)
  | .list [.str "delh", .str t] => some (.delHandler t)
  | .list [.str "clearh"] => some .clearHandlers
  | .list [.str "replh", .list hs] => (handlers? hs).map Op.replaceHandlers
  | .list [.str "setm", .str s] => some (.setMethod s)
  | .list [.str "seti", .str s] => some (.setIgnoreAttr s)
  | .list [.str "setj", .bool b] => some (.setUseJsonclass b)
  | .list [.str "addc", .str n, .str c] => some (.addClass n c)
  | .list [.str "delc", .str n] => some (.delClass n)
  | .list [.str "clearc"] => some .clearClasses
  | .list [.str "dump", asm, aia, aig, v] => do
    let sm ← optStr? asm
    let ia ← optStr? aia
    let ig ← match aig with
      | .none => some Option.none
      | .list xs => some (some xs)
      | _ => Option.none
    pure (.dump sm ia ig v)
  | .list [.str "rpcdump", v] => some (.rpcDump v)
  | _ => none

def historyOps? : List PyVal → Option (List Op)
  | [] => some []
  | x :: r => do
    let o ← historyOp? x
    let os ← historyOps? r
    pure (o :: os)

def cfghistoryC (toks : List String) : String :=
  match readVals 4 toks with
  | some ([.list [.str sm, .str ia, .list hs], .bool uj, .list envv, .list ops], []) =>
    match handlers? hs, classEnv? envv, historyOps? ops with
    | some hs, some env, some ops =>
      let s : State := { cfg := { serializeMethod := sm, ignoreAttribute := ia, handlers := hs }, useJsonclass := uj }
      " | ".intercalate ((run env driverH s ops).map fun
        | some r => showResult r
        | Option.none => "-")
    | _, _, _ => "bad-op"
  | _ => "bad-op"

def configHistoryComponents : List (String × (List String → String)) := [("cfghistory", cfghistoryC)]

end JRV.Driver
