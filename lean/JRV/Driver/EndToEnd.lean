/-
  Line-protocol component for JRV.Model.EndToEnd:

    e2e <spec>     a ServerProxy with a History talking to a server through the loop-back transport

  spec  = L6 <ccfg> <cver> <scfg> <registry> <mcfg> L<n> <op>..
    ccfg, scfg, mcfg   L2 I<version in tenths> <use_jsonclass: T|F>     (client, server, MultiCall configuration)
    cver               N | I<tenths>                                      (ServerProxy(version=…))
    registry           as for `srv` (JRV.Driver.Server)
    op   L4 S"call"   L<k> S<segment>.. L<args> M<kwargs>                 proxy.<path>(*args, **kwargs)
         L4 S"notify" L<k> S<segment>.. L<args> M<kwargs>                 proxy._notify.<path>(*args, **kwargs)
         L2 S"batch"  L<j> (L4 <notify: T|F> L<k> S<segment>.. L<args> M<kwargs>)..    MultiCall
         L2 S"script" L<n> <step>..      a program over KEPT helper objects (variables live until the end of the line):
              step = L2 S"mc" S<dst>                               dst = MultiCall(proxy, config=mcfg)
                     L4 S"get" S<dst> S<src> S<name>               dst = getattr(src, name)     ("proxy" is predefined)
                     L5 S"call" S<dst> S<src> L<args> M<kwargs>    src(*args, **kwargs)         (result not kept)
              the op's outcome is that of its last step, or the exception of the first step that raises; calling
              a `_Method` gives its value, a `MultiCallMethod` gives N, a `MultiCall` the batch value
         L2 S"reg" <regop>               an operation of the program on the server's registry (JRV.Model.RegistryProg):
              regop = L3 S"regfunc" S<name> <callable>             self.funcs[name] = f
                      L2 S"delfunc" S<name>                        del self.funcs[name]
                      L2 S"introspection" <callable>               register_introspection_functions() (the callable
                                                                   stands for system.methodHelp: pydoc is not modelled)
                      L2 S"newinst" L<n> (L2 S<name> <attr>)..     a new object (index = number of objects so far)
                      L2 S"reginst" (N | I<k>)                     register_instance(object k | None)
                      L4 S"setattr" I<k> L<path> <attr>            setattr along the path on object k
                      L3 S"delattr" I<k> L<path>                   delattr likewise
              its outcome is N or the exception (KeyError / AttributeError); the registry given in the spec is the
              initial state (its instance, if any, is object 0, registered)
  The ops run in order on one proxy and one History; request `n` (counting every `dumps`) draws the id
  `fresh#n`.

  Output: `ok L<n+1> <op result>.. <history>` with
    op result = U2 <outcome> <effects>
    outcome   = U2 S"ok" <value> | U3 S"err" S<Class> <arg>
                for a batch the value is N (empty job list) or L<len> <outcome of results[i]>..
    effects   = as for `srv`
    history   = U2 L<r> S<request text>.. L<s> S<response text>..
  or `err Unmodelled <why>` when some op is outside the model.

  THE CODEC OF THIS DRIVER IS NOT THE OBJECT OF ANY THEOREM.  The theorems of JRV.Properties.C01 hold for
  every `Backend` satisfying its laws; to *execute* the composed model a concrete law-free `Codec` is
  needed, and this one writes a document as the line-protocol tokens of its normal form
  (`render v = showVal v.normalise`, `parse = readVal`, and the MultiCall text `"[ a,b ]"` is split at
  the commas, which never occur in tokens).  The harness reads the model's texts with the same token
  reader and the real texts with `json.loads`, and compares the documents.
  Class translation in the driver: `jsonclass.dump` on JSON-like values is normalisation (`stdConv`),
  `jsonclass.load` is the identity on values free of `"__jsonclass__"` keys, raises `TranslationError` when
  the only such dictionaries name the empty module, and is declined otherwise.
-/
import JRV.Driver.Codec
import JRV.Driver.Server
import JRV.Model.EndToEnd
import JRV.Model.RegistryProg

namespace JRV.Driver
open JRV JRV.Codec JRV.Callable JRV.Server JRV.EndToEnd

mutual
  def strKeyed : PyVal → Bool
    | .list xs => strKeyedList xs
    | .tuple xs => strKeyedList xs
    | .dict kvs => strKeyedKVs kvs
    | _ => true
  def strKeyedList : List PyVal → Bool
    | [] => true
    | x :: xs => strKeyed x && strKeyedList xs
  def strKeyedKVs : List (PyVal × PyVal) → Bool
    | [] => true
    | (k, v) :: rest => k.isStr && strKeyed v && strKeyedKVs rest
end

def tokenRender (v : PyVal) : PyM String :=
  if !serialisable v then raise "TypeError" (.str "not JSON serializable")
  else if !strKeyed v then raise "Unmodelled" (.str "json.dumps coerces non-string keys")
  else pure (showVal v.normalise)

def parseOne (text : String) : Option PyVal :=
  match readVal (tokens text) with
  | some (v, []) => some v
  | _ => none

def tokenParse (text : String) : Option PyVal :=
  if text.startsWith "[ " && text.endsWith " ]" then
    let inner := String.ofList (((text.toList.drop 2).reverse.drop 2).reverse)
    (inner.splitOn ",").mapM parseOne |>.map PyVal.list
  else parseOne text

def tokenCodec : EndToEnd.Codec := { render := tokenRender, parse := tokenParse }

mutual
  /-- Every dictionary carrying `"__jsonclass__"` that `jsonclass.load` reaches has the form
      `{"__jsonclass__": ["", x], …}`: `load` raises `TranslationError("Module name empty.")` at the first. -/
  def jcEmptyOnly : PyVal → Bool
    | .list xs => jcEmptyOnlyList xs
    | .tuple xs => jcEmptyOnlyList xs
    | .dict kvs =>
      match PyVal.lookupStr "__jsonclass__" kvs with
      | some (.list [.str "", _]) => true
      | some _ => false
      | none => jcEmptyOnlyKVs kvs
    | .set _ => false | .frozenset _ => false | .obj _ _ => false
    | _ => true
  def jcEmptyOnlyList : List PyVal → Bool
    | [] => true
    | x :: xs => jcEmptyOnly x && jcEmptyOnlyList xs
  def jcEmptyOnlyKVs : List (PyVal × PyVal) → Bool
    | [] => true
    | (_, v) :: rest => jcEmptyOnly v && jcEmptyOnlyKVs rest
end

def stdUnconv (v : PyVal) : PyM PyVal :=
  if jcFree v then pure v
  else if jcEmptyOnly v then raise "TranslationError" (.str "Module name empty.")
  else raise "Unmodelled" (.str "jsonclass.load of a __jsonclass__ payload")

def outcomeVal : PyM PyVal → PyVal
  | .ok v => .tuple [.str "ok", v]
  | .error e => .tuple [.str "err", .str e.cls, e.arg]

def pathOf (xs : List PyVal) : Option (List String) := namesOf xs

/-- The value printed for a batch: `None`, or the outcome of every `results[i]`. -/
def batchVal (r : McResult) : PyM PyVal :=
  match r with
  | .noJobs => pure .none
  | .iterator results => do
    let n ← iterLen results
    pure (.list ((List.range n).map fun i => outcomeVal (iterGet results i)))

def jobOf : PyVal → Option (PyM Job)
  | .list [.bool notify, .list path, .list args, .dict kwargs] =>
    (pathOf path).map fun p => mkJob notify p args kwargs
  | _ => none

structure St where
  history : History := {}
  next : Nat := 0
  out : List PyVal := []
  heap : Heap := {}
  env : List (String × Ref) := [("proxy", .proxy)]
  /-- the server's registry now -/
  dstate : RegProg.DispState := {}

def historyVal (h : History) : PyVal :=
  .tuple [.list (h.requests.map PyVal.str), .list (h.responses.map PyVal.str)]

def freshId (n : Nat) : String := "fresh#" ++ toString n

/-- Appends the record of an op: its outcome and the server's effects. -/
def St.record (st : St) (value : PyM PyVal) (effects : List Effect) : St :=
  { st with out := st.out ++ [.tuple [outcomeVal value, .list (effects.map effectVal)]] }

/-- One step of a script.  `some (st', outcome, effects)`; `none` for an ill-formed step. -/
def runStep (c : Proxy) (m : McConfig) (p : Peer) (st : St) : PyVal → Option (St × PyM PyVal × List Effect)
  | .list [.str "mc", .str dst] =>
    let (r, hp) := st.heap.newMulticall
    some ({ st with heap := hp, env := (dst, r) :: st.env }, .ok .none, [])
  | .list [.str "get", .str dst, .str src, .str name] =>
    match st.env.lookup src with
    | Option.none => some (st, raise "Unmodelled" (.str "unbound variable"), [])
    | some r =>
      match getAttr st.heap r name with
      | .error e => some (st, .error e, [])
      | .ok (r', hp) => some ({ st with heap := hp, env := (dst, r') :: st.env }, .ok .none, [])
  | .list [.str "call", .str _, .str src, .list args, .dict kwargs] =>
    match st.env.lookup src with
    | Option.none => some (st, raise "Unmodelled" (.str "unbound variable"), [])
    | some (.method i) =>
      let r := callMethod tokenCodec c p st.history (freshId st.next) st.heap i args kwargs
      some ({ st with history := r.history, next := st.next + 1 }, r.value, r.effects)
    | some (.job k) =>
      match callJob st.heap k args kwargs with
      | .error e => some (st, .error e, [])
      | .ok hp => some ({ st with heap := hp }, .ok .none, [])
    | some (.multicall i) =>
      if !args.isEmpty || !kwargs.isEmpty then some (st, raise "Unmodelled" (.str "MultiCall called with arguments"), [])
      else
        let n := (st.heap.jobsOf i).elim 0 List.length
        let (r, hp) := callMulticall tokenCodec c m p st.history (fun i => freshId (st.next + i)) st.heap i
        some ({ st with history := r.history, next := st.next + n, heap := hp }, r.value.bind batchVal, r.effects)
    | some _ => some (st, raise "Unmodelled" (.str "call of a ServerProxy / _Notify / MultiCallNotify"), [])
  | _ => none

/-- The steps of one script op: stops at the first exception; the op's record is the last outcome and all effects. -/
def runSteps (c : Proxy) (m : McConfig) (p : Peer) (st : St) (last : PyM PyVal) (effs : List Effect) :
    List PyVal → Option St
  | [] => some { st with out := st.out ++ [.tuple [outcomeVal last, .list (effs.map effectVal)]] }
  | step :: rest =>
    match runStep c m p st step with
    | Option.none => Option.none
    | some (st', .error e, eff) =>
      some { st' with out := st'.out ++ [.tuple [outcomeVal (.error e), .list ((effs ++ eff).map effectVal)]] }
    | some (st', .ok v, eff) => runSteps c m p st' (.ok v) (effs ++ eff) rest

/-- One op of the client program against the server end `p`. -/
def stepOpOn (c : Proxy) (m : McConfig) (p : Peer) (st : St) : PyVal → Option St
  | .list [.str "call", .list path, .list args, .dict kwargs] => do
    let path ← pathOf path
    let r := EndToEnd.call tokenCodec c p st.history (freshId st.next) path args kwargs
    some (St.record { st with history := r.history, next := st.next + 1 } r.value r.effects)
  | .list [.str "notify", .list path, .list args, .dict kwargs] => do
    let path ← pathOf path
    let r := EndToEnd.notify tokenCodec c p st.history (freshId st.next) path args kwargs
    some (St.record { st with history := r.history, next := st.next + 1 } r.value r.effects)
  | .list [.str "batch", .list jobs] => do
    let built ← jobs.mapM jobOf
    match built.mapM id with
    | .error e => some { st with out := st.out ++ [.tuple [outcomeVal (.error e), .list []]] }
    | .ok js =>
      let r := EndToEnd.multicall tokenCodec c m p st.history (fun i => freshId (st.next + i)) js
      some (St.record { st with history := r.history, next := st.next + js.length } (r.value.bind batchVal) r.effects)
  | .list [.str "script", .list steps] => runSteps c m p st (.ok .none) [] steps
  | _ => none

def natOf : PyVal → Option Nat
  | .int i => if i ≥ 0 then some i.toNat else none
  | _ => none

def regOpOf : PyVal → Option RegProg.RegOp
  | .list [.str "regfunc", .str name, c] => (callableOf c).map (RegProg.RegOp.registerFunction name)
  | .list [.str "delfunc", .str name] => some (.deleteFunction name)
  | .list [.str "introspection", c] => (callableOf c).map RegProg.RegOp.registerIntrospection
  | .list [.str "newinst", .list chs] => (attrsOf chs).map fun a => .newInstance { attrs := a }
  | .list [.str "reginst", .none] => some (.registerInstance none)
  | .list [.str "reginst", k] => (natOf k).map fun n => .registerInstance (some n)
  | .list [.str "setattr", k, .list path, a] => do
    let n ← natOf k
    let p ← namesOf path
    let x ← attrOf 64 a
    some (.setAttr n p x)
  | .list [.str "delattr", k, .list path] => do
    let n ← natOf k
    let p ← namesOf path
    some (.delAttr n p)
  | _ => none

/-- One op; `none` for an ill-formed op, `some (.error e)` when an exception escapes where the real
    program would stop building the job list (reported as the op's outcome).  The server end is `base` with the
    registry the state denotes at this moment. -/
def stepOp (c : Proxy) (m : McConfig) (base : Peer) (st : St) : PyVal → Option St
  | .list [.str "reg", r] => do
    let op ← regOpOf r
    match RegProg.applyOp st.dstate op with
    | .ok d => some (St.record { st with dstate := d } (.ok .none) [])
    | .error e => some (St.record st (.error e) [])
  | op => stepOpOn c m (RegProg.peerOf base st.dstate) st op

def runOps (c : Proxy) (m : McConfig) (p : Peer) : St → List PyVal → Option St
  | st, [] => some st
  | st, op :: rest => do
    let st' ← stepOp c m p st op
    runOps c m p st' rest

mutual
  def findUnmodelled : PyVal → Option PyVal
    | .tuple [.str "err", .str "Unmodelled", a] => some a
    | .tuple xs => findUnmodelledList xs
    | .list xs => findUnmodelledList xs
    | _ => none
  def findUnmodelledList : List PyVal → Option PyVal
    | [] => none
    | x :: xs =>
      match findUnmodelled x with
      | some a => some a
      | none => findUnmodelledList xs
end

def verArgOf : PyVal → Option Payload.VerArg
  | .none => some .none
  | .int i => if i ≥ 0 then some (.num i.toNat) else none
  | _ => none

def e2eC (toks : List String) : String :=
  match readVal toks with
  | some (.list [cc, cv, sc, r, mc, .list ops], []) =>
    match cfgOf cc, verArgOf cv, cfgOf sc, registryOf r, cfgOf mc with
    | some ccfg, some cver, some scfg, some (reg, custom), some mcfg =>
      let c : Proxy := { cfg := ccfg, version := cver, conv := stdConv, unconv := stdUnconv }
      let m : McConfig := { cfg := mcfg, conv := stdConv }
      let p : Peer := { srv := { cfg := scfg, custom := custom, pool := .absent, conv := stdConv },
                        unconv := stdUnconv }
      match runOps c m p { dstate := RegProg.DispState.ofRegistry reg } ops with
      | some st =>
        match findUnmodelledList st.out with
        | some a => "err Unmodelled " ++ showVal a
        | none => "ok " ++ showVal (.list (st.out ++ [historyVal st.history]))
      | none => "bad-op"
    | _, _, _, _, _ => "bad-op"
  | _ => "bad-op"

def endToEndComponents : List (String × (List String → String)) := [("e2e", e2eC)]

end JRV.Driver
