/-
  Line-protocol component for JRV.Model.Future:

    fut <action>*        runs the schedule from `init`; prints, separated by " | ", the projection after
                         each action; an action that is not enabled prints `stuck` and ends the line.

  Actions:  R<i>=<m>,<extra>   thread i calls set_callback   m ∈ n (None) r (returns) x (raises) a (wrong arity)
            r<i>               registrar i executes its next labelled line
            E=v<obj> | E=e<n>  the task returns <obj> / raises exception object n
            e                  the executor executes its next labelled line
            O<j>=d | t | b     observer j calls done() / result(timeout) / result(None)
            o<j>  t<j>         observer j executes its next line / its timed wait gives up
  <obj> is `N` (None) or a natural number.

  Projection: <label executed>;pc=<next label>;cb=..;xt=..;c=..;l=..;f=..;d=..;x=..;log=..;errs=..;res=..
-/
import JRV.Model.Future

namespace JRV.Driver
open JRV.Future

namespace Fut

def showObj : Obj → String
  | none => "N"
  | some n => toString n

def readObj? (s : String) : Option Obj :=
  if s = "N" then some none else s.toNat?.map some

def showKind : CbKind → String
  | .returns => "r" | .raises => "x" | .wrongArity => "a"

def readMethod? (s : String) : Option (Option CbKind) :=
  if s = "n" then some none
  else if s = "r" then some (some .returns)
  else if s = "x" then some (some .raises)
  else if s = "a" then some (some .wrongArity)
  else none

def showTid : Tid → String
  | .exec => "E" | .reg i => "R" ++ toString i | .obs j => "O" ++ toString j

def rpcLabel := RPc.label
def epcLabel := EPc.label
def opcLabel := OPc.label

def showRes : ORes → String
  | .pending => "-" | .bool b => if b then "T" else "F" | .val v => "v" ++ showObj v
  | .raised e => "e" ++ toString e | .osError => "OSError" | .typeError => "TypeError"

def showAttempt (a : Attempt) : String :=
  toString a.rid ++ ":" ++ showKind a.kind ++ ":" ++ showTid a.caller ++ ":" ++ showObj a.data ++ ":" ++
    showObj a.exc ++ ":" ++ showObj a.extra

def showErr (e : Nat × Bool) : String := toString e.1 ++ ":" ++ (if e.2 then "T" else "E")

def b01 (b : Bool) : String := if b then "1" else "0"

/-- Label of the line the thread of an action is about to execute, its label after the step, its result. -/
def threadView (s : State) : Action → String × String
  | .regCall i _ _ | .reg i => (rpcLabel (s.regs i).pc, "-")
  | .execCall _ | .exec =>
    (epcLabel s.ex.pc, if s.ex.pc = .fin then (match s.ex.outcome with | some o => showObj o.exc | none => "?") else "-")
  | .obsCall j _ | .obs j | .obsTimeout j => (opcLabel (s.obs j).pc, showRes (s.obs j).res)

def proj (before : State) (a : Action) (s : State) : String :=
  let did := match a with
    | .regCall .. | .execCall .. | .obsCall .. => "enter"
    | .obsTimeout _ => "timeout"
    | _ => (threadView before a).1
  let (pc, res) := threadView s a
  did ++ ";pc=" ++ pc ++
  ";cb=" ++ (match s.callback with | none => "N" | some c => toString c.rid) ++
  ";xt=" ++ showObj s.extra ++ ";c=" ++ b01 s.completed ++
  ";l=" ++ (match s.lock with | none => "N" | some t => showTid t) ++
  ";f=" ++ b01 s.flag ++ ";d=" ++ showObj s.data ++ ";x=" ++ showObj s.exc ++
  ";log=" ++ ",".intercalate (s.attempts.map showAttempt) ++
  ";errs=" ++ ",".intercalate (s.errs.map showErr) ++
  ";res=" ++ res

def readAction? (t : String) : Option Action :=
  match t.toList with
  | 'R' :: rest =>
    match (String.ofList rest).splitOn "=" with
    | [i, args] =>
      match args.splitOn "," with
      | [m, x] => do
        let i ← i.toNat?
        let m ← readMethod? m
        let x ← readObj? x
        pure (.regCall i m x)
      | _ => none
    | _ => none
  | 'r' :: rest => (String.ofList rest).toNat?.map .reg
  | ['E', '=', 'v'] => none
  | 'E' :: '=' :: 'v' :: rest => (readObj? (String.ofList rest)).map fun v => .execCall (.ret v)
  | 'E' :: '=' :: 'e' :: rest => (String.ofList rest).toNat?.map fun e => .execCall (.raise e)
  | ['e'] => some .exec
  | 'O' :: rest =>
    match (String.ofList rest).splitOn "=" with
    | [j, k] => do
      let j ← j.toNat?
      let k ← (if k = "d" then some OKind.done else if k = "t" then some (OKind.result true)
               else if k = "b" then some (OKind.result false) else none)
      pure (.obsCall j k)
    | _ => none
  | 'o' :: rest => (String.ofList rest).toNat?.map .obs
  | 't' :: rest => (String.ofList rest).toNat?.map .obsTimeout
  | _ => none

def runLine (s : State) : List String → List String → List String
  | [], acc => acc.reverse
  | t :: ts, acc =>
    match readAction? t with
    | none => ("bad-op" :: acc).reverse
    | some a =>
      match step? s a with
      | none => ("stuck" :: acc).reverse
      | some s' => runLine s' ts (proj s a s' :: acc)

end Fut

def futC (toks : List String) : String :=
  " | ".intercalate (Fut.runLine init toks [])

def futureComponents : List (String × (List String → String)) := [("fut", futC)]

end JRV.Driver
