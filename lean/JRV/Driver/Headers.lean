/-
  Line-protocol components for JRV.Model.Headers:
    hdr <L5: contentType bodyLen userAgent extra stack>     extra : list of [name, value]; stack : list of such lists
        → `ok <list of [name, value]>` the header lines send_content emits, in order
    blocks <L3: userAgent base tree>   base : stack before the code runs; tree : list of block items
        item = S"c" (request) | S"r0" … S"r3" (raise an exception of kind 0 = Exception subclass,
               1 = direct BaseException subclass, 2 = GeneratorExit, 3 = SystemExit) | L3 S"n" <headers> <list of items>
        → `ok L4 <exit> <assertFailed> <final stack> <list, per request, of the custom lines + UA line>`
          exit = N (the code ended normally) | I<kind> (that exception came out; 4 = pop_headers' AssertionError)
    cfgua <L3: default arg steps>      default : the process's default user agent; arg : the `user_agent` argument of
        `Config(...)` (any value); steps : list of S"copy" (`cfg = cfg.copy()`) | L2 S"store" <v> (`cfg.user_agent = v`)
        → `ok <value>` the `user_agent` attribute of a transport built from the resulting configuration
    hdrcfg <L7: contentType bodyLen default arg steps extra stack>
        → `ok <list of [name, value]>` the header lines of a request of such a transport (`err Unmodelled` when the
          user agent is not a string)
  `str(value)` is modelled for str, int, bool and None values; anything else answers `err Unmodelled`.
-/
import JRV.Driver.Codec
import JRV.Model.Headers

namespace JRV.Driver
open JRV JRV.Codec JRV.Headers

def pyStr? : PyVal → Option String
  | .str s => some s
  | .int i => some (toString i)
  | .bool true => some "True"
  | .bool false => some "False"
  | .none => some "None"
  | _ => Option.none

def strOfD (v : PyVal) : String := (pyStr? v).getD "?"

def hdict? : PyVal → Option HDict
  | .list items => items.mapM fun it =>
      match it with
      | .list [.str k, v] => if (pyStr? v).isSome then some (k, v) else Option.none
      | _ => Option.none
  | _ => Option.none

def hstack? : PyVal → Option (List HDict)
  | .list ds => ds.mapM hdict?
  | _ => Option.none

def showLines (ls : List (String × String)) : PyVal :=
  .list (ls.map fun kv => .list [.str kv.1, .str kv.2])

def showHDict (d : HDict) : PyVal := .list (d.map fun kv => .list [.str kv.1, kv.2])

def hdrC (toks : List String) : String :=
  match readVal toks with
  | some (.list [.str ct, .int len, .str ua, extra, stack], []) =>
    match hdict? extra, hstack? stack with
    | some e, some s => "ok " ++ showVal (showLines (sendContent strOfD ct len.toNat ua e s))
    | _, _ => "err Unmodelled N"
  | _ => "bad-op"

def cfgStep? : PyVal → Option CfgStep
  | .str "copy" => some .copy
  | .list [.str "store", v] => some (.store v)
  | _ => Option.none

def cfguaC (toks : List String) : String :=
  match readVal toks with
  | some (.list [dflt, arg, .list steps], []) =>
    match steps.mapM cfgStep? with
    | some st => "ok " ++ showVal (transportAgent (configAgent dflt arg st))
    | Option.none => "bad-op"
  | _ => "bad-op"

def hdrcfgC (toks : List String) : String :=
  match readVal toks with
  | some (.list [.str ct, .int len, .str dflt, arg, .list steps, extra, stack], []) =>
    match steps.mapM cfgStep?, hdict? extra, hstack? stack with
    | some st, some e, some s =>
      match sendContentCfg strOfD ct len.toNat (configAgent (.str dflt) arg st) e s with
      | some ls => "ok " ++ showVal (showLines ls)
      | Option.none => "err Unmodelled N"
    | Option.none, _, _ => "bad-op"
    | _, _, _ => "err Unmodelled N"
  | _ => "bad-op"

def showExit : Option ExcKind → PyVal
  | Option.none => .none
  | some .exception => .int 0
  | some .baseException => .int 1
  | some .generatorExit => .int 2
  | some .systemExit => .int 3
  | some .assertion => .int 4

mutual
  def block? (fuel : Nat) : PyVal → Option Block
    | .str "c" => some .call
    | .str "r0" => some (.raise .exception)
    | .str "r1" => some (.raise .baseException)
    | .str "r2" => some (.raise .generatorExit)
    | .str "r3" => some (.raise .systemExit)
    | .list [.str "n", h, .list body] =>
      match fuel with
      | 0 => Option.none
      | fuel + 1 => do
        let hd ← hdict? h
        let bs ← blocks? fuel body
        pure (.nest hd bs)
    | _ => Option.none
  def blocks? (fuel : Nat) : List PyVal → Option (List Block)
    | [] => some []
    | b :: rest => do
      let x ← block? fuel b
      let xs ← blocks? fuel rest
      pure (x :: xs)
end

def blocksC (toks : List String) : String :=
  match readVal toks with
  | some (.list [.str ua, base, .list tree], []) =>
    match hstack? base, blocks? (toks.length + 1) tree with
    | some b, some bs =>
      let r := runBody b bs
      let perCall := r.seen.map fun st => showLines ((sendContent strOfD "" 0 ua [] st).drop 2)
      "ok " ++ showVal (.list [showExit r.raised, .bool r.assertFailed, .list (r.stack.map showHDict), .list perCall])
    | _, _ => "err Unmodelled N"
  | _ => "bad-op"

def headersComponents : List (String × (List String → String)) := [
  ("hdr", hdrC), ("blocks", blocksC), ("cfgua", cfguaC), ("hdrcfg", hdrcfgC)
]

end JRV.Driver
