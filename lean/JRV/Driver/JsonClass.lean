/-
  Line-protocol components for JRV.Model.JsonClass.  Every argument is a value of the codec:

    jcdump <cfg> <classenv> <args> <value>
        cfg      = L3 <serialize_method:S> <ignore_attribute:S> L<n> (L2 <type tag:S> <handler id:I | N>)…
        args     = L3 <serialize_method:S|N> <ignore_attribute:S|N> <ignore:L…|N>
        output   = `ok <value>` | `err <Class> <arg>`
    jcload <classes> <world> <value>
        classes  = L<n> (L2 <name:S> <class id:S>)…          (Config.classes)
        world    = L2 <classenv> L<n> <module:S>…             (extra importable modules)
        output   = <result> | <effect log as a list> | <final state of the argument>
    rpcload <use_jsonclass:T|F> <classes> <world> <value>
        output   = <result> | <effect log as a list> | parsed|parseError

    classenv = L<n> <class>…   (children first)
    class    = L7 <id:S> <module:S> <name:S> L<n> <base id:S>… <own slots: L<n> S… | N> <kind> <class attrs: M…>
             | L8 … the same … <exception class raised by `entry == instance`:S>      (hostile `__eq__`)
    kind     = L2 Sbean M<n> <stored name:S> <value>… | L6 Sserial <method:S> <byDict:T|F> L<n> S… L<n> S… M<n> <base attr:S> <value>…
             | L2 Senum M<n> <member name:S> <value>… | L1 Sdecimal | L2 Sraising <exception class:S>

    cfgcopy <cfg>      (see `cfgcopyC`)

  Handler ids understood by the driver (the theorems hold for every interpretation; the harness registers
  Python functions with the same behaviour): 0 ↦ "H0"; 1 ↦ [type name, serialize_method, ignore_attribute,
  ignore]; 2 raises ValueError; 3 ↦ 7; 4 ↦ None; 5 ↦ []; 6 ↦ the tuple (type name, 0); 7 ↦ the object itself
  (not dumped again); 8 ↦ "".
-/
import JRV.Driver.Codec
import JRV.Model.JsonClass
import JRV.Model.JsonClassGate
import JRV.Model.ConfigCopy

namespace JRV.Driver
open JRV JRV.Codec JRV.JsonClass

def strs? : List PyVal → Option (List String)
  | [] => some []
  | .str s :: r => (strs? r).map (s :: ·)
  | _ => none

def strFields? : List (PyVal × PyVal) → Option (List (String × PyVal))
  | [] => some []
  | (.str s, v) :: r => (strFields? r).map ((s, v) :: ·)
  | _ => none

def kind? : PyVal → Option Kind
  | .list [.str "bean", .dict init] => (strFields? init).map Kind.bean
  | .list [.str "serial", .str m, .bool b, .list ps, .list as, .dict base] => do
    let ps ← strs? ps
    let as ← strs? as
    let base ← strFields? base
    pure (Kind.serial m b ps as base)
  | .list [.str "enum", .dict ms] => (strFields? ms).map Kind.enum
  | .list [.str "decimal"] => some Kind.decimal
  | .list [.str "raising", .str exc] => some (Kind.raising exc)
  | _ => none

def classDef? : PyVal → Option (String × ClassDef)
  | .list [.str cid, .str m, .str n, .list bases, slots, kind, .dict cattrs] => do
    let bases ← strs? bases
    let slots ← match slots with
      | .none => some Option.none
      | .list ss => (strs? ss).map some
      | _ => Option.none
    let kind ← kind? kind
    let cattrs ← strFields? cattrs
    pure (cid, { module := m, name := n, bases := bases, ownSlots := slots, kind := kind, classAttrs := cattrs })
  | .list [.str cid, .str m, .str n, .list bases, slots, kind, .dict cattrs, .str exc] => do
    -- 8th element: the exception class a comparison with an instance raises (hostile `__eq__`)
    let (_, d) ← classDef? (.list [.str cid, .str m, .str n, .list bases, slots, kind, .dict cattrs])
    pure (cid, { d with eqRaises := some exc })
  | _ => none

def classEnv? : List PyVal → Option ClassEnv
  | [] => some []
  | c :: r => do
    let d ← classDef? c
    let ds ← classEnv? r
    pure (d :: ds)

def handlers? : List PyVal → Option (List (String × Option Nat))
  | [] => some []
  | .list [.str t, .int i] :: r => if i < 0 then none else (handlers? r).map ((t, some i.toNat) :: ·)
  | .list [.str t, .none] :: r => (handlers? r).map ((t, Option.none) :: ·)
  | _ => none

def pairs? : List PyVal → Option (List (String × String))
  | [] => some []
  | .list [.str a, .str b] :: r => (pairs? r).map ((a, b) :: ·)
  | _ => none

def optStr? : PyVal → Option (Option String)
  | .none => some Option.none
  | .str s => some (some s)
  | _ => none

def driverH : Nat → HandlerFn
  | 0 => fun _ _ _ _ => pure (.str "H0")
  | 1 => fun v sm ia ig => pure (.list [.str v.typeName, .str sm, .str ia, .list ig])
  | 2 => fun _ _ _ _ => raise "ValueError"
  | 3 => fun _ _ _ _ => pure (.int 7)
  | 4 => fun _ _ _ _ => pure .none
  | 5 => fun _ _ _ _ => pure (.list [])
  | 6 => fun v _ _ _ => pure (.tuple [.str v.typeName, .int 0])
  | 7 => fun v _ _ _ => pure v
  | 8 => fun _ _ _ _ => pure (.str "")
  | _ => fun _ _ _ _ => raise "Unmodelled" (.str "handler id")

def jcdumpC (toks : List String) : String :=
  match readVals 4 toks with
  | some ([.list [.str sm, .str ia, .list hs], .list envv, .list [asm, aia, aig], v], []) =>
    match handlers? hs, classEnv? envv, optStr? asm, optStr? aia with
    | some hs, some env, some asm, some aia =>
      let ig? : Option (Option (List PyVal)) := match aig with
        | .none => some Option.none
        | .list xs => some (some xs)
        | _ => Option.none
      match ig? with
      | some ig =>
        let X : DumpCtx := { env := env, cfg := { serializeMethod := sm, ignoreAttribute := ia, handlers := hs }, H := driverH }
        showResult (dumpTop X asm aia ig v)
      | Option.none => "bad-op"
    | _, _, _, _ => "bad-op"
  | _ => "bad-op"

def showEffect : Effect → PyVal
  | .imp m => .list [.str "import", .str m]
  | .construct c a => .list [.str "construct", .str c, a]
  | .setattr c n => .list [.str "setattr", .str c, .str n]

def jcloadC (toks : List String) : String :=
  match readVals 3 toks with
  | some ([.list cls, .list [.list envv, .list mods], v], []) =>
    match pairs? cls, classEnv? envv, strs? mods with
    | some cls, some env, some mods =>
      let r := load { env := env, mods := mods } cls v
      showResult r.res ++ " | " ++ showVal (.list (r.log.map showEffect)) ++ " | " ++ showVal r.arg
    | _, _, _ => "bad-op"
  | _ => "bad-op"

/-- `rpcload <use_jsonclass:T|F> <classes> <world> <value>`: `jsonrpc.load` behind its gate;
    output = <result> | <effect log> | <what the server's try/except makes of it: parsed | parseError>. -/
def rpcloadC (toks : List String) : String :=
  match readVals 4 toks with
  | some ([.bool flag, .list cls, .list [.list envv, .list mods], v], []) =>
    match pairs? cls, classEnv? envv, strs? mods with
    | some cls, some env, some mods =>
      let cfg : Config := { useJsonclass := flag, classes := cls }
      let W : World := { env := env, mods := mods }
      let r := rpcLoad cfg W v
      let po := match (serverParse cfg W (some v)).1 with
        | .parsed _ => "parsed"
        | .parseError => "parseError"
      showResult r.res ++ " | " ++ showVal (.list (r.log.map showEffect)) ++ " | " ++ po
    | _, _, _ => "bad-op"
  | _ => "bad-op"

def showHandlers (hs : List (String × Option Nat)) : PyVal :=
  .list (hs.map fun (t, h) => .list [.str t, match h with | some i => .int i | Option.none => .none])

def showCfg (c : ConfigCopy.Cfg) : PyVal :=
  .list [c.version, c.contentType, c.userAgent, c.useJsonclass, c.serializeMethod, c.ignoreAttribute,
         .list (c.classes.map fun (a, b) => .list [.str a, .str b]), showHandlers c.handlers]

/-- `cfgcopy <cfg>`, cfg = L8 <version> <content_type> <user_agent> <use_jsonclass> <serialize_method>
    <ignore_attribute> <classes: L (L2 S S)…> <handlers: L (L2 S I|N)…>: the attributes of a `Config` object as a
    program left them.  Output: `<attributes of cfg.copy()> | <attributes of the 1.0-compatibility configuration>`,
    both in the same L8 form (the default user agent is the string `ConfigCopy.defaultUserAgent`). -/
def cfgcopyC (toks : List String) : String :=
  match readVals 1 toks with
  | some ([.list [ver, ct, ua, uj, sm, ia, .list cls, .list hs]], []) =>
    match pairs? cls, handlers? hs with
    | some cls, some hs =>
      let c : ConfigCopy.Cfg := { version := ver, useJsonclass := uj, contentType := ct, userAgent := ua, classes := cls,
                                  serializeMethod := sm, ignoreAttribute := ia, handlers := hs }
      showVal (showCfg (ConfigCopy.copy c)) ++ " | " ++ showVal (showCfg (ConfigCopy.compat c))
    | _, _ => "bad-op"
  | _ => "bad-op"

def jsonClassComponents : List (String × (List String → String)) := [
  ("jcdump", jcdumpC), ("jcload", jcloadC), ("rpcload", rpcloadC), ("cfgcopy", cfgcopyC)
]

end JRV.Driver
