/-
  Further line-protocol components of the jsonclass cluster (C07 / C20):

    jcregistry <table> <ops>
        table  = L<n> (L2 <name:S> <class id:S>)…                       the class table before the program
        ops    = L<n> op…,  op = L4 Sadd <class id:S> <cls.__name__:S> <name:S|N>
                               | L3 Sset <key:S> <class id:S> | L2 Sdel <key:S> | L1 Sclear
        output = the table after the program (`LocalClasses.run`), in dict order, same form as <table>
    jctables
        output = L3 <iterableTypeNames> <primitiveTypeNames> <supportedTypeNames>   (lists of S) — the type
                 tables the models `isIterable`, `isPrimitive`, `isKnown` encode, for the run-time comparison with
                 `utils.ITERABLE_TYPES`, `utils.PRIMITIVE_TYPES`, `jsonclass.SUPPORTED_TYPES` of the code under test
    jccanondec <literal:S>
        output = T | F    (`canonDecimal`: is the literal a fixed point of `str(Decimal(·))`?)
-/
import JRV.Driver.Codec
import JRV.Driver.JsonClass
import JRV.Model.JsonClass
import JRV.Model.LocalClasses

namespace JRV.Driver
open JRV JRV.Codec JRV.JsonClass

def regOp? : PyVal → Option LocalClasses.Op
  | .list [.str "add", .str c, .str cn, .str n] => some (.add c cn (some n))
  | .list [.str "add", .str c, .str cn, .none] => some (.add c cn Option.none)
  | .list [.str "set", .str k, .str c] => some (.set k c)
  | .list [.str "del", .str k] => some (.del k)
  | .list [.str "clear"] => some .clear
  | _ => Option.none

def regOps? : List PyVal → Option (List LocalClasses.Op)
  | [] => some []
  | x :: r => do
    let o ← regOp? x
    let os ← regOps? r
    pure (o :: os)

def jcregistryC (toks : List String) : String :=
  match readVals 2 toks with
  | some ([.list tab, .list ops], []) =>
    match pairs? tab, regOps? ops with
    | some tab, some ops =>
      showVal (.list ((LocalClasses.run tab ops).map fun (a, b) => .list [.str a, .str b]))
    | _, _ => "bad-op"
  | _ => "bad-op"

def jctablesC (toks : List String) : String :=
  match toks with
  | [] => showVal (.list [.list (iterableTypeNames.map .str), .list (primitiveTypeNames.map .str),
                          .list (supportedTypeNames.map .str)])
  | _ => "bad-op"

def jccanondecC (toks : List String) : String :=
  match readVals 1 toks with
  | some ([.str s], []) => showVal (.bool (canonDecimal s))
  | _ => "bad-op"

def jsonClassExtComponents : List (String × (List String → String)) := [
  ("jcregistry", jcregistryC), ("jctables", jctablesC), ("jccanondec", jccanondecC)
]

end JRV.Driver
