/-
  Line-protocol component for JRV.Model.JsonString:

    jsonstring S<hex utf-8 of the body of a string literal>     `ok S<hex utf-8 of the string it denotes>` | `none`
-/
import JRV.Driver.Codec
import JRV.Model.JsonString

namespace JRV.Driver
open JRV JRV.Codec JRV.JsonString

def jsonStringC (toks : List String) : String :=
  match toks with
  | [t] =>
    match t.toList with
    | 'S' :: ds =>
      match unhex? (String.ofList ds) with
      | some s =>
        match decode s.toList with
        | some cs => "ok " ++ showVal (.str (String.ofList cs))
        | Option.none => "none"
      | Option.none => "bad-op"
    | _ => "bad-op"
  | _ => "bad-op"

def jsonStringComponents : List (String × (List String → String)) := [("jsonstring", jsonStringC)]

end JRV.Driver
