/-
  Line-protocol component for JRV.Model.JsonText:

    jsontext S<hex utf-8 of the body>     the verdict of the text layer: wellformed / malformed
-/
import JRV.Driver.Codec
import JRV.Model.JsonText

namespace JRV.Driver
open JRV JRV.Codec JRV.JsonText

def jsonTextC (toks : List String) : String :=
  match toks with
  | [t] =>
    match t.toList with
    | 'S' :: ds =>
      match unhex? (String.ofList ds) with
      | some s =>
        match verdict s.toList with
        | .wellFormed => "wellformed"
        | .malformed => "malformed"
      | none => "bad-op"
    | _ => "bad-op"
  | _ => "bad-op"

def jsonTextComponents : List (String × (List String → String)) := [("jsontext", jsonTextC)]

end JRV.Driver
