/-
  Line-protocol components for JRV.Model.Payload:
    pdump <L9: cfgVersion useJsonclass paramsKind params methodname rpcid version isResponse isNotify>
        paramsKind = S"V" (params is the value) | S"F" (params = [code, message, data] of a Fault)
        version    = N | I<tenths> | S<tenths as decimal digits>
      → `ok <dict>` / `err <Class> …`; generated ids print as the string "FRESH";
        `jsonclass.dump` on plain data is JSON normalisation.
    fdump <L5: cfgVersion code message rpcid data>   Fault(code, message, rpcid, config, data).dump()
    fdumpw <L7: cfgVersion code message rpcid data forcedId version>   Fault(...).dump(rpcid=forcedId, version=version), then .dump()
-/
import JRV.Driver.Codec
import JRV.Model.Payload

namespace JRV.Driver
open JRV JRV.Codec JRV.Payload

def verArg? : PyVal → Option VerArg
  | .none => some .none
  | .int i => if i ≥ 0 then some (.num i.toNat) else Option.none
  | .str s => s.toNat?.map .str
  | _ => Option.none

def pdumpC (toks : List String) : String :=
  match readVal toks with
  | some (.list [.int cv, .bool ujc, .str kind, params, methodname, rpcid, version, .bool isResp, .bool isNotify], []) =>
    match verArg? version with
    | some va =>
      let cfg : Config := { version := cv.toNat, useJsonclass := ujc }
      let ps? : Option Params :=
        if kind == "V" then some (.val params)
        else match params with
          | .list [c, m, d] => some (.fault c m d)
          | _ => Option.none
      match ps? with
      | some ps => showResult (dump cfg (fun v => pure v.normalise) "FRESH" ps methodname rpcid va isResp isNotify)
      | Option.none => "bad-op"
    | Option.none => "bad-op"
  | _ => "bad-op"

def fdumpC (toks : List String) : String :=
  match readVal toks with
  | some (.list [.int cv, code, message, rpcid, data], []) =>
    let cfg : Config := { version := cv.toNat }
    "ok " ++ showVal (faultDump cfg { code := code, message := message, rpcid := rpcid, data := data })
  | _ => "bad-op"

/-- `fdumpw <L7: cfgVersion code message rpcid data forcedId version>`:
    `f = Fault(code, message, rpcid, config, data); f.dump(rpcid=forcedId, version=version)` then `f.dump()`
    → `ok <first dict> | ok <second dict>` -/
def fdumpwC (toks : List String) : String :=
  match readVal toks with
  | some (.list [.int cv, code, message, rpcid, data, forced, version], []) =>
    match verArg? version with
    | some va =>
      let cfg : Config := { version := cv.toNat }
      let (d, f') := faultDumpWith cfg { code := code, message := message, rpcid := rpcid, data := data } forced va
      "ok " ++ showVal d ++ " | ok " ++ showVal (faultDump cfg f')
    | Option.none => "bad-op"
  | _ => "bad-op"

def payloadComponents : List (String × (List String → String)) := [
  ("pdump", pdumpC), ("fdump", fdumpC), ("fdumpw", fdumpwC)
]

end JRV.Driver
