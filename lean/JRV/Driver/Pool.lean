/-
  Line-protocol components for JRV.Model.Pool:

    pool <max> <min> <qbound> <nclients> <flags> <action>*
        flags  = bit 0: singleCtl, bit 1: startMayFail (Thread.start() may raise), bit 2: timeoutNone (timeout=None)
        action = <role>:<label>[:<branch>]   (see harness/poolcommon.py for the alphabet; branch `timeout`, or
                 `startfail` on the `event.is_set` of `__start_thread`: the flag is clear and Thread.start() raises)
        answer = projections after every action, separated by " | "; an action that the model says is
        disabled answers "DISABLED" at that position and stops; an unreadable token answers "bad-op".
    poolctor <arg> <arg> <arg>      arg = i<int> | f<trunc int> | finf | f-inf | fnan | s<int> | sx (string int() rejects) | n | o
        answer = "ok <max> <min> <qbound>" | "err ValueError"
-/
import JRV.Model.Pool

namespace JRV.Driver
open JRV.Pool

def showTid : Tid → String
  | .client i => "c" ++ toString i
  | .worker i => "w" ++ toString i

def showItem : Item → String
  | .task t => toString t
  | .sentinel => "S"

def showPhase : Phase → String
  | .created => "c" | .queued => "q" | .held => "h" | .running => "r" | .finished => "f" | .dropped => "d"

def showTask (t : Task) : String :=
  showPhase t.phase ++ (if t.futDone then (match t.futVal with | some .exc => "e" | _ => "o") else "-")

def wpcLabel : WPc → String
  | .loopHead => "event.is_set" | .get => "queue.get" | .sentDone => "queue.task_done"
  | .actAcq => "lock.acquire" | .actRel => "lock.release" | .begin => "task.begin" | .body => "task.end"
  | .futSet => "fut.set" | .taskDone => "queue.task_done" | .finAcq => "lock.acquire" | .finRel => "lock.release"
  | .retAcq => "lock.acquire" | .retRel => "lock.release" | .retRelExit => "lock.release"
  | .exitAcq => "lock.acquire" | .exitRel => "lock.release" | .dead => "end"

def cpcLabel : CPc → String
  | .idle => "call"
  | .startIsSet => "event.is_set" | .startClear => "event.clear" | .startQsize => "queue.qsize"
  | .stAcq _ => "lock.acquire" | .stIsSet _ => "event.is_set" | .stRel _ => "lock.release"
  | .enqAcq _ => "lock.acquire" | .enqPut _ => "queue.put" | .enqStAcq => "lock.acquire"
  | .enqStIsSet => "event.is_set" | .enqStRel => "lock.release" | .enqRel => "lock.release" | .enqRelFail => "lock.release"
  | .stopIsSet => "event.is_set" | .stopSet => "event.set" | .stopAcq => "lock.acquire" | .stopPut _ => "queue.put"
  | .stopRel _ => "lock.release" | .stopAlive _ => "thread.is_alive" | .stopJoin _ => "thread.join"
  | .stopAlive2 _ => "thread.is_alive"
  | .clrAcq => "lock.acquire" | .clrGet => "queue.get_nowait" | .clrDone _ => "queue.task_done"
  | .clrJoin => "queue.join" | .clrRel => "lock.release"
  | .joinQ => "queue.join" | .jtAcq => "cond.acquire" | .jtWait _ => "cond.wait" | .futWait _ => "fut.wait"
  | .futPoll _ => "fut.is_set"

def showRet : Ret → String
  | .none => "-" | .unit => "N" | .bool true => "T" | .bool false => "F" | .fut => "fut" | .full => "Full"
  | .ok => "ok" | .exc => "exc" | .timeout => "to"

def commaSep (xs : List String) : String := ",".intercalate xs

def indexed (pre : String) (xs : List String) : List String :=
  (List.range xs.length).zip xs |>.map fun (i, x) => pre ++ toString i ++ ":" ++ x

def projection (s : State) : String :=
  "f=" ++ (if s.stop then "1" else "0")
  ++ " lk=" ++ (match s.lockOwner with | some t => showTid t | none => "-") ++ "/" ++ toString s.lockDepth
  ++ " q=[" ++ commaSep (s.queue.map showItem) ++ "]"
  ++ " u=" ++ toString s.unfinished
  ++ " nt=" ++ toString s.nbThreads ++ " na=" ++ toString s.nbActive ++ " np=" ++ toString s.nbPending
  ++ " th=[" ++ commaSep (s.threads.map fun i => "w" ++ toString i) ++ "]"
  ++ " tk=[" ++ commaSep (s.tasks.map showTask) ++ "]"
  ++ " ops=[" ++ commaSep (indexed "c" (s.clients.map fun c => cpcLabel c.pc) ++ indexed "w" (s.workers.map fun w => wpcLabel w.pc)) ++ "]"
  ++ " ret=[" ++ commaSep (indexed "c" (s.clients.map fun c => showRet c.ret)) ++ "]"

def parseTid? (s : String) : Option Tid :=
  match s.toList with
  | 'c' :: rest => (String.ofList rest).toNat?.map Tid.client
  | 'w' :: rest => (String.ofList rest).toNat?.map Tid.worker
  | _ => none

def parseOp? (label : String) (extra : List String) : Option (Op × Bool) :=
  let plain (o : Op) : Option (Op × Bool) :=
    match extra with
    | [] => some (o, false)
    | ["timeout"] => if o = .eventIsSet then none else some (o, true)
    | ["startfail"] => if o = .eventIsSet then some (o, true) else none
    | _ => none
  match label with
  | "call.start" => plain .callStart
  | "call.stop" => plain .callStop
  | "call.clear" => plain .callClear
  | "call.join" => plain .callJoin
  | "call.join_t" => plain .callJoinT
  | "call.enqueue" => plain .callEnqueue
  | "call.wait" => match extra with
    | [t] => t.toNat?.map fun n => (Op.callWait n, false)
    | _ => none
  | "call.done" => match extra with
    | [t] => t.toNat?.map fun n => (Op.callDone n, false)
    | _ => none
  | "fut.is_set" => match extra with
    | [] => some (.futIsSet, false)
    | _ => none
  | "event.is_set" => plain .eventIsSet
  | "event.set" => plain .eventSet
  | "event.clear" => plain .eventClear
  | "lock.acquire" => plain .lockAcquire
  | "lock.release" => plain .lockRelease
  | "queue.qsize" => plain .queueQsize
  | "queue.put" => plain .queuePut
  | "queue.get" => plain .queueGet
  | "queue.get_nowait" => plain .queueGetNowait
  | "queue.task_done" => plain .queueTaskDone
  | "queue.join" => plain .queueJoin
  | "thread.is_alive" => plain .threadIsAlive
  | "thread.join" => plain .threadJoin
  | "cond.acquire" => plain .condAcquire
  | "cond.wait" => plain .condWait
  | "fut.wait" => plain .futWait
  | "fut.set" => plain .futSet
  | "task.begin" => plain .taskBegin
  | "task.end" => match extra with
    | ["ok"] => some (.taskEnd .ok, false)
    | ["exc"] => some (.taskEnd .exc, false)
    | _ => none
  | _ => none

def parseAction? (tok : String) : Option Action :=
  match tok.splitOn ":" with
  | who :: label :: extra => do
    let t ← parseTid? who
    let (op, tmo) ← parseOp? label extra
    some { who := t, op := op, timeout := tmo }
  | _ => none

def runShow (s : State) : List String → List String
  | [] => []
  | tok :: rest =>
    match parseAction? tok with
    | none => ["bad-op"]
    | some a =>
      match step? s a with
      | none => ["DISABLED"]
      | some s' => projection s' :: runShow s' rest

def poolC (toks : List String) : String :=
  match toks with
  | mx :: mn :: qb :: nc :: sc :: acts =>
    match mx.toNat?, mn.toNat?, qb.toNat?, nc.toNat?, sc.toNat? with
    | some mx, some mn, some qb, some nc, some sc =>
      let cfg : Config := { max := mx, min := mn, qbound := qb, singleCtl := sc % 2 != 0,
                            startMayFail := sc / 2 % 2 != 0, timeoutNone := sc / 4 % 2 != 0 }
      " | ".intercalate (runShow (init cfg nc) acts)
    | _, _, _, _, _ => "bad-op"
  | _ => "bad-op"

def parseArg? (s : String) : Option Arg :=
  match s.toList with
  | ['n'] => some .none
  | ['o'] => some .other
  | ['s', 'x'] => some (.str none)
  | ['f', 'i', 'n', 'f'] => some (.floatInf false)
  | ['f', '-', 'i', 'n', 'f'] => some (.floatInf true)
  | ['f', 'n', 'a', 'n'] => some .floatNan
  | 'i' :: rest => (String.ofList rest).toInt?.map Arg.int
  | 'f' :: rest => (String.ofList rest).toInt?.map Arg.float
  | 's' :: rest => (String.ofList rest).toInt?.map fun i => Arg.str (some i)
  | _ => none

def poolCtorC (toks : List String) : String :=
  match toks.map parseArg? with
  | [some a, some b, some c] =>
    match mkPool? a b c with
    | .ok cfg => "ok " ++ toString cfg.max ++ " " ++ toString cfg.min ++ " " ++ toString cfg.qbound
    | .error e => "err " ++ e
  | _ => "bad-op"

def poolComponents : List (String × (List String → String)) := [
  ("pool", poolC), ("poolctor", poolCtorC)
]

end JRV.Driver
