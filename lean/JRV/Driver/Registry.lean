/-
  JRV.Driver.Registry — table of line-protocol components.  A component maps one input line
  (already split into tokens, first token = component-specific operation) to one output line.
  Stateful components (pool, future, ...) take the whole line as an action list and print one
  projection line; nothing here keeps state between lines.
-/
import JRV.Driver.Codec

namespace JRV.Driver
open JRV JRV.Codec

/-- `echo <value>`: parse and re-print (codec self-test, used by the harness on every run). -/
def echo (toks : List String) : String :=
  match readVal toks with
  | some (v, []) => "ok " ++ showVal v
  | _ => "bad-op"

/-- `norm <value>`: JSON normalisation. -/
def norm (toks : List String) : String :=
  match readVal toks with
  | some (v, []) => "ok " ++ showVal v.normalise
  | _ => "bad-op"

/-- `truthy <value>` / `pyeq <a> <b>`: Python primitives, differentially tested against CPython. -/
def truthyC (toks : List String) : String :=
  match readVal toks with
  | some (v, []) => if v.truthy then "T" else "F"
  | _ => "bad-op"

def pyeqC (toks : List String) : String :=
  match readVals 2 toks with
  | some ([a, b], []) => if PyVal.pyEq a b then "T" else "F"
  | _ => "bad-op"

def cmpIntC (toks : List String) : String :=
  match readVals 2 toks with
  | some ([a, .int n], []) =>
    match a.cmpInt? n with
    | some .lt => "lt" | some .eq => "eq" | some .gt => "gt" | none => "TypeError"
  | _ => "bad-op"

end JRV.Driver
