/-
  Line-protocol components for JRV.Model.Callable / JRV.Model.Server:

    srv <cfg> <registry> <pool> <parse-outcome>   _marshaled_dispatch: reply + effect log
    bind <sig> <params>                           Python argument binding: T / F
    resolve <attrs> <name>                        resolve_dotted_attribute: callable / value / none

  Encodings (all inside PyVal tokens, harness/servercases.py writes them):
    cfg       L2 I<version in tenths> <use_jsonclass: T|F>
    sig       L4 L<n> S<name>.. I<ndefaults> <*args: T|F> <**kwargs: T|F>
    beh       L2 S"ret" <v>  |  L1 S"echo" (returns params)
              |  L6 S"raise" S<cls> S<text> <isTypeError> <isAttributeError> I<depth>   (depth: see CallOutcome.raised)
              |  L5 S"raise" S<cls> S<text> <isTypeError> <isAttributeError>            (= depth 2: raised by a helper
                     called from the function's own frame, which is what the generated defs of harness/props/c01.py do)
              |  L4 S"raisebase" S<cls> S<text> I<depth>   an exception that is NOT an instance of `Exception`
                     (SystemExit, KeyboardInterrupt, GeneratorExit, a direct subclass of BaseException):
                     `CallOutcome.raisedBase`
              |  L3 S"ptable" L<n> (L2 <params> <beh>).. <default beh>   (behaviour by the `params` value: opaque
                     callables — builtins, partials, callable objects, decorated functions — whose outcome on each
                     argument value was observed on a twin by Python itself)
    callable  L2 <sig> <beh>
    attr      L2 <callable|N> L<n> (L2 S<name> <attr>)..   |   S"none" (an attribute bound to None)
    dispfn    <beh>  |  L3 S"table" M<n> S<method> <beh> .. <default beh>
    registry  M3 S"funcs" L<n> (L2 S<name> <callable>).. S"inst" (N | M2 S"dispatch" (N|<dispfn>) S"attrs" L<n> (L2 S<name> <attr>)..)
                 S"custom" (N|<dispfn>)
    pool      N (absent) | T (accepting) | F (full)
    parse-outcome   E   |   P <value>   |   Z  (the body is empty: `marshaledDispatchBody s true _`)
  Output: `ok U2 <reply> <effects>` with reply `U0` (empty body) or `U1 <document>`, effects
    `L<n>` of `U4 S"call" S<target> <method> <params>` / `U5 S"enqueue" <custom> <method> <params> I<ver>`;
    or `err <Class> <arg>`.
  The result converter (`jsonclass.dump`) of the driver handles JSON-like values (tuples become
  lists) and instances of the harness class `RaisingSerialize` (its `_serialize` raises ValueError);
  other instances and sets are declined (`Unmodelled`).
-/
import JRV.Driver.Codec
import JRV.Model.Server

namespace JRV.Driver
open JRV JRV.Codec JRV.Callable JRV.Server

def simpleBehOf : PyVal → Option (PyVal → CallOutcome)
  | .list [.str "ret", v] => some fun _ => .ret v
  | .list [.str "echo"] => some fun p => .ret p
  | .list [.str "raise", .str c, .str m, .bool te, .bool ae, .int d] =>
    if d < 0 then none else some fun _ => .raised c m te ae d.toNat
  | .list [.str "raise", .str c, .str m, .bool te, .bool ae] => some fun _ => .raised c m te ae 2
  | .list [.str "raisebase", .str c, .str m, .int d] =>
    if d < 0 then none else some fun _ => .raisedBase c m d.toNat
  | _ => none

def behOf : PyVal → Option (PyVal → CallOutcome)
  | .list [.str "ptable", .list rows, dflt] => do
    let d ← simpleBehOf dflt
    let entries ← rows.mapM fun row =>
      match row with
      | .list [p, b] => (simpleBehOf b).map fun f => (p, f)
      | _ => none
    some fun params =>
      match entries.find? (fun e => e.1 == params) with
      | some (_, f) => f params
      | none => d params
  | b => simpleBehOf b

def dispFnOf : PyVal → Option DispatchFn
  | .list [.str "table", .dict tbl, dflt] => do
    let d ← behOf dflt
    let entries ← tbl.mapM fun (k, b) =>
      match k with
      | .str m => (behOf b).map fun f => (m, f)
      | _ => none
    some fun method params =>
      match method with
      | .str m =>
        match entries.lookup m with
        | some f => f params
        | none => d params
      | _ => d params
  | b => (behOf b).map fun f => fun _ p => f p

def namesOf : List PyVal → Option (List String)
  | [] => some []
  | .str s :: rest => (namesOf rest).map (s :: ·)
  | _ => none

def sigOf : PyVal → Option Sig
  | .list [.list names, .int nd, .bool star, .bool kw] => do
    let ns ← namesOf names
    if nd < 0 then none else some { names := ns, ndefaults := nd.toNat, star := star, kw := kw }
  | _ => none

def callableOf : PyVal → Option Callable
  | .list [sg, b] => do
    let s ← sigOf sg
    let f ← behOf b
    some { sig := s, body := f }
  | _ => none

def attrOf : Nat → PyVal → Option Attr
  | 0, _ => none
  | _ + 1, .str "none" => some .noneValue
  | fuel + 1, .list [c, .list chs] => do
    let callable ← match c with
      | .none => some none
      | v => (callableOf v).map some
    let children ← chs.mapM fun ch =>
      match ch with
      | .list [.str n, a] => (attrOf fuel a).map fun x => (n, x)
      | _ => none
    some (.node callable children)
  | _, _ => none

def attrsOf (chs : List PyVal) : Option (List (String × Attr)) :=
  chs.mapM fun ch =>
    match ch with
    | .list [.str n, a] => (attrOf 64 a).map fun x => (n, x)
    | _ => none

def optDispFn : PyVal → Option (Option DispatchFn)
  | .none => some none
  | v => (dispFnOf v).map some

def instanceOf : PyVal → Option (Option Instance)
  | .none => some none
  | .dict kvs => do
    let d ← PyVal.lookupStr "dispatch" kvs
    let a ← PyVal.lookupStr "attrs" kvs
    let disp ← optDispFn d
    match a with
    | .list chs => do
      let attrs ← attrsOf chs
      some (some { dispatch := disp, attrs := attrs })
    | _ => none
  | _ => none

def funcsOf (fs : List PyVal) : Option (List (String × Callable)) :=
  fs.mapM fun f =>
    match f with
    | .list [.str n, c] => (callableOf c).map fun x => (n, x)
    | _ => none

def registryOf : PyVal → Option (Registry × Option DispatchFn)
  | .dict kvs => do
    let f ← PyVal.lookupStr "funcs" kvs
    let i ← PyVal.lookupStr "inst" kvs
    let c ← PyVal.lookupStr "custom" kvs
    match f with
    | .list fs => do
      let funcs ← funcsOf fs
      let inst ← instanceOf i
      let custom ← optDispFn c
      some ({ funcs := funcs, inst := inst }, custom)
    | _ => none
  | _ => none

def cfgOf : PyVal → Option Config
  | .list [.int v, .bool uj] => if v < 0 then none else some { version := v.toNat, useJsonclass := uj }
  | _ => none

def poolOf : PyVal → Option Pool
  | .none => some .absent
  | .bool true => some .accepting
  | .bool false => some .full
  | _ => none

mutual
  /-- `jsonclass.dump` on the values the harness callables return. -/
  def stdConv : PyVal → PyM PyVal
    | .list xs => do pure (.list (← stdConvList xs))
    | .tuple xs => do pure (.list (← stdConvList xs))
    | .dict kvs => do pure (.dict (← stdConvKVs kvs))
    | .set _ => raise "Unmodelled" (.str "iteration order of a set")
    | .frozenset _ => raise "Unmodelled" (.str "iteration order of a set")
    | .obj c _ =>
      if c == "RaisingSerialize" then raise "ValueError" (.str "cannot serialize")
      else raise "Unmodelled" (.str "jsonclass.dump of an instance")
    | v => pure v
  def stdConvList : List PyVal → PyM (List PyVal)
    | [] => pure []
    | x :: xs => do
      let y ← stdConv x
      let ys ← stdConvList xs
      pure (y :: ys)
  def stdConvKVs : List (PyVal × PyVal) → PyM (List (PyVal × PyVal))
    | [] => pure []
    | (k, v) :: rest => do
      let w ← stdConv v
      let r ← stdConvKVs rest
      pure ((k, w) :: r)
end

def targetName : Target → String
  | .func => "func" | .attr => "attr" | .instDispatch => "instDispatch" | .custom => "custom"

def effectVal : Effect → PyVal
  | .call t m p => .tuple [.str "call", .str (targetName t), m, p]
  | .enqueue c m p v => .tuple [.str "enqueue", .bool c, m, p, .int v]

def replyVal : Reply → PyVal
  | .empty => .tuple []
  | .doc v => .tuple [v]

def srvC (toks : List String) : String :=
  match readVals 3 toks with
  | some ([c, r, p], rest) =>
    match cfgOf c, registryOf r, poolOf p with
    | some cfg, some (reg, custom), some pool =>
      let po : Option ParseOutcome :=
        match rest with
        | ["E"] => some .parseError
        -- the empty body: `not data` holds, `loads` is not reached (it would return `None`)
        | ["Z"] => some (.parsed .none)
        | "P" :: vt =>
          match readVal vt with
          | some (v, []) => some (.parsed v)
          | _ => none
        | _ => none
      match po with
      | some po =>
        let s : Server := { cfg := cfg, reg := reg, custom := custom, pool := pool, conv := stdConv }
        let (r, eff) := marshaledDispatchBody s (rest == ["Z"]) po
        match r with
        | .ok reply => "ok " ++ showVal (.tuple [replyVal reply, .list (eff.map effectVal)])
        | .error e => "err " ++ e.cls ++ " " ++ showVal e.arg
      | none => "bad-op"
    | _, _, _ => "bad-op"
  | _ => "bad-op"

def bindC (toks : List String) : String :=
  match readVals 2 toks with
  | some ([sg, params], []) =>
    match sigOf sg with
    | some s => if binds s params then "T" else "F"
    | none => "bad-op"
  | _ => "bad-op"

def resolveC (toks : List String) : String :=
  match readVals 2 toks with
  | some ([.list chs, .str name], []) =>
    match attrsOf chs with
    | some attrs =>
      match resolveDotted { attrs := attrs } name with
      | some a => if a.callable.isSome then "callable" else "value"
      | none => "none"
    | none => "bad-op"
  | _ => "bad-op"

def serverComponents : List (String × (List String → String)) := [
  ("srv", srvC), ("bind", bindC), ("resolve", resolveC)
]

end JRV.Driver
