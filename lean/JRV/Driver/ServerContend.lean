/-
  Line-protocol component for JRV.Model.ServerContend:
    worldseq <plain|pooled> <bound|unbound> <op>*
      the operations of `lifeseq` (JRV.Driver.ServerLife) on server A — executed on `World.a` by the same
      deterministic scheduler, every step checked against `stepW` (a connection is accepted only when the address
      names A's listening socket: `unreachable` otherwise) — plus
        contend      a second server of the same kind is constructed on A's address; its constructor runs to its end
                     → `refused:<sockB>:<poolB>` (bind failed; B's socket open|closed, B's pool none|running|stopped),
                       or `illegal` when the address is not busy (B would bind: not described)
        rmfile       the environment removes the socket file → `ok`
      → `<op result>* ; <final projection of lifeseq> addr=<A|nobody>`
-/
import JRV.Driver.ServerLife
import JRV.Model.ServerContend

namespace JRV.Driver
open JRV.SL

/-- Does the high-level operation accept a new connection? -/
def opAccepts (op : String) : Bool :=
  ["req", "notif", "fail", "fatal", "bad", "slow", "idle", "queued"].any fun p => p.isPrefixOf op

/-- Run B's constructor to its end. -/
def contendOp (cfg : Cfg) (w : World) : Option World :=
  runW cfg lifeF w ([.bConstruct cfg.plain, .bStep] ++ (if cfg.plain then [] else [.bStep]))

def worldOp (cfg : Cfg) (w : World) (op : String) : World × String :=
  if op == "contend" then
    match contendOp cfg w with
    | some w' => (w', "refused:" ++ (if w'.bSocketOpen then "open" else "closed") ++ ":" ++
                      (if cfg.plain then "none" else if w'.bPoolStopped then "stopped" else "running"))
    | none => (w, "illegal")
  else if op == "rmfile" then
    match stepW cfg lifeF w .envUnlink with
    | some w' => (w', "ok")
    | none => (w, "illegal")
  else if opAccepts op && !addrNamesA w then (w, "unreachable")
  else
    -- A's operation: by `C12_stop_independent_of_address` / the guard above, the steps `lifeOp` makes on `w.a` are
    -- steps of `stepW`
    let (a', r) := lifeOp cfg w.a op
    ({ w with a := a' }, r)

def worldseqC (toks : List String) : String :=
  match toks with
  | mode :: b :: ops =>
    if (mode != "plain" && mode != "pooled") || (b != "bound" && b != "unbound") then "bad-op" else
    let cfg : Cfg := { plain := mode == "plain" }
    let (w, outs) := ops.foldl (fun (acc : World × List String) op =>
      let (w', r) := worldOp cfg acc.1 op
      (w', acc.2 ++ [r])) (initW (b == "bound"), [])
    let s := w.a
    " ".intercalate outs ++ " ; sock=" ++ (if s.socketOpen then "open" else "closed") ++
      " pool=" ++ (if cfg.plain then "none" else if s.poolStopped then "stopped" else "running") ++
      " close=" ++ (if s.cpc = .returned then "returned" else if s.cpc = .idle then "idle" else "pending") ++
      " shut=" ++ (if s.dpc = .returned then "returned" else if s.dpc = .idle then "idle" else "pending") ++
      " replies=" ++ ",".intercalate (s.conns.map fun c => showReply c.reply) ++
      " execs=" ++ ",".intercalate (s.conns.map fun c => toString c.execs) ++
      " addr=" ++ (if addrNamesA w then "A" else "nobody")
  | _ => "bad-op"

def serverContendComponents : List (String × (List String → String)) := [("worldseq", worldseqC)]

end JRV.Driver
