/-
  Line-protocol component for JRV.Model.ServerLife:
    lifeseq <op>*     high-level life-cycle operations executed by a deterministic fair scheduler over the LTS:
        serve        a thread calls serve_forever() and reaches the loop
        req<b>       a request with body b is accepted, handled and answered
        slow<b>      a request with body b is accepted and its handler starts (stays in flight)
        finish<i>    the in-flight handler of connection i finishes
        shutdown     a thread calls shutdown() and waits for it to return
        close        a thread calls server_close() and waits for it to return
      a blocked operation lets the serving thread run; if it is still blocked when the serving thread cannot
      advance it is reported as `blocked` and left pending (a later `finish` may unblock it: pending operations
      are resumed after every operation).
      → `<op result>*  ; sock=<open|closed> pool=<running|stopped> replies=<r0,r1,..>` (reply = body + 1000, `-` if none)
-/
import JRV.Driver.Codec
import JRV.Model.ServerLife

namespace JRV.Driver
open JRV.SL

def lifeF (b : Nat) : Nat := b + 1000

/-- Let the serving thread run while `blocked s` holds, at most `fuel` steps; `none` = stuck. -/
def serveUntil (blocked : State → Bool) : Nat → State → State
  | 0, s => s
  | fuel + 1, s =>
    if !blocked s then s
    else match s.spc with
      | .loop => if s.shutdownReq then
            match step? lifeF s .serveStep with
            | some s' => serveUntil blocked fuel s'
            | none => s
          else s          -- the loop would spin: nothing changes
      | _ => match step? lifeF s .serveStep with
        | some s' => serveUntil blocked fuel s'
        | none => s

/-- Advance the closing thread as far as possible (letting the serving thread run when it waits). -/
def advanceClose : Nat → State → State
  | 0, s => s
  | fuel + 1, s =>
    match s.cpc with
    | .idle => s
    | .returned => s
    | _ =>
      match step? lifeF s .closeStep with
      | some s' => advanceClose fuel s'
      | none =>
        let s1 := serveUntil (fun t => (step? lifeF t .closeStep).isNone) 10 s
        match step? lifeF s1 .closeStep with
        | some s' => advanceClose fuel s'
        | none => s1

def advanceShutdown : Nat → State → State
  | 0, s => s
  | fuel + 1, s =>
    match s.dpc with
    | .idle => s
    | .returned => s
    | _ =>
      match step? lifeF s .shutdownStep with
      | some s' => advanceShutdown fuel s'
      | none =>
        let s1 := serveUntil (fun t => (step? lifeF t .shutdownStep).isNone) 10 s
        match step? lifeF s1 .shutdownStep with
        | some s' => advanceShutdown fuel s'
        | none => s1

def resumePending (s : State) : State := advanceShutdown 10 (advanceClose 10 s)

def steps (s : State) (as : List Action) : Option State := run lifeF s as

def lifeOp (s : State) (op : String) : State × String :=
  let r : Option (State × String) :=
    if op == "serve" then
      (steps s [.startServe, .serveStep, .serveStep]).map fun s' => (s', "ok")
    else if op == "shutdown" then
      (steps s [.beginShutdown]).map fun s1 =>
        let s2 := advanceShutdown 10 s1
        -- let the serving thread run to its end
        let s3 := serveUntil (fun t => t.spc != .finished && t.spc != .loop) 10 s2
        (s3, if s2.dpc = .returned then "ok" else "blocked")
    else if op == "close" then
      (steps s [.beginClose]).map fun s1 =>
        let s2 := advanceClose 10 s1
        let s3 := serveUntil (fun t => t.spc != .finished && t.spc != .loop && t.spc != .notStarted) 10 s2
        (s3, if s2.cpc = .returned then "ok" else "blocked")
    else match op.toList with
      | 'r' :: 'e' :: 'q' :: ds =>
        (String.ofList ds).toNat?.bind fun b =>
          let i := s.conns.length
          (steps s [.accept b, .handlerStart i, .handlerFinish i]).map fun s' => (s', "ok")
      | 's' :: 'l' :: 'o' :: 'w' :: ds =>
        (String.ofList ds).toNat?.bind fun b =>
          let i := s.conns.length
          (steps s [.accept b, .handlerStart i]).map fun s' => (s', "ok")
      | 'f' :: 'i' :: 'n' :: 'i' :: 's' :: 'h' :: ds =>
        (String.ofList ds).toNat?.bind fun i => (steps s [.handlerFinish i]).map fun s' => (s', "ok")
      | _ => none
  match r with
  | some (s', res) =>
    let s'' := resumePending s'
    (s'', res)
  | none => (s, "illegal")

def lifeseqC (toks : List String) : String :=
  let (s, outs) := toks.foldl (fun (acc : State × List String) op =>
    let (s', r) := lifeOp acc.1 op
    (s', acc.2 ++ [r])) (init, [])
  " ".intercalate outs ++ " ; sock=" ++ (if s.socketOpen then "open" else "closed") ++
    " pool=" ++ (if s.poolStopped then "stopped" else "running") ++
    " close=" ++ (if s.cpc = .returned then "returned" else if s.cpc = .idle then "idle" else "pending") ++
    " replies=" ++ ",".intercalate (s.conns.map fun c => match c.reply with | some r => toString r | none => "-")

def serverLifeComponents : List (String × (List String → String)) := [("lifeseq", lifeseqC)]

end JRV.Driver
