/-
  Line-protocol component for JRV.Model.ServerLife:
    lifeseq <plain|pooled> <op>*
      high-level life-cycle operations executed by a deterministic fair scheduler over the LTS:
        serve        a thread calls serve_forever() and reaches the loop
        req<b>       a call with body b is accepted, handled and answered        (notif<b>: a notification,
        fail<b>      … whose method raises an ordinary exception                  fatal<b>: a BaseException,
        bad<b>       … whose body is malformed)
        slow<b>      a request with body b is accepted, read by its handler and stays in flight
        idle<b>      a connection is accepted and its handler started; the client sends nothing (idle connection)
        idleka<b>    a keep-alive connection: one call answered, then the handler waits for the next request
        queued<b>    a connection is accepted; its handler task stays in the pool queue
        finish<i>    the in-flight handler of connection i finishes
        hangup<i>    the client of the idle connection i disconnects
        shutdown     a thread calls shutdown() and waits for it to return
        close        a thread calls server_close() and waits for it to return
      a blocked operation lets the serving thread run; if it is still blocked when the serving thread cannot
      advance it is reported as `blocked` and left pending (a later `finish`/`hangup` may unblock it: pending
      operations are resumed after every operation).
      → `<op result>* ; sock=<open|closed> pool=<running|stopped> close=<idle|pending|returned> shut=<…>
           replies=<r0,r1,..> execs=<n0,n1,..>`
        reply: result = body + 1000, `n` = empty (notification), `E<body+1000>` error for that request, `P` parse error,
        `-` none.
-/
import JRV.Driver.Codec
import JRV.Model.ServerLife

namespace JRV.Driver
open JRV.SL

def lifeF (d : Nat) (b : Nat) : Nat := if d = 0 then b + 1000 else d + 2000000

structure LifeCtx where
  cfg : Cfg
  s : State

/-- Let the serving thread run while `blocked s` holds, at most `fuel` steps. -/
def serveUntil (cfg : Cfg) (blocked : State → Bool) : Nat → State → State
  | 0, s => s
  | fuel + 1, s =>
    if !blocked s then s
    else match s.spc with
      | .loop => if s.shutdownReq then
            match step? cfg lifeF s .serveStep with
            | some s' => serveUntil cfg blocked fuel s'
            | none => s
          else s          -- the loop would spin: nothing changes
      | _ => match step? cfg lifeF s .serveStep with
        | some s' => serveUntil cfg blocked fuel s'
        | none => s

/-- Advance the closing thread as far as possible (letting the serving thread run when it waits). -/
def advanceClose (cfg : Cfg) : Nat → State → State
  | 0, s => s
  | fuel + 1, s =>
    match s.cpc with
    | .idle => s
    | .returned => s
    | _ =>
      match step? cfg lifeF s .closeStep with
      | some s' => advanceClose cfg fuel s'
      | none =>
        let s1 := serveUntil cfg (fun t => (step? cfg lifeF t .closeStep).isNone) 10 s
        match step? cfg lifeF s1 .closeStep with
        | some s' => advanceClose cfg fuel s'
        | none => s1

def advanceShutdown (cfg : Cfg) : Nat → State → State
  | 0, s => s
  | fuel + 1, s =>
    match s.dpc with
    | .idle => s
    | .returned => s
    | _ =>
      match step? cfg lifeF s .shutdownStep with
      | some s' => advanceShutdown cfg fuel s'
      | none =>
        let s1 := serveUntil cfg (fun t => (step? cfg lifeF t .shutdownStep).isNone) 10 s
        match step? cfg lifeF s1 .shutdownStep with
        | some s' => advanceShutdown cfg fuel s'
        | none => s1

/-- The serving thread, once it has left its loop, runs to its end. -/
def serveOut (cfg : Cfg) (s : State) : State :=
  serveUntil cfg (fun t => t.spc != .finished && t.spc != .loop && t.spc != .notStarted) 10 s

def resumePending (cfg : Cfg) (s : State) : State :=
  serveOut cfg (advanceShutdown cfg 10 (advanceClose cfg 10 s))

def steps (cfg : Cfg) (s : State) (as : List Action) : Option State := run cfg lifeF s as

/-- accept, (pooled: start the handler,) then the given per-connection actions -/
def connOps (cfg : Cfg) (s : State) (b : Nat) (k : Kind) (ka : Bool) (start : Bool) (tail : Nat → List Action) : Option State :=
  let i := s.conns.length
  steps cfg s ([.accept b k ka] ++ (if cfg.plain || !start then [] else [.handlerStart i]) ++ tail i)

def numArg (ds : List Char) : Option Nat := (String.ofList ds).toNat?

def lifeOp (cfg : Cfg) (s : State) (op : String) : State × String :=
  let ok (r : Option State) : Option (State × String) := r.map fun s' => (s', "ok")
  let r : Option (State × String) :=
    if op == "serve" then
      ok (steps cfg s [.startServe, .serveStep, .serveStep])
    else if op == "shutdown" then
      (steps cfg s [.beginShutdown]).map fun s1 =>
        let s2 := advanceShutdown cfg 10 s1
        (serveOut cfg s2, if s2.dpc = .returned then "ok" else "blocked")
    else if op == "close" then
      (steps cfg s [.beginClose]).map fun s1 =>
        let s2 := advanceClose cfg 10 s1
        (serveOut cfg s2, if s2.cpc = .returned then "ok" else "blocked")
    else match op.toList with
      | 'r' :: 'e' :: 'q' :: ds =>
        (numArg ds).bind fun b => ok (connOps cfg s b .good false true fun i => [.request i, .handlerFinish i])
      | 'n' :: 'o' :: 't' :: 'i' :: 'f' :: ds =>
        (numArg ds).bind fun b => ok (connOps cfg s b .notify false true fun i => [.request i, .handlerFinish i])
      | 'f' :: 'a' :: 'i' :: 'l' :: ds =>
        (numArg ds).bind fun b => ok (connOps cfg s b .failing false true fun i => [.request i, .handlerFinish i])
      | 'f' :: 'a' :: 't' :: 'a' :: 'l' :: ds =>
        (numArg ds).bind fun b => ok (connOps cfg s b .fatal false true fun i => [.request i, .handlerFinish i])
      | 'b' :: 'a' :: 'd' :: ds =>
        (numArg ds).bind fun b => ok (connOps cfg s b .malformed false true fun i => [.request i, .handlerFinish i])
      | 's' :: 'l' :: 'o' :: 'w' :: ds =>
        (numArg ds).bind fun b => ok (connOps cfg s b .good false true fun i => [.request i])
      | 'i' :: 'd' :: 'l' :: 'e' :: 'k' :: 'a' :: ds =>
        (numArg ds).bind fun b => ok (connOps cfg s b .good true true fun i => [.request i, .handlerFinish i])
      | 'i' :: 'd' :: 'l' :: 'e' :: ds =>
        (numArg ds).bind fun b => ok (connOps cfg s b .good false true fun _ => [])
      | 'q' :: 'u' :: 'e' :: 'u' :: 'e' :: 'd' :: ds =>
        if cfg.plain then none
        else (numArg ds).bind fun b => ok (connOps cfg s b .good false false fun _ => [])
      | 'f' :: 'i' :: 'n' :: 'i' :: 's' :: 'h' :: ds =>
        (numArg ds).bind fun i => ok (steps cfg s [.handlerFinish i])
      | 'h' :: 'a' :: 'n' :: 'g' :: 'u' :: 'p' :: ds =>
        (numArg ds).bind fun i => ok (steps cfg s [.clientClose i])
      | _ => none
  match r with
  | some (s', res) => (resumePending cfg s', res)
  | none => (s, "illegal")

def showReply : Option Reply → String
  | some (.result v) => toString v
  | some .empty => "n"
  | some (.error v) => "E" ++ toString v
  | some .parseError => "P"
  | none => "-"

def lifeseqC (toks : List String) : String :=
  match toks with
  | [] => "bad-op"
  | mode :: ops =>
    if mode != "plain" && mode != "pooled" then "bad-op" else
    let cfg : Cfg := { plain := mode == "plain" }
    let (s, outs) := ops.foldl (fun (acc : State × List String) op =>
      let (s', r) := lifeOp cfg acc.1 op
      (s', acc.2 ++ [r])) (init, [])
    " ".intercalate outs ++ " ; sock=" ++ (if s.socketOpen then "open" else "closed") ++
      " pool=" ++ (if cfg.plain then "none" else if s.poolStopped then "stopped" else "running") ++
      " close=" ++ (if s.cpc = .returned then "returned" else if s.cpc = .idle then "idle" else "pending") ++
      " shut=" ++ (if s.dpc = .returned then "returned" else if s.dpc = .idle then "idle" else "pending") ++
      " replies=" ++ ",".intercalate (s.conns.map fun c => showReply c.reply) ++
      " execs=" ++ ",".intercalate (s.conns.map fun c => toString c.execs)

def serverLifeComponents : List (String × (List String → String)) := [("lifeseq", lifeseqC)]

end JRV.Driver
