/-
  Line-protocol component for JRV.Model.Transport:
    net lib:<d><c> <beh>* (/ <beh>*)*     one script per call, calls separated by `/`; tokens start at 0;
                                          d, c ∈ {0,1}: the `Lib` switches (drain when a length is announced, close when none is)
        beh = ok | okc | down | cbr | rst | trunc | empty | nonjson
            | sl<code>[o|f|e] | snl<code>[o|f|e]          status with a body (code ≠ 200, 204, 304, ≥ 200), length announced / not
            | bl204 | bl304 | blz204 | blz304             bodiless, without / with `Content-Length: 0`
            | xn<k> | xl<k> | sx<code> | sy<code> | sz<code>_<k>
            | sb<code>_<kind>_<framing>                   status with a body of the given kind (what error pages really hold):
                kind ∈ {text, own, foreign, err, http, empty, huge, html, latin1, gz, gzn, bin, cut, u16}
                framing ∈ {l (Content-Length, keep-alive), n (no length, the peer closes), c (chunked transfer
                encoding, keep-alive), k (Content-Length and `Connection: close`)}
            | hb_<kind>_<framing>                         healthy 200 reply, JSON text of the given kind
                kind ∈ {ascii, raw, esc, mix, ws, huge, gz}      framing as for sb
            | nb_<kind>_<framing>                         200 reply whose body is not JSON text
                kind ∈ {html, latin1, cut, lone, over, bin, gzn, extra}
            | q<infos>_<final>_<delta>_<cuts>             a reply delivered in pieces (harness/peer.py):
                infos ∈ {c,C,p,P,e,E}*  (100 / 102 / 103; upper case: pause after it)
                final = ok | s<code>[o|f|e|h] | b204 | b304
                delta ∈ {=,+,~,-,n}  (ok: not n; b: = or n)      cuts = l? h? b?
      → one outcome per call: r<tok> | te<code> | o:<kind>
    Anything else (unknown behaviour, a code outside the domain) answers `bad-op`.
-/
import JRV.Driver.Codec
import JRV.Model.Transport

namespace JRV.Driver
open JRV.Transport

def errCode? (s : String) : Option ErrCode :=
  match s.toNat? with
  | some n => if h : bodyStatus n = true then some ⟨n, h⟩ else none
  | none => none

/-- `<digits><suffix>` with suffix ∈ {"", "o", "f", "e"}. -/
def codeBody? (cs : List Char) : Option (ErrCode × Body) :=
  match cs.reverse with
  | 'o' :: ds => (errCode? (String.ofList ds.reverse)).map (·, Body.own)
  | 'f' :: ds => (errCode? (String.ofList ds.reverse)).map (·, Body.foreign)
  | 'e' :: ds => (errCode? (String.ofList ds.reverse)).map (·, Body.errObj)
  | _ => (errCode? (String.ofList cs)).map (·, Body.text)

/-- `<digits><suffix>` with suffix ∈ {"", "o", "f", "e", "h"} (replies delivered in pieces). -/
def codeBodyQ? (cs : List Char) : Option (ErrCode × Body) :=
  match cs.reverse with
  | 'h' :: ds => (errCode? (String.ofList ds.reverse)).map (·, Body.httpReply)
  | _ => codeBody? cs

def bodyKind? (s : String) : Option Body :=
  match s with
  | "text" => some .text | "own" => some .own | "foreign" => some .foreign | "err" => some .errObj | "http" => some .httpReply
  | "empty" => some .empty | "huge" => some .huge | "html" => some .html | "latin1" => some .latin1
  | "gz" => some .gzipDeclared | "gzn" => some .gzipBare | "bin" => some .binary | "cut" => some .cutChar | "u16" => some .utf16
  | _ => none

def okText? (s : String) : Option OkText :=
  match s with
  | "ascii" => some .ascii | "raw" => some .rawUtf8 | "esc" => some .escaped | "mix" => some .mixed | "ws" => some .spaced
  | "huge" => some .huge | "gz" => some .gzip
  | _ => none

def badText? (s : String) : Option BadText :=
  match s with
  | "html" => some .html | "latin1" => some .latin1 | "cut" => some .cutChar | "lone" => some .loneCont
  | "over" => some .overlong | "bin" => some .binary | "gzn" => some .gzipBare | "extra" => some .trailing
  | _ => none

def framing? (s : String) : Option Framing :=
  match s with
  | "l" => some .length | "n" => some .noLength | "c" => some .chunked | "k" => some .lengthClose
  | _ => none

/-- `hb_<kind>_<framing>` / `nb_<kind>_<framing>`: 200 replies by what their body holds. -/
def body200? (s : String) : Option Beh :=
  match s.splitOn "_" with
  | ["hb", k, f] => do
    let t ← okText? k
    let fr ← framing? f
    pure (.okBody t fr)
  | ["nb", k, f] => do
    let t ← badText? k
    let fr ← framing? f
    pure (.badBody200 t fr)
  | _ => none

/-- `<code>_<kind>_<framing>` (the leading `sb` already removed). -/
def statusBody? (s : String) : Option Beh :=
  match s.splitOn "_" with
  | [c, k, f] => do
    let code ← errCode? c
    let body ← bodyKind? k
    match f with
    | "l" => some (.status code true body)
    | "n" => some (.status code false body)
    | "c" => some (.statusChunked code body)
    | "k" => some (.statusLenClose code body)
    | _ => none
  | _ => none

def info? : Char → Option Info
  | 'c' => some (.continue100 false) | 'C' => some (.continue100 true)
  | 'p' => some (.other false false) | 'P' => some (.other false true)
  | 'e' => some (.other true false) | 'E' => some (.other true true)
  | _ => none

def cuts? (s : String) : Option Cuts :=
  match s with
  | "" => some ⟨false, false, false⟩ | "l" => some ⟨true, false, false⟩ | "h" => some ⟨false, true, false⟩
  | "b" => some ⟨false, false, true⟩ | "lh" => some ⟨true, true, false⟩ | "lb" => some ⟨true, false, true⟩
  | "hb" => some ⟨false, true, true⟩ | "lhb" => some ⟨true, true, true⟩
  | _ => none

def delta? (s : String) : Option Delta :=
  match s with
  | "=" => some .exact | "+" => some (.long false) | "~" => some (.long true) | "-" => some .short
  | _ => none

def final? (f d : String) : Option Final :=
  match f, d with
  | "ok", d => (delta? d).map .ok
  | "b204", "=" => some (.bodiless false true) | "b204", "n" => some (.bodiless false false)
  | "b304", "=" => some (.bodiless true true) | "b304", "n" => some (.bodiless true false)
  | f, d =>
    match f.toList with
    | 's' :: ds =>
      match codeBodyQ? ds, d with
      | some p, "n" => some (.status p.1 p.2 none)
      | some p, d => (delta? d).map fun dl => .status p.1 p.2 (some dl)
      | none, _ => none
    | _ => none

/-- `q<infos>_<final>_<delta>_<cuts>` (the leading `q` already removed). -/
def reply? (s : String) : Option Reply :=
  match s.splitOn "_" with
  | [i, f, d, c] => do
    let infos ← i.toList.mapM info?
    let final ← final? f d
    let cuts ← cuts? c
    pure ⟨infos, final, cuts⟩
  | _ => none

def beh? (s : String) : Option Beh :=
  match s with
  | "ok" => some .okKeep | "okc" => some .okClose | "down" => some .down | "cbr" => some .closeBeforeReply
  | "rst" => some .reset | "trunc" => some .truncated | "empty" => some .empty200 | "nonjson" => some .nonJson200
  | "bl204" => some (.bodiless false false) | "bl304" => some (.bodiless true false)
  | "blz204" => some (.bodiless false true) | "blz304" => some (.bodiless true true)
  | _ =>
    match s.toList with
    | 's' :: 'b' :: ds => statusBody? (String.ofList ds)
    | 's' :: 'n' :: 'l' :: ds => (codeBody? ds).map fun p => .status p.1 false p.2
    | 's' :: 'l' :: ds => (codeBody? ds).map fun p => .status p.1 true p.2
    | 's' :: 'x' :: ds => (errCode? (String.ofList ds)).map .statusLongNow
    | 's' :: 'y' :: ds => (errCode? (String.ofList ds)).map fun c => .statusLongLate c none
    | 's' :: 'z' :: ds =>
      match (String.ofList ds).splitOn "_" with
      | [c, k] => do
        let c ← errCode? c
        let k ← k.toNat?
        pure (.statusLongLate c (some k))
      | _ => none
    | 'x' :: 'n' :: ds => (String.ofList ds).toNat?.map .okExtraNow
    | 'x' :: 'l' :: ds => (String.ofList ds).toNat?.map .okThenLate
    | 'q' :: ds => (reply? (String.ofList ds)).map .scripted
    | 'h' :: 'b' :: '_' :: _ => body200? s
    | 'n' :: 'b' :: '_' :: _ => body200? s
    | _ => none

def lib? (s : String) : Option Lib :=
  match s with
  | "lib:00" => some ⟨false, false⟩ | "lib:01" => some ⟨false, true⟩
  | "lib:10" => some ⟨true, false⟩ | "lib:11" => some ⟨true, true⟩
  | _ => none

def splitCalls (toks : List String) : List (List String) :=
  let rec go (toks : List String) (cur : List String) (acc : List (List String)) : List (List String) :=
    match toks with
    | [] => (cur.reverse :: acc).reverse
    | "/" :: rest => go rest [] (cur.reverse :: acc)
    | t :: rest => go rest (t :: cur) acc
  go toks [] []

def showOutcome : Outcome → String
  | .result t => "r" ++ toString t
  | .transportError c => "te" ++ toString c
  | .other k => "o:" ++ k

def netC (toks : List String) : String :=
  match toks with
  | l :: toks =>
    match lib? l, (splitCalls toks).mapM (fun call => call.mapM beh?) with
    | some lib, some scripts => " ".intercalate ((session lib none 0 scripts).1.map showOutcome)
    | _, _ => "bad-op"
  | [] => "bad-op"

def transportComponents : List (String × (List String → String)) := [("net", netC)]

end JRV.Driver
