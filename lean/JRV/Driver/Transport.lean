/-
  Line-protocol component for JRV.Model.Transport:
    net <beh>* (/ <beh>*)*     one script per call, calls separated by `/`; tokens start at 0
        beh = ok | okc | down | cbr | rst | sl<code> | snl<code> | bl<code> | trunc | empty | nonjson
      → one outcome per call: r<tok> | te<code> | o:<kind>
-/
import JRV.Driver.Codec
import JRV.Model.Transport

namespace JRV.Driver
open JRV.Transport

def beh? (s : String) : Option Beh :=
  match s with
  | "ok" => some .okKeep | "okc" => some .okClose | "down" => some .down | "cbr" => some .closeBeforeReply
  | "rst" => some .reset | "trunc" => some .truncated | "empty" => some .empty200 | "nonjson" => some .nonJson200
  | _ =>
    match s.toList with
    | 's' :: 'n' :: 'l' :: ds => (String.ofList ds).toNat?.map .statusNoLenClose
    | 's' :: 'l' :: ds => (String.ofList ds).toNat?.map .statusLen
    | 'b' :: 'l' :: ds => (String.ofList ds).toNat?.map .bodiless
    | _ => none

def splitCalls (toks : List String) : List (List String) :=
  let rec go (toks : List String) (cur : List String) (acc : List (List String)) : List (List String) :=
    match toks with
    | [] => (cur.reverse :: acc).reverse
    | "/" :: rest => go rest [] (cur.reverse :: acc)
    | t :: rest => go rest (t :: cur) acc
  go toks [] []

def showOutcome : Outcome → String
  | .result t => "r" ++ toString t
  | .transportError c => "te" ++ toString c
  | .other k => "o:" ++ k

def netC (toks : List String) : String :=
  match (splitCalls toks).mapM (fun call => call.mapM beh?) with
  | some scripts => " ".intercalate ((session none 0 scripts).1.map showOutcome)
  | none => "bad-op"

def transportComponents : List (String × (List String → String)) := [("net", netC)]

end JRV.Driver
