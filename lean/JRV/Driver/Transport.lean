/-
  Line-protocol component for JRV.Model.Transport:
    net lib:<d><c> <beh>* (/ <beh>*)*     one script per call, calls separated by `/`; tokens start at 0;
                                          d, c ∈ {0,1}: the `Lib` switches (drain when a length is announced, close when none is)
        beh = ok | okc | down | cbr | rst | trunc | empty | nonjson
            | sl<code>[o|f|e] | snl<code>[o|f|e]          status with a body (code ≠ 200, 204, 304, ≥ 200), length announced / not
            | bl204 | bl304 | blz204 | blz304             bodiless, without / with `Content-Length: 0`
            | xn<k> | xl<k> | sx<code> | sy<code> | sz<code>_<k>
      → one outcome per call: r<tok> | te<code> | o:<kind>
    Anything else (unknown behaviour, a code outside the domain) answers `bad-op`.
-/
import JRV.Driver.Codec
import JRV.Model.Transport

namespace JRV.Driver
open JRV.Transport

def errCode? (s : String) : Option ErrCode :=
  match s.toNat? with
  | some n => if h : bodyStatus n = true then some ⟨n, h⟩ else none
  | none => none

/-- `<digits><suffix>` with suffix ∈ {"", "o", "f", "e"}. -/
def codeBody? (cs : List Char) : Option (ErrCode × Body) :=
  match cs.reverse with
  | 'o' :: ds => (errCode? (String.ofList ds.reverse)).map (·, Body.own)
  | 'f' :: ds => (errCode? (String.ofList ds.reverse)).map (·, Body.foreign)
  | 'e' :: ds => (errCode? (String.ofList ds.reverse)).map (·, Body.errObj)
  | _ => (errCode? (String.ofList cs)).map (·, Body.text)

def beh? (s : String) : Option Beh :=
  match s with
  | "ok" => some .okKeep | "okc" => some .okClose | "down" => some .down | "cbr" => some .closeBeforeReply
  | "rst" => some .reset | "trunc" => some .truncated | "empty" => some .empty200 | "nonjson" => some .nonJson200
  | "bl204" => some (.bodiless false false) | "bl304" => some (.bodiless true false)
  | "blz204" => some (.bodiless false true) | "blz304" => some (.bodiless true true)
  | _ =>
    match s.toList with
    | 's' :: 'n' :: 'l' :: ds => (codeBody? ds).map fun p => .status p.1 false p.2
    | 's' :: 'l' :: ds => (codeBody? ds).map fun p => .status p.1 true p.2
    | 's' :: 'x' :: ds => (errCode? (String.ofList ds)).map .statusLongNow
    | 's' :: 'y' :: ds => (errCode? (String.ofList ds)).map fun c => .statusLongLate c none
    | 's' :: 'z' :: ds =>
      match (String.ofList ds).splitOn "_" with
      | [c, k] => do
        let c ← errCode? c
        let k ← k.toNat?
        pure (.statusLongLate c (some k))
      | _ => none
    | 'x' :: 'n' :: ds => (String.ofList ds).toNat?.map .okExtraNow
    | 'x' :: 'l' :: ds => (String.ofList ds).toNat?.map .okThenLate
    | _ => none

def lib? (s : String) : Option Lib :=
  match s with
  | "lib:00" => some ⟨false, false⟩ | "lib:01" => some ⟨false, true⟩
  | "lib:10" => some ⟨true, false⟩ | "lib:11" => some ⟨true, true⟩
  | _ => none

def splitCalls (toks : List String) : List (List String) :=
  let rec go (toks : List String) (cur : List String) (acc : List (List String)) : List (List String) :=
    match toks with
    | [] => (cur.reverse :: acc).reverse
    | "/" :: rest => go rest [] (cur.reverse :: acc)
    | t :: rest => go rest (t :: cur) acc
  go toks [] []

def showOutcome : Outcome → String
  | .result t => "r" ++ toString t
  | .transportError c => "te" ++ toString c
  | .other k => "o:" ++ k

def netC (toks : List String) : String :=
  match toks with
  | l :: toks =>
    match lib? l, (splitCalls toks).mapM (fun call => call.mapM beh?) with
    | some lib, some scripts => " ".intercalate ((session lib none 0 scripts).1.map showOutcome)
    | _, _ => "bad-op"
  | [] => "bad-op"

def transportComponents : List (String × (List String → String)) := [("net", netC)]

end JRV.Driver
