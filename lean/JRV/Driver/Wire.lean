/-
  Line-protocol components for JRV.Model.Wire (byte strings travel as hex tokens, `-` = empty):
    wclient <hexchunk>*                              → `text <hex>` | `raw <hex>`
    wserver <maxChunk> <contentLength> <hexstream> <readsize>*   → `ok <hex text>` | `err UnicodeDecodeError`, then ` chunks=<n>`
    wframe <hex contentType> <hex body>              → `<client CL> <server CL> <cgi CL> <hex body bytes>`
    wtarget <hex scheme> <hex netloc> <hex path> <hex query>  → `ok <hex target>` | `err OSError`
-/
import JRV.Driver.Codec
import JRV.Model.Wire

namespace JRV.Driver
open JRV JRV.Codec JRV.Wire

def bytesOfHex? (s : String) : Option Bytes :=
  if s == "-" then some [] else hexBytes? s.toList

def hexOfBytes (b : Bytes) : String :=
  if b.isEmpty then "-" else String.ofList (b.flatMap fun x => [hexNibble (x.toNat / 16), hexNibble (x.toNat % 16)])

def hexOfStr (s : String) : String := hexOfBytes (toBytes s)

def strOfHex? (s : String) : Option String := do
  let b ← bytesOfHex? s
  String.fromUTF8? b.toByteArray

def wclientC (toks : List String) : String :=
  match toks.mapM bytesOfHex? with
  | some chunks =>
    match clientClose chunks with
    | .text s => "text " ++ hexOfStr s
    | .raw b => "raw " ++ hexOfBytes b
  | none => "bad-op"

def wserverC (toks : List String) : String :=
  match toks with
  | m :: cl :: st :: reads =>
    match m.toNat?, cl.toNat?, bytesOfHex? st, reads.mapM String.toNat? with
    | some m, some cl, some stream, some rs =>
      let chunks := readLoop m cl stream rs
      (match fromBytes chunks.flatten with
        | .ok s => "ok " ++ hexOfStr s
        | .error e => "err " ++ e.cls) ++ " chunks=" ++ toString chunks.length
    | _, _, _, _ => "bad-op"
  | _ => "bad-op"

def wframeC (toks : List String) : String :=
  match toks with
  | [ct, body] =>
    match strOfHex? ct, strOfHex? body with
    | some ct, some body =>
      let c := clientHeaders (fun _ => "") ct "ua" body [] []
      let s := serverReply ct body
      let g := cgiReply ct body
      let val := fun (ls : List (String × String)) => ((ls.drop 1).head?.map (·.2)).getD "?"
      let ctv := fun (ls : List (String × String)) => (ls.head?.map (·.2)).getD "?"
      String.intercalate " " [val c, val s.1, val g.1, hexOfBytes s.2, hexOfStr (ctv c), hexOfStr (ctv s.1), hexOfStr (ctv g.1)]
    | _, _ => "bad-op"
  | _ => "bad-op"

def wtargetC (toks : List String) : String :=
  match toks.mapM strOfHex? with
  | some [scheme, netloc, path, query] =>
    match requestTarget ⟨scheme, netloc, path, query⟩ with
    | .ok t => "ok " ++ hexOfStr t
    | .error e => "err " ++ e.cls
  | _ => "bad-op"

def wireComponents : List (String × (List String → String)) := [
  ("wclient", wclientC), ("wserver", wserverC), ("wframe", wframeC), ("wtarget", wtargetC)
]

end JRV.Driver
