/-
  Line-protocol components for JRV.Model.Wire (byte strings travel as hex tokens, `-` = empty):
    wclient <hexchunk>*                              → `text <hex>` | `raw <hex>`
    wserver <maxChunk> <contentLength> <hexstream> <readsize>*   → `ok <hex text>` | `err UnicodeDecodeError`, then ` chunks=<n>`
    wframe <hex contentType> <hex body>              → `<client CL> <server CL> <cgi CL> <hex body bytes>`
    wtarget <hex scheme> <hex netloc> <hex path> <hex query>  → `ok <hex target>` | `err OSError`
    wpost <maxChunk> <hex contentType> <hex faultText> <contentLength|none> <hexstream> <dispatch> <readsize>*
          dispatch = echo | none | empty | raise | text:<hex>
                                                     → `<status> <Content-length> <hex Content-type> <hex body bytes>`
    wcgi <hex encoding> <hex contentType> <hex body> → `ok <Content-Length> <hex Content-Type> <hex body bytes>` | `err <Class>`
-/
import JRV.Driver.Codec
import JRV.Model.Wire

namespace JRV.Driver
open JRV JRV.Codec JRV.Wire

def bytesOfHex? (s : String) : Option Bytes :=
  if s == "-" then some [] else hexBytes? s.toList

def hexOfBytes (b : Bytes) : String :=
  if b.isEmpty then "-" else String.ofList (b.flatMap fun x => [hexNibble (x.toNat / 16), hexNibble (x.toNat % 16)])

def hexOfStr (s : String) : String := hexOfBytes (toBytes s)

def strOfHex? (s : String) : Option String := do
  let b ← bytesOfHex? s
  String.fromUTF8? b.toByteArray

def wclientC (toks : List String) : String :=
  match toks.mapM bytesOfHex? with
  | some chunks =>
    match clientClose chunks with
    | .text s => "text " ++ hexOfStr s
    | .raw b => "raw " ++ hexOfBytes b
  | none => "bad-op"

def wserverC (toks : List String) : String :=
  match toks with
  | m :: cl :: st :: reads =>
    match m.toNat?, cl.toNat?, bytesOfHex? st, reads.mapM String.toNat? with
    | some m, some cl, some stream, some rs =>
      let chunks := readLoop m cl stream rs
      (match fromBytes chunks.flatten with
        | .ok s => "ok " ++ hexOfStr s
        | .error e => "err " ++ e.cls) ++ " chunks=" ++ toString chunks.length
    | _, _, _, _ => "bad-op"
  | _ => "bad-op"

def wframeC (toks : List String) : String :=
  match toks with
  | [ct, body] =>
    match strOfHex? ct, strOfHex? body with
    | some ct, some body =>
      let c := clientHeaders (fun _ => "") ct "ua" body [] []
      let s := serverReply ct (some body)
      let g := match cgiReply "UTF-8" ct body with
        | .ok r => r
        | .error _ => ([], [])
      let val := fun (ls : List (String × String)) => ((ls.drop 1).head?.map (·.2)).getD "?"
      let ctv := fun (ls : List (String × String)) => (ls.head?.map (·.2)).getD "?"
      String.intercalate " " [val c, val s.1, val g.1, hexOfBytes s.2, hexOfStr (ctv c), hexOfStr (ctv s.1), hexOfStr (ctv g.1)]
    | _, _ => "bad-op"
  | _ => "bad-op"

def wtargetC (toks : List String) : String :=
  match toks.mapM strOfHex? with
  | some [scheme, netloc, path, query] =>
    match requestTarget ⟨scheme, netloc, path, query⟩ with
    | .ok t => "ok " ++ hexOfStr t
    | .error e => "err " ++ e.cls
  | _ => "bad-op"

def dispatchOfTok? (tok : String) : Option (String → TryOutcome) :=
  if tok == "echo" then some (fun d => .returned (some d))
  else if tok == "none" then some (fun _ => .returned none)
  else if tok == "empty" then some (fun _ => .returned (some ""))
  else if tok == "raise" then some (fun _ => .raised)
  else if tok.startsWith "text:" then (strOfHex? (tok.drop 5).toString).map fun t => (fun _ => .returned (some t))
  else none

def wpostC (toks : List String) : String :=
  match toks with
  | m :: ct :: ft :: cl :: st :: disp :: reads =>
    let cl? : Option (Option Nat) := if cl == "none" then some none else cl.toNat?.map some
    match m.toNat?, strOfHex? ct, strOfHex? ft, cl?, bytesOfHex? st, dispatchOfTok? disp, reads.mapM String.toNat? with
    | some m, some ct, some ft, some cl, some stream, some d, some rs =>
      let (status, hs, b) := doPost m ct ft cl stream rs d
      let val := fun (k : String) => ((hs.find? (·.1 == k)).map (·.2)).getD "?"
      String.intercalate " " [toString status, val "Content-length", hexOfStr (val "Content-type"), hexOfBytes b]
    | _, _, _, _, _, _, _ => "bad-op"
  | _ => "bad-op"

def wcgiC (toks : List String) : String :=
  match toks.mapM strOfHex? with
  | some [enc, ct, body] =>
    match cgiReply enc ct body with
    | .ok (hs, b) =>
      let val := fun (k : String) => ((hs.find? (·.1 == k)).map (·.2)).getD "?"
      String.intercalate " " ["ok", val "Content-Length", hexOfStr (val "Content-Type"), hexOfBytes b]
    | .error e => "err " ++ e.cls
  | _ => "bad-op"

def wireComponents : List (String × (List String → String)) := [
  ("wclient", wclientC), ("wserver", wserverC), ("wframe", wframeC), ("wtarget", wtargetC),
  ("wpost", wpostC), ("wcgi", wcgiC)
]

end JRV.Driver
