/-
  Line-protocol component for JRV.Model.WireSession:
    wsession <resp>*      resp = eof:<hexchunk>,<hexchunk>,..  |  err:<hexchunk>,..   (`-` = no chunk at all)
      → one outcome per response, ` | `-separated: `text <hex>` | `raw <hex>` | `raised`
  (the transport of the code as it is: `freshParser`, `ownBuffer`)
-/
import JRV.Driver.Wire
import JRV.Model.WireSession

namespace JRV.Driver
open JRV JRV.Codec JRV.Wire

def respOf? (tok : String) : Option Resp :=
  match tok.splitOn ":" with
  | [kind, body] =>
    let chunks : Option (List Bytes) :=
      if body == "-" then some [] else (body.splitOn ",").mapM bytesOfHex?
    match kind, chunks with
    | "eof", some cs => some { chunks := cs, ending := .eof }
    | "err", some cs => some { chunks := cs, ending := .error "ReadError" }
    | _, _ => none
  | _ => none

def showClosed : PyM Closed → String
  | .ok (.text s) => "text " ++ hexOfStr s
  | .ok (.raw b) => "raw " ++ hexOfBytes b
  | .error _ => "raised"

def wsessionC (toks : List String) : String :=
  match toks.mapM respOf? with
  | some rs => " | ".intercalate ((session {} {} rs).map showClosed)
  | none => "bad-op"

def wireSessionComponents : List (String × (List String → String)) := [("wsession", wsessionC)]

end JRV.Driver
