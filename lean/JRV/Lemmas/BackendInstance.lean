/-
  JRV.Lemmas.BackendInstance — a `Backend` that satisfies both laws, for EVERY JSON-able value.

  The C01 / C14 theorems are quantified over every `Backend` (a renderer, a parser, and the laws `roundtrip`
  and `batch` as fields).  This file shows that the quantification is not over the empty set: it constructs
  one and proves the two law fields — for all values with `wfJson`, no restriction.

  The instance is NOT JSON and not the backend the library runs with (CPython's `json`, whose conformance to the
  laws is tested on every run by harness/props/c01.py and is part of the trusted base).  It is the cheapest
  codec whose laws can be proved in a few lines:
    * `enc : PyVal → Nat` is a Gödel numbering by Cantor pairing (`Nat.pair`), injective on all of `PyVal`
      (`enc_inj`, by mutual structural induction);
    * a value is rendered as `enc (normalise v) + 1` letters `a` (`unary`): no comma, no bracket, never empty;
    * the parser is the inverse of the renderer on single texts and on MultiCall bodies `"[ t1,t2,… ]"`,
      defined by choice (`Classical.choose`; it is a witness of satisfiability, not something to run) — its
      correctness is the injectivity of `enc`, of `unary`, and of the comma-separated layout (`body_inj`).
  Dictionaries keep their key order (`PyVal.dict` is an ordered list and `parse (render v) = normalise v` is an
  equality of such lists): the instance is an order-preserving backend, like CPython's.
-/
import JRV.Model.Backend
import Mathlib.Data.Nat.Pairing
import Mathlib.Logic.Encodable.Basic
import Mathlib.Logic.Equiv.List

set_option linter.unusedSimpArgs false
set_option linter.unusedVariables false

namespace JRV.BackendInstance
open JRV PyVal

/- ---------- numbering ---------- -/

def encStr (s : String) : Nat := Encodable.encode (s.toList.map Char.toNat)

theorem encStr_inj {a b : String} (h : encStr a = encStr b) : a = b := by
  have h1 : a.toList.map Char.toNat = b.toList.map Char.toNat := Encodable.encode_injective h
  have h2 : a.toList = b.toList := by
    refine List.map_injective_iff.mpr ?_ h1
    intro x y hxy
    exact Char.ext (UInt32.toNat_inj.mp hxy)
  exact String.toList_injective h2

mutual
  def enc : PyVal → Nat
    | .none => Nat.pair 0 0
    | .bool b => Nat.pair 1 (Encodable.encode b)
    | .int i => Nat.pair 2 (Encodable.encode i)
    | .float f => Nat.pair 3 (Nat.pair (Encodable.encode f.neg) (Nat.pair f.mant (Encodable.encode f.exp)))
    | .str s => Nat.pair 4 (encStr s)
    | .list xs => Nat.pair 5 (encList xs)
    | .tuple xs => Nat.pair 6 (encList xs)
    | .set xs => Nat.pair 7 (encList xs)
    | .frozenset xs => Nat.pair 8 (encList xs)
    | .dict kvs => Nat.pair 9 (encKVs kvs)
    | .obj c fs => Nat.pair 10 (Nat.pair (encStr c) (encFields fs))
  def encList : List PyVal → Nat
    | [] => 0
    | x :: xs => Nat.pair (enc x) (encList xs) + 1
  def encKVs : List (PyVal × PyVal) → Nat
    | [] => 0
    | (k, v) :: rest => Nat.pair (Nat.pair (enc k) (enc v)) (encKVs rest) + 1
  def encFields : List (String × PyVal) → Nat
    | [] => 0
    | (k, v) :: rest => Nat.pair (Nat.pair (encStr k) (enc v)) (encFields rest) + 1
end

mutual
  theorem enc_inj : ∀ a b : PyVal, enc a = enc b → a = b
    | .none, b, h => by cases b <;> simp_all [enc, Nat.pair_eq_pair]
    | .bool x, b, h => by cases b <;> simp_all [enc, Nat.pair_eq_pair]
    | .int x, b, h => by cases b <;> simp_all [enc, Nat.pair_eq_pair]
    | .float x, b, h => by
      cases b <;> simp [enc, Nat.pair_eq_pair] at h
      rename_i y
      obtain ⟨h1, h2, h3⟩ := h
      cases x; cases y; simp_all
    | .str x, b, h => by
      cases b <;> simp [enc, Nat.pair_eq_pair] at h
      rw [encStr_inj h]
    | .list xs, b, h => by
      cases b <;> simp [enc, Nat.pair_eq_pair] at h
      rw [encList_inj xs _ h]
    | .tuple xs, b, h => by
      cases b <;> simp [enc, Nat.pair_eq_pair] at h
      rw [encList_inj xs _ h]
    | .set xs, b, h => by
      cases b <;> simp [enc, Nat.pair_eq_pair] at h
      rw [encList_inj xs _ h]
    | .frozenset xs, b, h => by
      cases b <;> simp [enc, Nat.pair_eq_pair] at h
      rw [encList_inj xs _ h]
    | .dict kvs, b, h => by
      cases b <;> simp [enc, Nat.pair_eq_pair] at h
      rw [encKVs_inj kvs _ h]
    | .obj c fs, b, h => by
      cases b <;> simp [enc, Nat.pair_eq_pair] at h
      rw [encStr_inj h.1, encFields_inj fs _ h.2]
  theorem encList_inj : ∀ a b : List PyVal, encList a = encList b → a = b
    | [], b, h => by cases b <;> simp_all [encList]
    | x :: xs, b, h => by
      cases b with
      | nil => simp [encList] at h
      | cons y ys =>
        simp only [encList, Nat.add_right_cancel_iff, Nat.pair_eq_pair] at h
        rw [enc_inj x y h.1, encList_inj xs ys h.2]
  theorem encKVs_inj : ∀ a b : List (PyVal × PyVal), encKVs a = encKVs b → a = b
    | [], b, h => by
      cases b with
      | nil => rfl
      | cons y ys => obtain ⟨k, v⟩ := y; simp [encKVs] at h
    | (k, v) :: xs, b, h => by
      cases b with
      | nil => simp [encKVs] at h
      | cons y ys =>
        obtain ⟨k', v'⟩ := y
        simp only [encKVs, Nat.add_right_cancel_iff, Nat.pair_eq_pair] at h
        rw [enc_inj k k' h.1.1, enc_inj v v' h.1.2, encKVs_inj xs ys h.2]
  theorem encFields_inj : ∀ a b : List (String × PyVal), encFields a = encFields b → a = b
    | [], b, h => by
      cases b with
      | nil => rfl
      | cons y ys => obtain ⟨k, v⟩ := y; simp [encFields] at h
    | (k, v) :: xs, b, h => by
      cases b with
      | nil => simp [encFields] at h
      | cons y ys =>
        obtain ⟨k', v'⟩ := y
        simp only [encFields, Nat.add_right_cancel_iff, Nat.pair_eq_pair] at h
        rw [encStr_inj h.1.1, enc_inj v v' h.1.2, encFields_inj xs ys h.2]
end

/- ---------- texts ---------- -/

/-- `n + 1` letters `a`. -/
def unaryL (n : Nat) : List Char := List.replicate (n + 1) 'a'
def unary (n : Nat) : String := String.ofList (unaryL n)

theorem unary_toList (n : Nat) : (unary n).toList = unaryL n := String.toList_ofList

theorem unary_ne_empty (n : Nat) : unary n ≠ "" := by
  intro h
  have := congrArg String.toList h
  rw [unary_toList] at this
  simp [unaryL, List.replicate_succ] at this

/-- Letters `a` followed by something that does not start with `a`: the number of letters and the rest are
    determined. -/
theorem replicate_split : ∀ (n m : Nat) (r s : List Char), (∀ t, r ≠ 'a' :: t) → (∀ t, s ≠ 'a' :: t) →
    List.replicate n 'a' ++ r = List.replicate m 'a' ++ s → n = m ∧ r = s
  | 0, 0, r, s, _, _, h => ⟨rfl, by simpa using h⟩
  | 0, m + 1, r, s, hr, _, h => by
    simp only [List.replicate_zero, List.nil_append, List.replicate_succ, List.cons_append] at h
    exact absurd h (hr _)
  | n + 1, 0, r, s, _, hs, h => by
    simp only [List.replicate_zero, List.nil_append, List.replicate_succ, List.cons_append] at h
    exact absurd h.symm (hs _)
  | n + 1, m + 1, r, s, hr, hs, h => by
    simp only [List.replicate_succ, List.cons_append, List.cons.injEq, true_and] at h
    obtain ⟨h1, h2⟩ := replicate_split n m r s hr hs h
    exact ⟨by omega, h2⟩

/-- The characters after the first text of a MultiCall body: `,t2,t3…`. -/
def tailL (ns : List Nat) : List Char := ns.flatMap (fun n => ',' :: unaryL n)

theorem tailL_no_a (ns : List Nat) : ∀ t, tailL ns ≠ 'a' :: t := by
  intro t
  cases ns <;> simp [tailL, List.flatMap_cons]

theorem tailL_inj : ∀ a b : List Nat, tailL a = tailL b → a = b
  | [], [], _ => rfl
  | [], m :: ms, h => by simp [tailL, List.flatMap_cons] at h
  | n :: ns, [], h => by simp [tailL, List.flatMap_cons] at h
  | n :: ns, m :: ms, h => by
    simp only [tailL, List.flatMap_cons, List.cons_append, List.cons.injEq, true_and] at h
    obtain ⟨h1, h2⟩ := replicate_split (n + 1) (m + 1) _ _ (tailL_no_a ns) (tailL_no_a ms) h
    rw [show n = m by omega, tailL_inj ns ms h2]

/-- The characters between `"[ "` and `" ]"`. -/
def bodyL : List Nat → List Char
  | [] => []
  | n :: ns => unaryL n ++ tailL ns

theorem bodyL_inj : ∀ a b : List Nat, bodyL a = bodyL b → a = b
  | [], [], _ => rfl
  | [], m :: ms, h => by simp [bodyL, unaryL, List.replicate_succ] at h
  | n :: ns, [], h => by simp [bodyL, unaryL, List.replicate_succ] at h
  | n :: ns, m :: ms, h => by
    obtain ⟨h1, h2⟩ := replicate_split (n + 1) (m + 1) _ _ (tailL_no_a ns) (tailL_no_a ms) h
    rw [show n = m by omega, tailL_inj ns ms h2]

theorem intercalate_toList (s a : String) (as : List String) :
    (s.intercalate (a :: as)).toList = a.toList ++ as.flatMap (fun x => s.toList ++ x.toList) := by
  induction as generalizing a with
  | nil => simp [String.intercalate]; rfl
  | cons b as ih =>
    have : s.intercalate (a :: b :: as) = s.intercalate ((a ++ s ++ b) :: as) := rfl
    rw [this, ih]
    simp [String.toList_append, List.append_assoc]

/-- The text MultiCall builds from unary texts, as characters. -/
theorem batch_toList (ns : List Nat) :
    ("[ " ++ ",".intercalate (ns.map unary) ++ " ]").toList = '[' :: ' ' :: (bodyL ns ++ [' ', ']']) := by
  have h1 : "[ ".toList = ['[', ' '] := rfl
  have h2 : " ]".toList = [' ', ']'] := rfl
  have h3 : ",".toList = [','] := rfl
  cases ns with
  | nil => simp [String.toList_append, h1, h2, String.intercalate, bodyL]
  | cons n ns =>
    simp only [String.toList_append, h1, h2, List.map_cons, intercalate_toList, h3, unary_toList, bodyL, tailL,
      List.flatMap_map]
    simp

/- ---------- the codec ---------- -/

/-- `jdumps`: refuses what is not JSON-able, writes the number of the normal form otherwise. -/
def render (v : PyVal) : PyM String :=
  if v.wfJson then .ok (unary (enc v.normalise)) else raise "TypeError" (.str "not JSON serializable")

/-- `jloads`: the value whose number the text spells; for a MultiCall body the list of such values. -/
noncomputable def parse (s : String) : Option PyVal := by
  classical
  exact
    if h : ∃ v : PyVal, s = unary (enc v) then some (Classical.choose h)
    else if h : ∃ vs : List PyVal, s = "[ " ++ ",".intercalate (vs.map (fun v => unary (enc v))) ++ " ]" then
      some (.list (Classical.choose h))
    else Option.none

theorem unary_inj {n m : Nat} (h : unary n = unary m) : n = m := by
  have := congrArg String.toList h
  simp only [unary_toList, unaryL] at this
  have := congrArg List.length this
  simpa using this

theorem parse_single (v : PyVal) : parse (unary (enc v)) = some v := by
  classical
  have h : ∃ w : PyVal, unary (enc v) = unary (enc w) := ⟨v, rfl⟩
  simp only [parse, h, ↓reduceDIte, Option.some.injEq]
  exact (enc_inj _ _ (unary_inj (Classical.choose_spec h))).symm

/-- Two MultiCall bodies built from value texts are equal only if the value lists are. -/
theorem batch_text_inj (vs ws : List PyVal)
    (h : "[ " ++ ",".intercalate (vs.map (fun v => unary (enc v))) ++ " ]" =
         "[ " ++ ",".intercalate (ws.map (fun v => unary (enc v))) ++ " ]") : vs = ws := by
  have hmap : ∀ us : List PyVal, us.map (fun v => unary (enc v)) = (us.map enc).map unary := by
    intro us; simp
  have := congrArg String.toList h
  rw [hmap vs, hmap ws, batch_toList, batch_toList] at this
  simp only [List.cons.injEq, true_and] at this
  have hb := bodyL_inj _ _ (List.append_cancel_right this)
  have hinj : Function.Injective enc := fun a b h => enc_inj a b h
  exact List.map_injective_iff.mpr hinj hb

theorem parse_batch (vs : List PyVal) :
    parse ("[ " ++ ",".intercalate (vs.map (fun v => unary (enc v))) ++ " ]") = some (.list vs) := by
  classical
  have hmap : ∀ ws : List PyVal, ws.map (fun v => unary (enc v)) = (ws.map enc).map unary := by
    intro ws; simp
  have h1 : ¬ ∃ v : PyVal, "[ " ++ ",".intercalate (vs.map (fun v => unary (enc v))) ++ " ]" = unary (enc v) := by
    rintro ⟨v, hv⟩
    have := congrArg String.toList hv
    rw [hmap, batch_toList, unary_toList] at this
    simp [unaryL, List.replicate_succ] at this
  have h2 : ∃ ws : List PyVal, "[ " ++ ",".intercalate (vs.map (fun v => unary (enc v))) ++ " ]" =
      "[ " ++ ",".intercalate (ws.map (fun v => unary (enc v))) ++ " ]" := ⟨vs, rfl⟩
  simp only [parse, h1, ↓reduceDIte, h2, Option.some.injEq, list.injEq]
  exact (batch_text_inj vs _ (Classical.choose_spec h2)).symm

/-- A backend satisfying both laws. -/
noncomputable def godel : Backend where
  render := render
  parse := parse
  roundtrip := by
    intro v hv
    exact ⟨unary (enc v.normalise), by simp [render, hv], unary_ne_empty _, parse_single _⟩
  batch := by
    intro vs ss hlen hall
    have hss : ss = (vs.map normalise).map (fun v => unary (enc v)) := by
      apply List.ext_getElem
      · simp [hlen]
      · intro i h1 h2
        have hi : i < vs.length := by simpa [hlen] using h1
        obtain ⟨hwf, hr⟩ := hall i hi h1
        simp only [render, hwf, ↓reduceIte, Except.ok.injEq] at hr
        simp [← hr]
    rw [hss]
    exact parse_batch _

end JRV.BackendInstance
