/-
  Lemmas about the byte layer in front of the dispatcher (JRV.Model.Wire.fromBytes / toBytes,
  JRV.Model.ByteBody, JRV.Model.JsonText): used by the C05 and C17 property files.
-/
import JRV.Model.ByteBody

namespace JRV.ByteBody
open JRV JRV.Wire

theorem toBytes_toByteArray (s : String) : (toBytes s).toByteArray = s.toByteArray := by
  apply ByteArray.ext
  simp [toBytes, List.data_toByteArray]

/-- Encoding then decoding gives the text back. -/
theorem fromBytes_toBytes (s : String) : fromBytes (toBytes s) = .ok s := by
  unfold fromBytes
  rw [toBytes_toByteArray]
  have hv : s.toByteArray.IsValidUTF8 := s.isValidUTF8
  simp only [String.fromUTF8?, hv, ↓reduceDIte, pure, Except.pure]
  rfl

/-- Decoding is exact: whenever `from_bytes` succeeds, the text re-encodes to the very bytes that were
    received.  Nothing is dropped (a leading EF BB BF stays U+FEFF), replaced or normalised. -/
theorem decode_exact (b : Bytes) (s : String) (h : fromBytes b = .ok s) : toBytes s = b := by
  unfold fromBytes at h
  cases hd : String.fromUTF8? b.toByteArray with
  | none => simp [hd, raise] at h
  | some s' =>
    simp only [hd, pure, Except.pure, Except.ok.injEq] at h
    subst h
    simp only [String.fromUTF8?] at hd
    split at hd
    · rename_i hv
      simp only [Option.some.injEq] at hd
      subst hd
      simp [toBytes, String.toUTF8, String.fromUTF8, List.data_toByteArray]
    · simp at hd

/-- Decoding is injective: two byte strings with the same text are the same bytes. -/
theorem decode_injective (b₁ b₂ : Bytes) (s : String) (h₁ : fromBytes b₁ = .ok s) (h₂ : fromBytes b₂ = .ok s) :
    b₁ = b₂ := by
  rw [← decode_exact b₁ s h₁, ← decode_exact b₂ s h₂]

/-- A JSON text starts with white space or with the first character of a value. -/
theorem accepts_first_char (c : Char) (cs : List Char) (h : JsonText.accepts (c :: cs) = true) :
    canStart c = true := by
  unfold JsonText.accepts at h
  by_cases hw : JsonText.isWs c = true
  · simp [canStart, hw]
  · have hs : JsonText.skipWs (c :: cs) = c :: cs := by simp [JsonText.skipWs, hw]
    rw [hs] at h
    have : 2 * (c :: cs).length + 4 = (2 * (c :: cs).length + 3) + 1 := by omega
    rw [this] at h
    unfold JsonText.value at h
    simp only [canStart]
    by_cases h1 : (c.toNat == 34) = true
    · simp [h1]
    by_cases h2 : (c.toNat == 91) = true
    · simp [h2]
    by_cases h3 : (c.toNat == 123) = true
    · simp [h3]
    by_cases h4 : (c.toNat == 116) = true
    · simp [h4]
    by_cases h5 : (c.toNat == 102) = true
    · simp [h5]
    by_cases h6 : (c.toNat == 110) = true
    · simp [h6]
    by_cases h7 : (c.toNat == 45 || JsonText.isDigit c) = true
    · simp only [Bool.or_eq_true] at h7
      rcases h7 with h7 | h7 <;> simp [h7]
    · simp [h1, h2, h3, h4, h5, h6, h7] at h

/-- A text whose first character cannot start a JSON text — U+FEFF, NUL, any character beyond ASCII, a
    letter other than t / f / n, … — is malformed, whatever follows. -/
theorem verdict_bad_first_char (c : Char) (cs : List Char) (h : canStart c = false) :
    JsonText.verdict (c :: cs) = .malformed := by
  unfold JsonText.verdict
  cases ha : JsonText.accepts (c :: cs) with
  | false => rfl
  | true => rw [accepts_first_char c cs ha] at h; cases h

/-- Characters beyond U+007F never start a JSON text. -/
theorem canStart_ascii (c : Char) (h : canStart c = true) : c.toNat < 128 := by
  simp only [canStart, JsonText.isWs, JsonText.isDigit, Bool.or_eq_true, beq_iff_eq, Bool.and_eq_true,
    decide_eq_true_eq] at h
  omega

end JRV.ByteBody
